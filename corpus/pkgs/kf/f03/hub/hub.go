package hub

import (
	afoo "example.com/m/kf/f03/1a/foo"
	"example.com/m/kf/f03/y/foo"
)

// E mentions both.
type E interface {
	A(afoo.T)
	B(foo.T)
}
