package src

import "example.com/m/kf/f03/hub"

// I embeds hub.E.
type I interface{ hub.E }
