package f25

import "example.com/m/kf/f25/hub"

// I is hub.H.
type I = hub.H
