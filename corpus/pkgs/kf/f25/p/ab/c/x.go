package x

// T is a plain struct.
type T struct{}
