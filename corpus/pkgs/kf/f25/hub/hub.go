package hub

import (
	p0 "example.com/m/kf/f25/z/c"
	p1 "example.com/m/kf/f25/w/bc"
	p2 "example.com/m/kf/f25/q/a/bc"
	p3 "example.com/m/kf/f25/p/ab/c"
)

// H brings four packages to the registry in this order, without source aliases: c, bc, and two
// packages named x whose paths end in a/bc and ab/c.  The two x packages differ at level 0 (bc, c),
// both names are taken, and at level 1 both are abc; the pending import is not in the map yet, so
// searchImport does not see that abc is already given away.
type H interface {
	M1(a p0.T)
	M2(a p1.T)
	M3(a p2.T)
	M4(a p3.T)
}
