package c

// T is a plain struct.
type T struct{}
