package bc

// T is a plain struct.
type T struct{}
