package f06

// N is named.
type N int

// I has a union whose first term is a named type.
type I[T interface{ N | int }] interface{ M(T) }
