package f07

// I has a constraint mentioning another type parameter.
type I[T any, S interface{ ~[]T }] interface{ M(T) S }
