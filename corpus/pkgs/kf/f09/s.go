package f09

// T is local.
type T struct{}

// I mentions a local type.
type I interface{ M(T) }
