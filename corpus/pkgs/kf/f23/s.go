// Package f23: F-23 witness.  The package imported here is named pgdriver but its directory is
// pg-driver, and the import has no explicit name.  `moq -fmt goimports`, run from a working
// directory from which goimports cannot look the package up, drops the import.
package f23

import "example.com/m/kf/f23/pg-driver"

// I is mocked.
type I interface {
	Open(dsn string) (*pgdriver.Conn, error)
}
