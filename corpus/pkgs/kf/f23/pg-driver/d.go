// Package pgdriver lives in a directory whose name is not the package name.
package pgdriver

// Conn is a connection.
type Conn struct{ N int }
