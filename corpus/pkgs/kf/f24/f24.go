package f24

import "example.com/m/kf/f24/hub"

// I is hub.H.
type I = hub.H
