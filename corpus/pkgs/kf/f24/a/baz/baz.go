package baz

// T is a plain struct.
type T struct{ X int }
