package hub

import (
	p0 "example.com/m/kf/f24/a/baz"
	p1 "example.com/m/kf/f24/b/baz"
)

// H is declared here so that moq meets the two packages called baz without source aliases.
type H interface {
	// First is analysed while a/baz is still imported as baz; its parameter is spelled like the
	// alias that the conflict with b/baz (met in Second) gives a/baz afterwards.
	First(abaz map[string]p0.T)
	Second(x p1.T)
}
