package f14

// Nil, Append, Error are types whose de-capitalised names are predeclared identifiers.
type Nil struct{}
type Append struct{}
type Error struct{}

// I has unnamed parameters of those types.
type I interface {
	A(Nil) error
	B(Append)
	C(Error, error) error
}
