package f16

// I has a method named like another method's accessor.
type I interface {
	Get() int
	GetCalls() int
}
