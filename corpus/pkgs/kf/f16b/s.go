// Package f16b: F-16b witness.  With -with-resets the reset function of GetCalls and the accessor
// of ResetGetCalls are both called ResetGetCallsCalls.
package f16b

// I is mocked.
type I interface {
	GetCalls(n int) string
	ResetGetCalls()
}
