package hub

import (
	p0 "os"
	p1 "example.com/m/z/os"
	p2 "example.com/m/lib/foo"
)

// H0 is declared here so that moq sees the packages without aliases.
type H0 interface {
	MF0(zos p2.T)
	MC1(libfoo *p0.File, foo ...p0.Signal) p0.Signal
}

// H1 is declared here so that moq sees the packages without aliases.
type H1 interface {
	MD2(p0.Signal, ...chan p2.T) (p0.FileMode, error)
	MA3(chan p1.I, ...map[string]p2.T)
}

// H2 is declared here so that moq sees the packages without aliases.
type H2 interface {
	ME4(s []p1.A) (*p0.File, error)
	MB5(s p2.I, os []p1.T, Upper2 ...p1.T) *p2.N
	MF6(URL p0.Signal, foo p2.N, n ...p0.FileMode) func(p2.N) error
}

var _ p0.FileMode
var _ []p1.F
var _ func(p2.T) error
