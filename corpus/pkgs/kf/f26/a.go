package f26

import (
	foo "example.com/m/z/os"
	"example.com/m/kf/f26/hub"
)

var _ *foo.T
// R0 embeds hub.H0 and adds a method.
type R0 interface {
	hub.H0
	Own0(libfoo int) string
}

// R1 is hub.H1.
type R1 = hub.H1

// R2 embeds hub.H2.
type R2 interface{ hub.H2 }

