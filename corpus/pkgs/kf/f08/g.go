package f08

import "example.com/m/kf/f08/cons"

// I has a union over an imported named type.
type I[T interface{ int | cons.N }] interface{ M(T) }
