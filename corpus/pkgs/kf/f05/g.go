package f05

// I is constrained by comparable.
type I[T comparable] interface{ M(T) }
