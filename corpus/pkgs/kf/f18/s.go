package f18

import "example.com/m/kf/f18/s1"

// I makes resolveVarNameConflict dereference nil.
type I interface{ M(string, string, s1.T, string) }
