package f13

// T is local.
type T struct{}

// I has capturing parameter names.
type I interface {
	A(string string) string
	B(T T) T
	C(mock int)
	D(nil int)
	E(append int)
	F(panic int)
	G(callInfo int)
}
