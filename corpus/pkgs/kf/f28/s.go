// Package f28: witness of F-28.  The names moq derives for unnamed parameters (v, s, n, ...) are
// checked against imports and against each other, never against the type parameters of the
// interface: a type parameter spelled like a derived name is captured by the parameter.
package f28

// I: `M(v v) error` - "v redeclared in this block".
type I[v any] interface {
	M(v) error
}
