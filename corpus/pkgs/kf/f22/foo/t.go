package foo

// T is a type.
type T int
