package f22

import (
	"example.com/m/kf/f22/foo"
	"example.com/m/kf/f22/foomp"
)

// I has parameters spelled like both packages; the retro-active renames then depend on the
// order in which Go iterates over the variable's import map.
type I interface {
	M(foo int, fooMoqParam int, x map[foo.T]fooMoqParam.T)
}
