package fooMoqParam

// T is a type.
type T struct{}
