package f17

import "io"

// V is a variable of interface type.
var V io.Reader
