package src

import "example.com/m/kf/f20/sync"

// I uses a package called sync.
type I interface{ M(sync.T) }
