package hub

import (
	"example.com/m/kf/f01/x/foo"
	gofoo "example.com/m/kf/f01/x/go-foo"
)

// E mentions both.
type E interface {
	A(foo.T)
	B(gofoo.T)
}
