package f04

// I has a lower-case type parameter.
type I[t any] interface{ M(x t) t }
