package f27

import "example.com/m/z/ctx"

// I mentions package ctx; the mock is requested under the name ctx (moq . I:ctx).
type I interface {
	Do(c ctx.T) error
}
