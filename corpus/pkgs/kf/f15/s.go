package f15

// I has parameters whose exported forms coincide.
type I interface{ M(id int, ID int) }
