package f21

import "example.com/m/kf/f21/mock"

// I uses a package called mock.
type I interface{ M(x mock.T) }
