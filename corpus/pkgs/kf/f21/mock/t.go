package mock

// T is a type.
type T struct{}

// N is a named int.
type N int
