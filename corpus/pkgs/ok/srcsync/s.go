// Package sync: a source package named like the standard package every mock with a method imports.
// Generated into another package, the self-check line and every source-package type must be
// qualified through the (renamed) import of this package.
package sync

// Item is a type of the source package.
type Item struct{ N int }

// Syncer is mocked.
type Syncer interface {
	Sync(i Item) error
	Name() string
}
