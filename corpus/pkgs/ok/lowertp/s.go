// Package lowertp: generic interfaces whose type parameters are spelled in lower case and
// whose methods take unnamed parameters of those types (round-5 change C09e named such a
// parameter after its type parameter).
package lowertp

type Codec[in, out any] interface {
	Encode(in) (out, error)
	Decode(*out) error
	Both(in, out, in)
}

type Conv[from, to any] interface {
	Conv(from) to
	Many(...from) []to
	Table() map[string]to
}
