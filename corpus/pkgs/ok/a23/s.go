// Package a23: as kf/f23 but the source spells the package name out in the import.  moq keeps
// the name, goimports needs no lookup, and C16 holds from any working directory.
package a23

import pgdriver "example.com/m/ok/a23/pg-driver"

// I is mocked.
type I interface {
	Open(dsn string) (*pgdriver.Conn, error)
}
