#!/usr/bin/env python3
"""Regenerates MANIFEST.json from the property list and vlib/props.py (claimed = has a Props module)."""
import json, os, sys
sys.path.insert(0, os.path.dirname(os.path.abspath(__file__)))
from vlib import props, build
P = [json.loads(l) for l in open('properties.jsonl')]
TEXT = {
 "C01": "WellScoped/namesOK/importsOK theorems over the model of moq's naming core (under explicit WF predicates) + byte-exact correspondence of the model with the real moq + go/types type-check of every in-WF real output in its destination",
 "C02": "theorems: one generated method and one MFunc field per interface method with the same rendered parameter/result list; qualifier round-trip; tie by correspondence; search: go/types method-set identity",
 "C03": "theorem c03_delegates over the sequential semantics of the generated IR (all arities, variadic, stub modes, arbitrary user code); tie: bridge theorem (for all data the regenerated template prints printFile (genFile d), whose method bodies are genBody) + byte comparison with the real moq + compiled mocks vs model traces",
 "C04": "theorem c04_all_histories: every history (calls, reads, resets, re-entrant callbacks) refines the list model, snapshots exact and stable (slice-header/backing-array heap with Go append)",
 "C05": "interleaving semantics theorems (mutual exclusion, race freedom, atomic log) over the generated lock protocol; search: compiled mocks under the race detector",
 "C06": "no lock is held at invoke (sequential: c03 entry state; concurrent: invariant of the interleaving semantics); search: re-entrant and blocked callbacks under a watchdog",
 "C07": "theorems c07_default_panics / c07_stub_zero over the IR semantics, message built from the regenerated template; compiled mocks with nil function fields",
 "C08": "theorems: reset functions generated iff -with-resets, ResetMCalls clears exactly M, ResetCalls clears all, recording restarts from empty",
 "C09": "theorems on type-parameter lists and the self-check line under WF.generic/WF.ensure; witnesses outside; search: go/types instantiation",
 "C10": "theorems on destination decision (findPkgPath model) and qualification; correspondence; search: type-check in the intended destination",
 "C11": "theorems: every imported path was requested (nothing else), imports sorted, once, no dot/blank, vendor stripping; frame of resolveImportConflict for every returning call (aliases only, each a unique name of its own path: every qualifier valid, for all runs); unique qualifiers for conflict-free and shallow conflicts (partial for cascades: reflected checker per input); correspondence (slow + in-memory fast stage) + go/types resolution of every qualifier",
 "C12": "one step of AddVar keeps the names of a scope pairwise distinct under two explicit decidable side conditions (c12_step_distinct, with a witness that the second cannot be dropped), reflected checker namesOK (sound) evaluated on every generated input, go/types on the real output",
 "C13": "theorem c13_exported_spec (closed form of Exported over the regenerated initialism table), varNameForType rule, reserved list coverage",
 "C14": "theorem: model output independent of the map-iteration oracle under uniqueness; regenerated fact: no time/rand/env reads; repeated real generations byte-compared",
 "C15": "theorems c15_rm_independent / c15_remove_before_load about the regenerated main.run (run_eq_spec); CLI regenerations byte-compared over prior -out contents; fixed point decided on every in-place job of the fast stage (output added to the package in memory, regenerated, byte-compared)",
 "C16": "theorems on the regenerated format dispatch and template header; formatter laws as explicit hypotheses checked dynamically on every output",
 "C17": "theorems c17_fail / c17_ok about the regenerated main.run for all flags, file systems, library behaviours and fault plans; c17_mock_shape decided on the regenerated Mocker.Mock; CLI fault enumeration",
 "C18": "theorem c18_only_out about the regenerated main.run + regenerated list of all os/exec/syscall references; tree snapshots around every CLI scenario",
 "C19": "totality of the model (fuel/Option, nothing defaulted), diagnostics read off the regenerated functions, safe slicing; resolveImportConflict and AddImport terminate within D+2 nested calls for every registry of separated packages (c19_resolver_terminates, decidable sepB) with a divergence witness outside; CLI under a watchdog; real panics/hangs asserted wherever the model predicts a normal return",
 "C20": "theorems: one mock per argument in order with the requested name; search: joint vs solo generation compared as go/types",
}
claimed = []
for p in P:
    mod = props.PROPS[p['id']]['module']
    if os.path.exists(os.path.join('lean', *mod.split('.')) + '.lean'):
        claimed.append(p['id'])
checks = []
for p in P:
    if p['id'] not in claimed:
        continue
    pid = p['id']
    checks.append({
        "property_id": pid,
        "quick_cmd": "./check %s --tier quick" % pid,
        "thorough_cmd": "./check %s --tier thorough" % pid,
        "evidence_file": "/verif/evidence/%s.json" % pid,
        "replay_cmd_template": "./check %s --replay {path}" % pid,
        "engine": "lean-model+correspondence",
        "level_claimed": {"category": "proof", "text": TEXT[pid], "design_ref": "DESIGN.md section 6, " + pid},
        "level_note": "Trusted: Lean kernel + propext/Classical.choice/Quot.sound; extract/ translator; harness; " + "; ".join(props.PROPS[pid]['trust'] or ["no further assumption"]),
        "technique": "Lean 4 machine-checked proof over an executable model, tied to the source by regenerated facts and differential correspondence",
    })
m = {
    "version": 1,
    "setup_cmd": "./setup.sh",
    "hooks": {"guard": "verif", "enable": "nothing is committed to or written into /repo: two hook files kept under /verif/harness/overlay (build tag verif) are added to the build of the harness with `go build -tags verif -overlay <json>` (VerifMocker / VerifSynthetic: the real moq generating from a source package loaded in memory); the plain harness and the CLI are built from /repo untouched",
              "baseline_off_cmd": "for m in . pkg/moq/testpackages pkg/moq/testpackages/buildconstraints pkg/moq/testpackages/modules pkg/moq/testpackages/vendoring; do (cd /repo/$m && GOFLAGS=-mod=mod go test -vet=off -count=1 ./...); done",
              "source_commits": [], "add_only": True},
    "engines": [{"name": "lean-model+correspondence", "path": "/verif/check", "serves_properties": claimed,
                 "kind_free_text": "Lean 4 model + theorems (lake build, #print axioms audit); Go extractor regenerating tables, template and glue IR from /repo; Go harness + Python stages (corr, rt, cli) running the real moq against the model and the oracles"}],
    "checks": checks,
    "notes": "All checks share cached stages keyed by the content hash of /repo's working tree and of the machinery; see DESIGN.md section 5.",
    "not_applicable": [{"property_id": p['id'], "reason": "check under construction: model and correspondence exist, theorems not yet written"} for p in P if p['id'] not in claimed],
}
json.dump(m, open('MANIFEST.json', 'w'), indent=1)
print("claimed", claimed)
