#!/bin/sh
# Build the framework from files on disk only (offline): Lean model + proofs + driver,
# extractor, harness and the moq CLI from /repo's current tree.
set -e
cd "$(dirname "$0")"
export GOFLAGS=-mod=mod GOPROXY=off
python3 - <<'PY'
import sys
sys.path.insert(0, '.')
from vlib import build
cdir, info = build.ensure_built(log=print)
bad = [m for m, ok in info.get('modules', {}).items() if ok is not True and ok != 'missing']
print('setup: cache', cdir, 'lean failures:', info.get('lean_fail'), 'module failures:', bad, 'go:', info.get('go_fail'))
PY
