"""Correspondence stage: generated + corpus inputs through the real moq, the Lean driver and
the Go-side oracles; produces one record per job."""
import json, os, random, re, shutil, subprocess, tempfile, time, collections
from . import pool, gen, build

TIERS = {
    "quick": dict(n=110, nadv=30, cfgs=3, reps_every=3, outside=14, fast_n=1500, fast_nadv=150, fast_cfgs=3),
    "thorough": dict(n=1400, nadv=300, cfgs=4, reps_every=2, outside=80, fast_n=20000, fast_nadv=2000, fast_cfgs=4),
}


def copy_corpus(root):
    """Corpus: hand-written witness packages under /verif/corpus/pkgs (a tree merged into the
    scratch module) and jobs in /verif/corpus/jobs.json."""
    cdir = os.path.join(build.VERIF, "corpus")
    jobs = []
    if os.path.isdir(os.path.join(cdir, "pkgs")):
        shutil.copytree(os.path.join(cdir, "pkgs"), root, dirs_exist_ok=True)
    jobs += copy_suite(root)
    jf = os.path.join(cdir, "jobs.json")
    if os.path.exists(jf):
        kf = {}
        kp = os.path.join(build.VERIF, "known_findings.json")
        if os.path.exists(kp):
            for f in json.load(open(kp)).get("findings", []):
                w = f["witness"]
                kf.setdefault((w["dir"], tuple(w["args"]), w.get("pkg", "")), {})[f["property"]] = {
                    "signature": f["signature"], "what": f["what"], "id": f["id"]}
        for j in json.load(open(jf)):
            j = dict(j)
            j["corpus"] = True
            e = kf.get((j["dir"], tuple(j["args"]), j.get("pkg", "")))
            if e:
                j["expect"] = e
            jobs.append(j)
    return jobs


SUITE = [("variadic", ["Echoer"], {}), ("blankid", ["Swallower"], {}), ("channels", ["Queuer"], {"stub": True}),
         ("shadow/http", ["Thing"], {"pkg": "mock"}), ("shadow", ["Shadower"], {}), ("importalias", ["MiddleMan"], {}),
         ("paramconflict", ["Interface"], {}), ("genparamname", ["Interface"], {}), ("syncimport", ["Syncer"], {}),
         ("anonimport", ["Example"], {}), ("shadowtypes", ["ShadowTypes"], {}),
         ("generics", ["GenericStore1", "GenericStore2", "AliasStore"], {}), ("genericreturn", ["IFooBar"], {}),
         ("transientimport", ["Transient"], {}), ("withresets", ["ResetStore", "ResetStoreGeneric"], {"resets": True}),
         ("rangenum", ["Magician"], {}), ("typealias", ["Example"], {}), ("imports/two", ["DoSomething"], {}),
         ("example", ["PersonStore"], {}), ("example", ["PersonStore"], {"pkg": "different", "skip": True}),
         ("emptyinterface", ["Empty"], {}), ("samenameimport", ["Example"], {}), ("typealiastwo", ["AliasType"], {})]


def copy_suite(root):
    """The inputs of moq's own golden tests, copied into the scratch module (import paths
    rewritten); they must be inside WF and hold every property: non-vacuity of the hypotheses."""
    src = os.path.join(build.REPO, "pkg", "moq", "testpackages")
    dst = os.path.join(root, "tp")
    jobs = []
    if not os.path.isdir(src):
        return jobs
    old = "github.com/matryer/moq/pkg/moq/testpackages"
    for d, dirs, files in os.walk(src):
        rel = os.path.relpath(d, src)
        dirs[:] = [x for x in dirs if x not in ("vendor", "vendoring", "buildconstraints", "modules", "gogenvendoring",
                                                "_parseerror", "dotimport")]
        for f in files:
            if not f.endswith(".go") or "golden" in f or f.endswith("_test.go") or f == "user_moq_test.go":
                continue
            text = open(os.path.join(d, f), errors="replace").read().replace(old, gen.MOD + "/tp")
            p = os.path.join(dst, rel, f)
            os.makedirs(os.path.dirname(p), exist_ok=True)
            open(p, "w").write(text)
    for d, ifs, kw in SUITE:
        if os.path.isdir(os.path.join(dst, d)):
            j = {"dir": "tp/" + d, "args": ifs, "corpus": True, "suite": True}
            j.update(kw)
            jobs.append(j)
    return jobs


def export_list(root):
    rc, o, e = build.sh(["go", "list", "-export", "-deps", "-e", "-f",
                         "{{if .Export}}{{.ImportPath}}={{.Export}}{{end}}", "./..."], cwd=root)
    p = os.path.join(root, "exports.txt")
    open(p, "w").write(o)
    return p


def run_corr(cdir, seed, tier, log=print):
    outp = os.path.join(cdir, "corr-%d-%s.json" % (seed, tier))
    with build.Lock("lock-corr"):
        if os.path.exists(outp):
            return json.load(open(outp))
        t0 = time.time()
        T = TIERS[tier]
        root = tempfile.mkdtemp(prefix="moqverif-corr-")
        try:
            res = _run(cdir, seed, tier, T, root, log)
        finally:
            shutil.rmtree(root, ignore_errors=True)
        res["wall_s"] = round(time.time() - t0, 1)
        json.dump(res, open(outp, "w"))
        return res


def job_key(j):
    return {k: j.get(k) for k in ("dir", "pkg", "stub", "skip", "resets", "args")}


def _run(cdir, seed, tier, T, root, log):
    rnd = random.Random(seed)
    gen.write_library(root)
    jobs = copy_corpus(root)
    for j in jobs:
        j.setdefault("id", "corpus/" + j["dir"] + "#" + ",".join(j["args"]) + "#" + j.get("pkg", ""))
    cases = gen.make_cases(rnd, root, T["n"], adversarial=False, prefix="src", conflict_share=0.15)
    cases += gen.make_cases(rnd, root, T["nadv"], adversarial=True, prefix="adv", conflict_share=0.15)
    nout = 0
    for c in cases:
        for k, cfg in enumerate(gen.configs_for(rnd, c, T["cfgs"])):
            cfg["id"] = "%s#%d" % (c["dir"], k)
            cfg["adv"] = c["adv"]
            cfg["ordsens"] = bool(c.get("ordsens"))
            if k == 0 and c.get("named") and not c["adv"] and nout < T["outside"]:
                cfg["outside"] = True   # also generated from a working directory outside the module (C16)
                nout += 1
            jobs.append(cfg)
    harness, driver = os.path.join(cdir, "harness"), os.path.join(cdir, "driver")
    env = dict(pool.GOENV, VERIF_EXPORTS=export_list(root))
    # facts -> model
    fres = pool.run_jobs(harness, root, [{"job": j, "fmts": [], "facts": True} for j in jobs], env=env)
    cases_s = [r["case"] for r in fres if r and r.get("case")]
    model = pool.run_driver(driver, cases_s) if os.path.exists(driver) else {}
    # real runs + oracles
    outside = tempfile.mkdtemp(prefix="moqverif-outside-")
    reqs = []
    for i, j in enumerate(jobs):
        reqs.append({"job": j, "fmts": ["noop", "", "goimports"], "oracle": True,
                     # inputs on which the order of registration can matter (files disagreeing about
                     # import names) are regenerated many times: Go's map order is the only lever (the
                     # known order-dependent witness F-22 shows its second output in about one run of 8)
                     "reps": (64 if (j.get("expect") or {}).get("C14") else 8) if j.get("corpus") else 40 if j.get("ordsens") else (3 if i % T["reps_every"] == 0 else 0),
                     "outside": outside if j.get("outside") else ""})
    try:
        rres = pool.run_jobs(harness, root, reqs, env=env, timeout=120)
    finally:
        shutil.rmtree(outside, ignore_errors=True)
    records = make_records(jobs, fres, rres, model)
    # save package sources for records that may be reported
    keep = {}
    for rec in records:
        if suspicious(rec):
            d = rec["_files"]
            if d not in keep:
                keep[d] = read_tree(os.path.join(root, d))
    dist = distribution(records)
    out = {"seed": seed, "tier": tier, "records": records, "sources": keep, "distribution": dist,
           "driver_error": model.get("__driver_error__")}
    # fast stage: the same comparison and oracles on many more inputs, loaded in memory
    try:
        fast = _run_fast(cdir, seed, T, log)
    except Exception as ex:   # never let the amplifier break the designated tie
        fast = {"skipped": "fast stage failed: %r" % (ex,)}
    out["fast"] = {k: v for k, v in fast.items() if k not in ("records", "sources")}
    if fast.get("records"):
        out["records"] += fast["records"]
        out["sources"].update(fast.get("sources") or {})
        out["driver_error"] = out["driver_error"] or fast.get("driver_error")
    return out


def make_records(jobs, fres, rres, model):
    records = []
    for j, f, r in zip(jobs, fres, rres):
        rec = {"id": j["id"], "job": job_key(j), "adv": bool(j.get("adv")), "corpus": bool(j.get("corpus")),
               "expect": j.get("expect")}
        if not f or f.get("load_err") or not f.get("case"):
            rec["load_err"] = (f or {}).get("load_err", "no facts")[:300]
        m = model.get(j["id"])
        rec["model"] = {k: v for k, v in (m or {}).items() if k not in ("noop", "gftext")} if m else None
        if r is None or "crash" in r:
            rec["crash"] = (r or {}).get("stderr", "")[:600] or (r or {}).get("why", "crash")
            rec["crash_kind"] = (r or {}).get("crash", "crash")
        else:
            runs = r["runs"]
            rec["real"] = {k: {"err": v.get("err", ""), "panic": v.get("panic", "")[:400], "len": len(v.get("out", ""))}
                           for k, v in runs.items()}
            rec["checks"] = {k: v[:500] for k, v in (r.get("checks") or {}).items() if v}
            noop = runs.get("noop", {})
            if m is not None:
                rec["bytes_eq"] = (m.get("noop") == noop.get("out")) if not (noop.get("err") or noop.get("panic")) else None
            # keep the material needed for a replay of anything suspicious
        rec["_files"] = j["dir"]
        records.append(rec)
    return records


def search_more(cdir, seed, judge, log=print, budget_s=240, rounds=8):
    """Called only when an obligation or the correspondence is already broken and the ordinary
    stream produced no failing input: more rounds of the fast stage (other seeds, more
    conflict-focused cases), until `judge(rec)` names a violation or the budget is used up."""
    t0 = time.time()
    tried = 0
    for k in range(1, rounds + 1):
        if time.time() - t0 > budget_s:
            break
        T = dict(fast_n=5000, fast_nadv=0, fast_cfgs=3)
        cf = os.path.join(cdir, "search-%d-%d.json" % (seed, k))
        try:
            with build.Lock("lock-search"):
                if os.path.exists(cf):
                    res = json.load(open(cf))
                else:
                    res = _run_fast(cdir, seed * 1000 + k, T, log, conflict_share=0.6, with_corpus=False)
                    n = len(res.get("records") or [])
                    # keep what a judge can object to: records with oracle diagnostics, crashes, panics
                    res["records"] = [r for r in res.get("records") or [] if r.get("checks") or r.get("crash") or
                                      any(v.get("panic") or v.get("err") for v in (r.get("real") or {}).values())]
                    res["n_inputs"] = n
                    json.dump(res, open(cf, "w"))
        except Exception as ex:
            return None, None, {"error": repr(ex)}
        tried += res.get("n_inputs", 0)
        for rec in res.get("records") or []:
            v = judge(rec)
            if v:
                return rec, res, {"rounds": k, "inputs": tried, "s": round(time.time() - t0, 1), "what": v}
    return None, None, {"rounds": rounds, "inputs": tried, "s": round(time.time() - t0, 1)}


FASTBASE = """package fastbase

import (
%s)

// I is what the base Mocker of the fast mode is created from.
type I interface{ M() }
"""


def _run_fast(cdir, seed, T, log, conflict_share=0.4, with_corpus=True):
    """Fast stage.  The harness built with the overlay hooks parses and type-checks the source
    package in-process and hands it to the real moq (hook VerifMocker): no `go list`, a few
    milliseconds per job.  Same facts -> Lean driver -> byte comparison, same oracles (without
    goimports, which needs the packages on the go command's search path)."""
    harness, driver = os.path.join(cdir, "harnessf"), os.path.join(cdir, "driver")
    if not (os.path.exists(harness) and os.path.exists(driver)):
        return {"skipped": "harness with overlay hooks not built"}
    t0 = time.time()
    root = tempfile.mkdtemp(prefix="moqverif-fast-")
    try:
        rnd = random.Random(seed * 7919 + 101)
        gen.write_library(root)
        os.makedirs(os.path.join(root, "fastbase"))
        open(os.path.join(root, "fastbase", "b.go"), "w").write(
            FASTBASE % "".join('\t_ "%s"\n' % p for p, _ in gen.STD))
        env = dict(pool.GOENV, VERIF_EXPORTS=export_list(root))   # library + std only: before the cases are written
        cases = gen.make_cases(rnd, root, T["fast_n"], adversarial=False, prefix="fsrc", conflict_share=conflict_share)
        cases += gen.make_cases(rnd, root, T["fast_nadv"], adversarial=True, prefix="fadv", conflict_share=conflict_share)
        jobs = []
        for c in cases:
            for k, cfg in enumerate(gen.configs_for(rnd, c, T["fast_cfgs"])):
                cfg["id"] = "fast/%s#%d" % (c["dir"], k)
                cfg["adv"] = c["adv"]
                cfg["conflict"] = bool(c.get("conflict")) or bool(c.get("ordsens"))
                jobs.append(cfg)
        # the corpus once more, for the oracles only this stage has (the fixed point of C15)
        for j in (copy_corpus(root) if with_corpus else []):
            j = dict(j)
            j["id"] = "fast/corpus/" + j["dir"] + "#" + ",".join(j["args"]) + "#" + j.get("pkg", "")
            jobs.append(j)
        fastcfg = {"Root": root, "Mod": gen.MOD, "Base": os.path.join(root, "fastbase")}
        reqs = [{"job": j, "fmts": ["noop", ""], "facts": True, "oracle": True, # where several same-named packages meet, Go's map order can matter: more repetitions (C14)
                 "reps": 8 if j.get("conflict") else (2 if i % 5 == 0 else 0),
                 "fast": dict(fastcfg, CheckFind=(i % 97 == 0))} for i, j in enumerate(jobs)]
        rres = pool.run_jobs(harness, root, reqs, env=env, timeout=120)
        # C14 across processes: a sample of the jobs is generated once more by *other* worker
        # processes (fresh pool, rotated assignment); the bytes must be the same
        sample = [i for i, j in enumerate(jobs) if (j.get("conflict") and i % 3 == 0) or i % 23 == 0]
        again = pool.run_jobs(harness, root, [{"job": jobs[i], "fmts": ["noop"], "facts": False, "oracle": False,
                                               "fast": dict(fastcfg, CheckFind=False)} for i in reversed(sample)],
                              env=env, timeout=120)
        for i, r2 in zip(reversed(sample), again):
            r1 = rres[i]
            if not r1 or not r2 or "crash" in r1 or "crash" in r2:
                continue
            a, b = (r1.get("runs") or {}).get("noop", {}), (r2.get("runs") or {}).get("noop", {})
            if a.get("panic") or b.get("panic"):
                continue
            if a.get("out") != b.get("out") or a.get("err") != b.get("err"):
                r1.setdefault("checks", {})
                if not r1["checks"].get("C14"):
                    r1["checks"]["C14"] = ("another process generates different bytes for the same command (len %d vs %d, err %r vs %r)"
                                           % (len(a.get("out", "")), len(b.get("out", "")), a.get("err", ""), b.get("err", "")))
        t1 = time.time()
        cases_s = [r["case"] for r in rres if r and r.get("case")]
        model = pool.run_driver(driver, cases_s, nproc=16)
        t2 = time.time()
        records = make_records(jobs, rres, rres, model)
        hook_bad = [r for r in rres if r and "hook-mismatch" in json.dumps(r.get("runs", {}))[:2000]]
        if hook_bad:
            return {"skipped": "overlay hooks do not fit this tree: " + json.dumps(hook_bad[0].get("runs"))[:300]}
        keep = {}
        for rec in records:
            rec["fast"] = True
        # sources for a replay: first what can become a violation (inside WF) or a disagreement
        for important in (True, False):
            for rec in records:
                imp = (wf(rec) and bool(rec.get("checks"))) or rec.get("bytes_eq") is False or bool(rec.get("crash"))
                if suspicious(rec) and imp == important and len(keep) < (400 if important else 60):
                    d = rec["_files"]
                    if d not in keep:
                        keep[d] = read_tree(os.path.join(root, d))
        return {"records": records, "sources": keep, "jobs": len(jobs), "real_s": round(t1 - t0, 1),
                "model_s": round(t2 - t1, 1), "distribution": distribution(records),
                "driver_error": model.get("__driver_error__")}
    finally:
        shutil.rmtree(root, ignore_errors=True)


def read_tree(d):
    out = {}
    for dp, _, files in os.walk(d):
        for f in files:
            p = os.path.join(dp, f)
            try:
                out[os.path.relpath(p, os.path.dirname(d))] = open(p).read()
            except Exception:
                pass
    return out


def wf(rec):
    """The inputs on which the properties are asserted of the real moq: the static clauses the
    reflected checkers do not see (WF.core) and the model's own output passing the reflected
    checkers importsOK / namesOK (wf.dyn; exact where the static WF.importsSep / clause 8 of
    WF.names over-approximate)."""
    m = rec.get("model") or {}
    if "wf.dyn" in m:
        return m.get("wf.dyn") == "true"
    return m.get("wf") == "true"


def model_says_terminates(rec):
    """C19 is about every loadable package: it is asserted wherever the model of the pristine
    naming core predicts a normal return (output or an ordinary error), inside WF or not."""
    m = rec.get("model")
    return bool(m) and not (m.get("err") or "").startswith("<")


def asserted(rec, diag):
    """Is `diag` (an oracle diagnostic on this record) asserted?  Diagnostics about the *solo*
    generation of one argument concern another input: they are asserted where the static WF holds
    (it is monotone under dropping arguments; the per-input wf.dyn of the joint job is not)."""
    if not wf(rec):
        return False
    m = rec.get("model") or {}
    if diag.startswith("with the single argument") or diag.startswith("solo generation of"):
        return m.get("wf") == "true"
    if "does not reproduce itself" in diag or "own output in the package fails" in diag:
        # C15's fixed point: the second run harvests the first output's import names; asserted where
        # the model of the pristine naming core, run a second time with those names harvested,
        # reproduces its own first output (it does not on the F-26 class)
        return m.get("fixpoint", m.get("quals.stable", "true")) == "true"
    if "in the interface is generated as" in diag:
        # C13 "kept verbatim whenever it collides with nothing": judged against the final import
        # block, which is what the name met only if no import was re-aliased during the run
        return m.get("quals.stable", "true") == "true"
    return True


def suspicious(rec):
    if rec.get("crash") or rec.get("checks"):
        return True
    if rec.get("bytes_eq") is False:
        return True
    m = rec.get("model") or {}
    if m.get("gf") not in (None, "eq", "eq-code"):
        return True
    real = rec.get("real") or {}
    for v in real.values():
        if v.get("panic") or v.get("err"):
            return True
    return False


def distribution(records):
    c = collections.Counter()
    for r in records:
        m = r.get("model") or {}
        c["jobs"] += 1
        c["wf" if wf(r) else "not_wf"] += 1
        if m.get("wf") == "true":
            c["wf.static"] += 1
        for k in ("base", "imports", "names", "generic", "ensure", "dest"):
            if m.get("wf." + k) == "true":
                c["wf." + k] += 1
        if r.get("load_err"):
            c["load_err"] += 1
        if r.get("crash"):
            c["crash"] += 1
        j = r["job"]
        c["pkg:" + ("" if not j.get("pkg") else "same" if j["pkg"] == j["dir"] else "test" if j["pkg"].endswith("_test") else "other")] += 1
        for k in ("stub", "skip", "resets"):
            if j.get(k):
                c["flag:" + k] += 1
        c["args:%d" % min(len(j.get("args", [])), 4)] += 1
        if "goimports@outside" in (r.get("real") or {}):
            c["outside_cwd_runs"] += 1
            if (r.get("checks") or {}).get("C16-outside-F23"):
                c["outside_cwd_f23_class"] += 1
        if m.get("gf") == "eq-code":
            c["structured_model_equal_up_to_comments_and_layout"] += 1
        if m.get("orddep") == "true":
            c["model_order_dependent"] += 1
        if (m.get("err") or "").startswith("<"):
            c["model_predicts_crash"] += 1
    return dict(c)
