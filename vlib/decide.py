"""Decision procedure of ./check: proofs + correspondence + oracles -> exit status, evidence."""
import json, os, re, sys, time, shutil
from . import build, corr, props

VERIF = build.VERIF


def load_known():
    p = os.path.join(VERIF, "known_findings.json")
    if os.path.exists(p):
        return json.load(open(p))
    return {"findings": [], "fixed": []}


def theorems_of(prop):
    p = os.path.join(build.LEAN, *props.PROPS[prop]["module"].split(".")) + ".lean"
    if not os.path.exists(p):
        return []
    text = open(p).read()
    text = re.sub(r"/-.*?-/", "", text, flags=re.S)
    return re.findall(r"^theorem\s+([\w.']+)", text, flags=re.M)


# ---------------------------------------------------------------------------------------
# per-record judgement

C12_PAT = re.compile(r"redeclared|duplicate (argument|field)|is not a type|not a package|declared and not used|"
                     r"no new variables|other declaration of|\.\w+ undefined \(type")
ALLOWED_ERR = re.compile(r"^(interface not found: |.* is not an interface$|go/format: |goimports: |"
                         r"couldn't load source package: |must specify one interface)")


def record_violation(prop, rec):
    """Diagnostic string when the *real moq* breaks `prop` on this record, else ''."""
    checks = rec.get("checks") or {}
    real = rec.get("real") or {}
    if prop == "C19":
        if rec.get("crash"):
            return "moq does not terminate normally: " + rec["crash"].splitlines()[0:3].__str__()
        for k, v in real.items():
            if v.get("panic"):
                return "Go runtime panic: " + v["panic"].splitlines()[0]
            if v.get("err") and not ALLOWED_ERR.match(v["err"]):
                return "error does not name the offending type or stage: " + v["err"][:200]
        return ""
    if rec.get("crash") or any(v.get("panic") for v in real.values()):
        return ""  # attributed to C19
    d = real.get("", {})
    if prop == "C01":
        if d.get("err", "").startswith("go/format"):
            return "moq rejects its own output: " + d["err"][:300]
        return checks.get("C01", "")
    if prop in ("C02", "C05", "C07", "C08", "C09", "C10", "C11", "C12", "C13", "C14", "C15", "C16", "C17", "C20", "C04"):
        return checks.get(prop, "")
    return ""


def record_disagreement(prop, rec):
    """Model and implementation differ on something `prop` reads."""
    m = rec.get("model")
    if m is None:
        return "" if rec.get("load_err") else "no model output"
    real = rec.get("real") or {}
    noop = real.get("noop", {})
    if rec.get("crash"):
        if m.get("err") == "<stack overflow>" and "stack overflow" in rec["crash"]:
            return ""
        return "real moq crashed, model predicts: %s" % (m.get("err") or "output")
    if noop.get("panic"):
        if (m.get("err") or "").startswith("<"):
            return ""
        return "real moq panicked, model predicts: %s" % (m.get("err") or "output")
    if noop.get("err"):
        if m.get("err") == noop["err"]:
            return ""
        return "errors differ: real %r, model %r" % (noop["err"][:200], m.get("err"))
    if m.get("err"):
        return "model predicts error %r, real moq produced output" % m["err"]
    if m.get("orddep") == "true":
        return ""  # the model itself says the output depends on map iteration order here
    if rec.get("bytes_eq") is False:
        return "-fmt noop bytes differ between model and real moq"
    if m.get("gf") not in (None, "eq", "eq-code"):
        return "structured model (genFile/printFile) no longer matches the regenerated template"
    return ""


# ---------------------------------------------------------------------------------------

def write_replay(prop, tier, seed, rec, res, what, extra=None):
    d = os.path.join(VERIF, "replays", "%s-%s-%d-%s" % (prop, tier, seed, re.sub(r"[^\w]+", "_", rec["id"])))
    shutil.rmtree(d, ignore_errors=True)
    os.makedirs(d, exist_ok=True)
    src = (res.get("sources") or {}).get(rec.get("_files"), {})
    for rel, text in src.items():
        p = os.path.join(d, "module", rel)
        os.makedirs(os.path.dirname(p), exist_ok=True)
        open(p, "w").write(text)
    info = {"property": prop, "what": what, "job": rec["job"], "id": rec["id"], "model": rec.get("model"),
            "real": rec.get("real"), "checks": rec.get("checks"), "crash": rec.get("crash"),
            "how": "copy module/ into a scratch module (vlib.gen.write_library gives the helper packages) and run: "
                   "moq %s" % job_cmdline(rec["job"])}
    if extra:
        info.update(extra)
    json.dump(info, open(os.path.join(d, "replay.json"), "w"), indent=1)
    return d


def job_cmdline(j):
    a = []
    if j.get("pkg"):
        a += ["-pkg", j["pkg"]]
    for k, f in (("stub", "-stub"), ("skip", "-skip-ensure"), ("resets", "-with-resets")):
        if j.get(k):
            a.append(f)
    return " ".join(a + [j["dir"]] + list(j.get("args", [])))


def run_replay(prop, path):
    """./check <prop> --replay <dir>: the recorded input once more, against /repo's current tree:
    the package is put back into a scratch module with the helper library, the real moq (through
    `go list`, as a user would run it) and the model are run on it and the property's oracle
    decides.  Exit 1 + VIOLATION line while the input still fails, exit 0 once it does not."""
    import tempfile
    from . import gen, pool
    rj = os.path.join(path, "replay.json")
    if not (os.path.isdir(path) and os.path.exists(rj) and os.path.isdir(os.path.join(path, "module"))):
        return None     # not an input replay (an unproved.json, a CLI or runtime replay): run the check
    info = json.load(open(rj))
    job = dict(info.get("job") or {})
    if not job.get("dir"):
        return None
    cdir, binfo = build.ensure_built(log=lambda s: print("[check]", s))
    root = tempfile.mkdtemp(prefix="moqverif-replay-")
    try:
        gen.write_library(root)
        corr.copy_corpus(root)
        shutil.copytree(os.path.join(path, "module"), root, dirs_exist_ok=True)
        job["id"] = "replay"
        env = dict(pool.GOENV, VERIF_EXPORTS=corr.export_list(root))
        harness, driver = os.path.join(cdir, "harness"), os.path.join(cdir, "driver")
        f = pool.run_jobs(harness, root, [{"job": job, "fmts": [], "facts": True}], env=env)
        model = pool.run_driver(driver, [r["case"] for r in f if r and r.get("case")])
        r = pool.run_jobs(harness, root, [{"job": job, "fmts": ["noop", "", "goimports"], "oracle": True, "reps": 8}], env=env, timeout=180)
        rec = corr.make_records([job], f, r, model)[0]
        v = record_violation(prop, rec)
        dis = record_disagreement(prop, rec)
        print("[check] replay of %s: moq %s" % (path, job_cmdline(job)))
        if v:
            for kf in load_known().get("findings", []):
                w = kf["witness"]
                if kf["property"] == prop and w["dir"] == job.get("dir") and list(w["args"]) == list(job.get("args", [])) \
                        and w.get("pkg", "") == (job.get("pkg") or "") and re.search(kf["signature"], v):
                    print("KNOWN-FINDING: property=%s %s (%s: moq %s)" % (prop, kf["what"], kf["id"], job_cmdline(job)))
                    return 0
            print("[check] %s: %s" % (prop, v[:400]))
            print("VIOLATION property=%s replay=%s" % (prop, path))
            return 1
        if dis:
            print("[check] %s: model and real moq still differ on this input: %s" % (prop, dis[:300]))
            print("VIOLATION property=%s replay=%s no-failing-input-found" % (prop, path))
            return 1
        print("[check] %s: the recorded input no longer fails" % prop)
        return 0
    finally:
        shutil.rmtree(root, ignore_errors=True)


def main(argv):
    if not argv or argv[0] not in props.PROPS:
        print(__doc__)
        return 2
    prop = argv[0]
    tier = os.environ.get("VERIF_TIER", "quick")
    seed = int(os.environ.get("VERIF_SEED", "1") or 1)
    replay = None
    i = 1
    while i < len(argv):
        if argv[i] == "--tier":
            tier = argv[i + 1]; i += 2
        elif argv[i] == "--replay":
            replay = argv[i + 1]; i += 2
        else:
            i += 1
    if tier not in ("quick", "thorough"):
        tier = "quick"
    if replay:
        rc = run_replay(prop, replay)
        if rc is not None:
            return rc
    t0 = time.time()
    P = props.PROPS[prop]
    cdir, binfo = build.ensure_built(log=lambda s: print("[check]", s))

    out_lines = []
    violations = []      # (description, replay path, has_input)
    known_lines = []

    # ---- proof obligations ------------------------------------------------------------
    thms = theorems_of(prop)
    obligations = len(thms)
    broken_obl = []
    mod = P["module"]
    mod_ok = binfo.get("modules", {}).get(mod)
    if not thms:
        broken_obl.append("no theorem registered for %s" % prop)
    if mod_ok is not True:
        broken_obl.append("Lean module %s does not build: %s" % (mod, str(mod_ok)[:600]))
    axioms = binfo.get("axioms", {})
    discharged = 0
    def ax_of(t):
        for k, v in axioms.items():
            if k == t or k.endswith("." + t):
                return v
        return None
    for t in thms:
        ax = ax_of(t)
        if mod_ok is True and ax is not None and set(ax) <= build.ALLOWED_AXIOMS:
            discharged += 1
        elif mod_ok is True:
            broken_obl.append("theorem %s: axioms %s" % (t, ax))
    if binfo.get("forbidden"):
        broken_obl.append("forbidden construct in Lean sources: " + "; ".join(binfo["forbidden"][:3]))
    xf = props.extract_failures_for(prop, binfo.get("extract_fail") or [])
    if xf:
        broken_obl.append("extractor: " + "; ".join(xf[:3]))
    if binfo.get("go_fail"):
        broken_obl.append("go build: " + "; ".join(binfo["go_fail"][:2]))

    # ---- stages -----------------------------------------------------------------------
    coverage_extra = {}
    if prop in props.CORR_PROPS:
        b = binfo.get("bridge")
        coverage_extra["bridge_theorem"] = {
            "statement": "∀ d, renderNoop d = (genFile d).map printFile  (the regenerated template, interpreted, "
                         "prints what the structured model prints; Moq.bridge, Moq.bridge_file; Moq.bridge_bodies: every method body "
                         "of that file is genBody/genCallsBody/genResetBody, the Stmt lists of the C03-C08 theorems)",
            "proved_on_this_tree": b is True,
            "axioms": {t: ax_of(t) for t in ("bridge", "bridge_file", "bridge_bodies", "bridge_header")} if b is True else None,
            "if_not": None if b is True else ("soft obligation: %s; the per-input comparison gf=eq is the tie" % str(b)[:300])}
    samples = []
    disagreements = []
    n_programs = 0
    if "corr" in P["stages"] and not binfo.get("go_fail"):
        try:
            res = corr.run_corr(cdir, seed, tier, log=lambda s: print("[check]", s))
        except Exception as ex:
            import traceback
            broken_obl.append("stage corr of the machinery crashed on this tree: %r %s" % (ex, traceback.format_exc()[-400:]))
            res = {"records": [], "distribution": {}, "sources": {}}
        recs = res["records"]
        n_programs += len(recs)
        coverage_extra["corr_distribution"] = res["distribution"]
        coverage_extra["corr_wall_s"] = res.get("wall_s")
        asserted = 0
        for rec in recs:
            # C17 reads the corr stage for its writer oracle only: what the text says is not its business
            dis = "" if prop in ("C17", "C15") else record_disagreement(prop, rec)
            if dis:
                disagreements.append((rec, dis))
            v = record_violation(prop, rec)
            if prop == "C17" and (rec.get("model") or {}).get("orddep") == "true":
                # the writer oracle compares the bytes of several generations; on inputs whose output
                # depends on Go's map order (C14's subject, F-22) they differ for that reason alone
                v = ""
            expect = (rec.get("expect") or {}).get(prop)
            if rec.get("corpus") and rec.get("fast"):
                # the corpus is run through the fast harness for the oracle only that stage has
                if prop != "C15":
                    continue
                if not expect and not corr.asserted(rec, v or ""):
                    continue
            if rec.get("corpus"):
                asserted += 1
                if expect:
                    if v and re.search(expect["signature"], v + " " + (rec.get("crash") or "")):
                        known_lines.append("KNOWN-FINDING: property=%s %s (%s: moq %s)" % (
                            prop, expect["what"], expect.get("id", "?"), job_cmdline(rec["job"])))
                    elif v:
                        violations.append(("known witness fails differently: " + v,
                                           write_replay(prop, tier, seed, rec, res, v), True))
                elif v:
                    violations.append((v, write_replay(prop, tier, seed, rec, res, v), True))
            elif corr.wf(rec) or prop == "C17" or (prop == "C19" and corr.model_says_terminates(rec)):
                asserted += 1
                if v and (prop in ("C17", "C19") or corr.asserted(rec, v)):
                    violations.append((v, write_replay(prop, tier, seed, rec, res, v), True))
            if len(samples) < 3 and corr.wf(rec) and not rec.get("corpus"):
                samples.append({"moq": job_cmdline(rec["job"]), "wf": True,
                                "model_equals_real_bytes": rec.get("bytes_eq")})
        coverage_extra["asserted_inputs"] = asserted
        if res.get("driver_error"):
            broken_obl.append("Lean driver failed: " + str(res["driver_error"])[:300])
    # (rt and cli stages are added by their modules)
    for stage in P["stages"]:
        if stage in ("rt", "cli"):
            try:
                modname = {"rt": "rt", "cli": "cli"}[stage]
                m = __import__("vlib." + modname, fromlist=["run"])
            except ImportError:
                continue
            try:
                sres = m.run(cdir, seed, tier, prop, log=lambda s: print("[check]", s))
            except Exception as ex:     # the stage itself fell over on this tree: nothing it would have shown is shown
                import traceback
                broken_obl.append("stage %s of the machinery crashed on this tree: %r %s" % (stage, ex, traceback.format_exc()[-400:]))
                continue
            n_programs += sres.get("programs", 0)
            coverage_extra[stage] = sres.get("coverage", {})
            samples += sres.get("samples", [])[:2]
            for v in sres.get("violations", []):
                violations.append((v["what"], v["replay"], True))
            for kl in sres.get("known", []):
                known_lines.append(kl)
            for dgr in sres.get("disagreements", []):
                disagreements.append(({"id": dgr.get("id", stage)}, dgr["what"]))

    # ---- decide -----------------------------------------------------------------------
    rc = 0
    for kl in sorted(set(known_lines)):
        print(kl)
    search_info = None
    if not violations and (broken_obl or disagreements) and "corr" in P["stages"] and not binfo.get("go_fail") \
            and os.environ.get("VERIF_NO_EXTRA_SEARCH") != "1":
        # something is no longer shown: search harder for a concrete failing input before giving up
        def judge(rec):
            v = record_violation(prop, rec)
            if v and (prop == "C19" and corr.model_says_terminates(rec) or corr.asserted(rec, v)):
                return v
            return ""
        rec, sres, search_info = corr.search_more(cdir, seed, judge, log=lambda s: print("[check]", s))
        if rec is not None:
            violations.append((search_info["what"], write_replay(prop, tier, seed, rec, sres, search_info["what"],
                                                                  {"found_by": "extended search after a broken obligation/correspondence", "search": search_info}), True))
        coverage_extra["extended_search"] = search_info
    if violations:
        rc = 1
        seen = set()
        for what, path, _ in violations[:5]:
            if path in seen:
                continue
            seen.add(path)
            print("[check] %s: %s" % (prop, what[:400]))
            print("VIOLATION property=%s replay=%s" % (prop, path))
    elif broken_obl or disagreements:
        rc = 1
        d = os.path.join(VERIF, "replays")
        os.makedirs(d, exist_ok=True)
        path = os.path.join(d, "%s-%s-%d-unproved.json" % (prop, tier, seed))
        first = None
        if disagreements:
            rec, dis = disagreements[0]
            first = {"id": rec.get("id"), "job": rec.get("job"), "what": dis, "model": rec.get("model"),
                     "real": rec.get("real")}
        json.dump({"property": prop, "broken_obligations": broken_obl,
                   "correspondence_disagreements": len(disagreements), "first_disagreement": first,
                   "disagreeing_inputs": [{"id": r.get("id"), "what": d[:160], "asserted_domain": corr.wf(r) if r.get("model") else None}
                                          for r, d in disagreements[:25]],
                   "extended_search": search_info,
                   "note": "the property is no longer shown to hold; the search over the generated stream "
                           "and the corpus found no input on which the real moq violates it"},
                  open(path, "w"), indent=1)
        for b in broken_obl[:4]:
            print("[check] %s: broken obligation: %s" % (prop, b[:400]))
        if disagreements:
            print("[check] %s: %d correspondence disagreement(s), first: %s on %s" % (
                prop, len(disagreements), disagreements[0][1][:200], disagreements[0][0].get("id")))
        print("VIOLATION property=%s replay=%s no-failing-input-found" % (prop, path))

    # ---- evidence ---------------------------------------------------------------------
    ev = {
        "property_id": prop, "tier": tier, "seed": seed, "level": "proof",
        "coverage": dict({
            "obligations": max(obligations, 1), "discharged": discharged if not broken_obl else min(discharged, max(obligations - 1, 0)),
            "checker_cmd": "cd lean && lake build %s && lake env lean Audit.lean" % mod,
            "trusted_base": props.COMMON_TRUST + P["trust"],
            "theorems": thms,
            "axioms": {t: ax_of(t) for t in thms},
            "programs": n_programs, "disagreements_checked": len(disagreements),
            "evaluations": n_programs,
            "distinct_nontrivial": int(coverage_extra.get("asserted_inputs", 0)) if "corr" in P["stages"] else n_programs,
            "rule": ("inputs are moq command lines over generated/corpus source packages (corr + fast stages), compiled mocks "
                     "with operation scripts (rt) and CLI scenarios with prior file-system states (cli), all from one "
                     "random.Random(seed); distinct = distinct (package, flags, arguments) jobs; non-trivial = inside the "
                     "asserted domain (WF.core and the model's own output passes the reflected checkers, or a corpus entry), "
                     "i.e. the inputs on which the property is actually asserted of the real moq"),
            "samples": samples or [{"note": "no sample available"}],
            "broken_obligations": broken_obl,
        }, **coverage_extra),
        "assumptions": P["trust"],
        "wall_s": round(time.time() - t0, 2),
        "violations": len(violations) + (1 if (rc and not violations) else 0),
    }
    os.makedirs(os.path.join(VERIF, "evidence"), exist_ok=True)
    json.dump(ev, open(os.path.join(VERIF, "evidence", prop + ".json"), "w"), indent=1)
    print("[check] %s %s: obligations %d/%d, programs %d, disagreements %d, violations %d, %.1fs" % (
        prop, tier, discharged, obligations, n_programs, len(disagreements), len(violations), time.time() - t0))
    return rc
