"""Generator of scratch Go modules: a fixed library of helper packages chosen to span moq's
import/alias/naming input space, and random source packages with random interfaces.

All randomness comes from one random.Random(seed) passed in by the caller."""
import os, re

MOD = "example.com/m"

# ---------------------------------------------------------------------------------------
# library: relpath -> package name.  "adv" marks packages that lead outside WF.imports
# (equal sanitised paths, digit-leading components, package name != directory name).
LIB = [
    # same package name at different paths / depths
    ("lib/foo", "foo", False), ("x/foo", "foo", False), ("y/foo", "foo", False),
    ("a/b/foo", "foo", False), ("c/b/foo", "foo", False),
    ("bar", "bar", False), ("bar/v2", "bar", False), ("lib/bar", "bar", False),
    ("under_score/baz", "baz", False), ("dash-ed/baz", "baz", False), ("dotted.v3/baz", "baz", False),
    # package names that look like parameter names
    ("z/s", "s", False), ("z/n", "n", False), ("z/err", "err", False), ("z/ctx", "ctx", False),
    ("z/sync", "sync", False), ("z/mock", "mock", False), ("z/v", "v", False), ("z/fn", "fn", False),
    ("z/s1", "s1", False), ("z/id", "id", False), ("z/http", "http", False),
    # distinct plain ones
    ("p/alpha", "alpha", False), ("p/beta", "beta", False), ("p/gamma", "gamma", False),
    ("dotimp", "dotimp", False),
    # package name is not what goimports assumes from the path (C16 / F-23)
    ("p/pg-driver", "pgdriver", False), ("p/gokit", "kit", False),
    # twins of one-component standard packages (their unique name never grows)
    ("z/io", "io", False), ("w/io", "io", False), ("z/time", "time", False), ("z/os", "os", False),
    ("z/log", "log", False), ("w/deep/log", "log", False), ("z/stdlog", "stdlog", False),
    # package name differs from the directory; two of them share the name, so conflict resolution
    # hands out the directory names (= path.Base of the import path) as aliases
    ("p/storedir", "db", False), ("q/cachedir", "db", False),
    # an element that merely ends in "vendor"
    ("multivendor/qux", "qux", False), ("q/myvendor/pkgs/qux", "qux", False),
    # adversarial
    ("x/go-foo", "foo", True), ("q/x/foo", "bar", True), ("yy/xfoo", "bar", True),
    ("1a/foo", "foo", True), ("y/go-foo", "foo", True), ("w/foo-go", "foo", True),
]
STD = [("context", "context"), ("io", "io"), ("net/http", "http"), ("time", "time"),
       ("os", "os"), ("text/template", "template"), ("html/template", "template"),
       ("sync", "sync"), ("errors", "errors"), ("fmt", "fmt"), ("log", "log")]

STD_TYPES = {
    "context": ["Context", "CancelFunc"], "io": ["Reader", "Writer", "ReadCloser"],
    "net/http": ["Request", "Handler", "Header", "Client"], "time": ["Time", "Duration"],
    "os": ["File", "FileMode", "Signal"], "text/template": ["Template", "FuncMap"],
    "html/template": ["Template", "HTML"], "sync": ["Mutex", "WaitGroup"], "log": ["Logger"],
}

LIB_DECL = """package %s

// T is a plain struct.
type T struct{ X int }

// I is a method-only interface.
type I interface{ LibDo(T) T }

// G is a generic type.
type G[K any] struct{ V K }

// A is an alias of T.
type A = T

// F is a func type.
type F func(int) string

// S is a named slice type.
type S []T

// N is a named basic type.
type N int

// C is a constraint with a union.
type C interface{ ~int | ~string }

// MC is a method-only constraint.
type MC interface{ Less(int) bool }
"""
LIB_TYPES = ["T", "I", "G[int]", "A", "F", "S", "N", "*T", "G[string]"]


def write_library(root):
    os.makedirs(root, exist_ok=True)
    with open(os.path.join(root, "go.mod"), "w") as f:
        f.write("module %s\n\ngo 1.24\n" % MOD)
    for rel, name, _ in LIB:
        d = os.path.join(root, rel)
        os.makedirs(d, exist_ok=True)
        with open(os.path.join(d, "lib.go"), "w") as f:
            if rel == "dotimp":
                # only names no source package declares: a dot import must not clash
                f.write("package dotimp\n\n// DotT is used through a dot import.\ntype DotT struct{}\n")
            else:
                f.write(LIB_DECL % name)
                if name == "sync":
                    # a foreign package called sync with a look-alike of the standard lock (it excludes nobody)
                    f.write("\n// RWMutex looks like sync.RWMutex and locks nothing.\ntype RWMutex struct{}\n\n"
                            "func (*RWMutex) Lock()    {}\nfunc (*RWMutex) Unlock()  {}\nfunc (*RWMutex) RLock()   {}\nfunc (*RWMutex) RUnlock() {}\n")
    # destination probes: directories that exist under the module root
    for rel, name in (("other2", "other2"), ("probe/same", "same")):
        d = os.path.join(root, rel)
        os.makedirs(d, exist_ok=True)
        with open(os.path.join(d, "p.go"), "w") as f:
            f.write("package %s\n" % name)


# ---------------------------------------------------------------------------------------
# random source packages

BASICS = ["int", "string", "bool", "float64", "byte", "rune", "uint", "error", "any",
          "int64", "uint8", "float32", "complex128", "uintptr", "int32"]
KEYS = ["string", "int", "bool", "rune"]
METHOD_NAMES = ["Get", "Set", "Do", "Run", "Close", "Put", "List", "One", "Two", "Find",
                "Apply", "Send", "Recv", "Visit", "Len", "Id", "Url", "ID", "Http", "Api", "Json", "Uuid",
                "refresh", "lower", "get", "X", "Get2", "With_Underscore"]
ADV_METHOD_NAMES = ["GetCalls", "ResetCalls", "ResetGetCalls", "Func"]
PLAIN_NAMES = ["a", "b", "c", "ctx", "name", "key", "val", "x", "y", "in", "out", "req", "opts",
               "first_arg", "arg2", "Upper", "mixedCase", "x1", "_x"]
TRICKY_NAMES = ["userID", "userId", "apiKey", "apikey", "_key", "key", "_ctx", "s", "s1", "s2", "n", "n1", "err", "foo", "bar", "baz", "sync", "v", "fn",
                "sOut", "nOut", "errOut", "fooMoqParam", "sMoqParam", "alpha", "beta", "http",
                "id", "ID", "Id", "url", "URL", "Url", "uRL", "http2", "json", "JSON", "uuid", "Uuid",
                "xsrf", "api", "Api", "acl", "ascii", "cpu", "css", "dns", "eof", "guid", "html",
                "https", "ip", "lhs", "qps", "ram", "rhs", "rpc", "sla", "smtp", "sql", "ssh",
                "tcp", "tls", "ttl", "udp", "ui", "uid", "uri", "utf8", "vm", "xml", "xmpp", "xss",
                "ids", "urls", "t", "context", "template", "time", "io", "os"]
ADV_NAMES = ["mock", "callInfo", "nil", "append", "panic", "string", "int", "error", "xfoo",
             "yfoo", "bfoo", "T", "len", "true", "calls", "any", "barv2", "libfoo", "s1MoqParam"]
ALIAS_POOL = ["%sx", "x%s", "%s2", "my%s", "%sPkg", "l%s", "the_%s"]
TRICKY_ALIASES = ["s", "n", "err", "v", "xfoo", "yfoo", "libfoo", "bfoo", "sync", "mock", "ctx",
                  "abfoo", "cbfoo", "barv2", "fn", "id", "foo", "bar", "alpha"]


class SrcGen:
    def __init__(self, rnd, adversarial=False, generic_rate=0.3):
        self.r = rnd
        self.adv = adversarial
        self.generic_rate = generic_rate

    # -- imports bookkeeping for one file ------------------------------------------------
    def new_file(self):
        self.used = {}      # path -> qualifier used in this file
        self.quals = set()  # qualifiers taken in this file
        self.aliased = {}   # path -> alias (written explicitly)

    def qual(self, path, name):
        if path in self.used:
            return self.used[path]
        r = self.r
        want_alias = r.random() < 0.25 or name in self.quals or name in self.local_names
        q = name
        if not want_alias and r.random() < 0.12:
            # the package's own name written out: `foo "…/foo"`
            self.aliased[path] = name
        if want_alias:
            for _ in range(20):
                if r.random() < 0.4:
                    cand = r.choice(TRICKY_ALIASES)
                else:
                    cand = r.choice(ALIAS_POOL) % name
                if cand not in self.quals and cand not in self.local_names and cand != name:
                    q = cand
                    break
            else:
                q = name + "ZZ%d" % len(self.quals)
            self.aliased[path] = q
        self.used[path] = q
        self.quals.add(q)
        return q

    # -- types ---------------------------------------------------------------------------
    def lib_type(self):
        r = self.r
        if r.random() < 0.25:
            path, name = r.choice([s for s in STD if s[0] in STD_TYPES])
            t = r.choice(STD_TYPES[path])
            q = self.qual(path, name)
            star = "*" if t in ("Request", "File", "Template", "Client", "Mutex", "WaitGroup") else ""
            return star + q + "." + t
        libs = [l for l in LIB if (self.adv or not l[2]) and l[0] != "dotimp"]
        if self.focus and r.random() < 0.8:
            rel, name, _ = r.choice(self.focus)
        else:
            rel, name, _ = r.choice(libs)
        q = self.qual(MOD + "/" + rel, name)
        t = r.choice(LIB_TYPES)
        if t.startswith("*"):
            return "*" + q + "." + t[1:]
        if t in ("G[int]", "G[string]") and r.random() < 0.6:
            c = r.random()
            if c < 0.5:
                # a type argument from (usually) another package, possibly nested in the same generic
                rel2, name2, _ = r.choice(libs)
                q2 = self.qual(MOD + "/" + rel2, name2)
                arg = q2 + "." + r.choice(["T", "N", "A", "S"])
                if self.locals_ok and r.random() < 0.35:
                    arg = r.choice(["LT", "LN", "*LT"])
                if r.random() < 0.4:
                    arg = q + ".G[" + arg + "]"
                pre = r.choice(["", "", "map[" + q + ".N]", "[]", "*"])
                return pre + q + ".G[" + arg + "]"
            return q + ".G[" + self.typ(0, key=False) + "]"
        return q + "." + t

    def typ(self, depth, key=False, tparams=()):
        r = self.r
        if key:
            c = r.random()
            if c < 0.7:
                return r.choice(KEYS)
            if c < 0.85 and self.locals_ok:
                return "LN"
            rel, name, _ = r.choice([l for l in LIB if not l[2] and l[0] != "dotimp"])
            return self.qual(MOD + "/" + rel, name) + ".N"
        c = r.random()
        if depth <= 0 or c < 0.30:
            c2 = r.random()
            if tparams and c2 < 0.35:
                return r.choice(tparams)
            if c2 < 0.55:
                return r.choice(BASICS)
            if c2 < 0.65 and self.locals_ok:
                return r.choice(["LT", "*LT", "LN", "LG[int]", "LA", "LS", "LA", "Panic", "Nil", "Append", "Error"])
            return self.lib_type()
        k = r.randrange(12)
        d = depth - 1
        if k == 0:
            return "*" + self.typ(d, tparams=tparams)
        if k in (1, 2):
            return "[]" + self.typ(d, tparams=tparams)
        if k == 3:
            return "[%d]" % r.randrange(0, 5) + self.typ(d, tparams=tparams)
        if k in (4, 5):
            return "map[" + self.typ(d, key=True) + "]" + self.typ(d, tparams=tparams)
        if k == 6:
            dirn = r.choice(["chan ", "<-chan ", "chan<- ", "chan "])
            e = self.typ(d, tparams=tparams)
            if dirn == "chan " and e.startswith("<-chan"):
                e = "(" + e + ")"
            return dirn + e
        if k in (7, 8):
            return "func" + self.sig(d, tparams=tparams, inner=True)
        if k == 9:
            n = r.randrange(0, 3)
            fs = []
            for i in range(n):
                tag = ' `json:"f%d"`' % i if r.random() < 0.3 else ""
                fs.append("F%d %s%s" % (i, self.typ(d, tparams=tparams), tag))
            return "struct{" + "; ".join(fs) + "}"
        if k == 10:
            n = r.randrange(0, 3)
            ms = ["M%d%s" % (i, self.sig(d, tparams=tparams, inner=True)) for i in range(n)]
            if r.random() < 0.2:
                ms.append(r.choice(["error", "LI0"]) if self.locals_ok else "error")
            return "interface{" + "; ".join(ms) + "}"
        return self.lib_type()

    def names(self, n, blank_ok=True):
        r = self.r
        out = []
        for _ in range(n):
            for _ in range(30):
                c = r.random()
                if blank_ok and c < 0.08:
                    nm = "_"
                elif c < 0.45:
                    nm = r.choice(PLAIN_NAMES)
                elif c < 0.95 or not self.adv:
                    nm = r.choice(TRICKY_NAMES)
                else:
                    nm = r.choice(ADV_NAMES)
                if nm == "_" or (nm not in out and nm not in self.sig_taken):
                    break
            else:
                nm = "u%d" % len(self.sig_taken)
            out.append(nm)
            if nm != "_":
                self.sig_taken.add(nm)
        return out

    def sig(self, depth, tparams=(), inner=False, maxp=5):
        r = self.r
        saved = getattr(self, "sig_taken", set())
        self.sig_taken = set()
        np_ = r.choice([0, 1, 1, 2, 2, 3, 4, maxp]) if not inner else r.choice([0, 1, 1, 2])
        if not inner and r.random() < 0.03:
            np_ = r.randrange(17, 25)      # a wide method: more variables than any small pre-sized buffer holds
        nr = r.choice([0, 1, 1, 2, 3]) if not inner else r.choice([0, 0, 1, 2])
        named = r.random() < (0.55 if not inner else 0.3)
        ptypes = [self.typ(depth, tparams=tparams) for _ in range(np_)]
        # repeat a type to provoke numbered names
        if not named and np_ >= 2 and r.random() < 0.5:
            ptypes[r.randrange(np_)] = ptypes[0]
        if np_ and r.random() < 0.2:
            ptypes[-1] = "..." + ptypes[-1]
        rtypes = [self.typ(depth, tparams=tparams) for _ in range(nr)]
        if nr >= 2 and r.random() < 0.4:
            rtypes[-1] = "error"
        if named:
            pn = self.names(np_)
            # a parameter called like a package the signature mentions – in the results only, in a
            # later parameter, or in its own type
            quals = re.findall(r"\b([A-Za-z_]\w*)\.[A-Z]", " ".join(rtypes if r.random() < 0.5 else ptypes + rtypes))
            if pn and quals and r.random() < 0.3:
                q = r.choice(quals)
                if q not in pn:
                    k = r.randrange(len(pn))
                    self.sig_taken.discard(pn[k])
                    pn[k] = q
                    self.sig_taken.add(q)
            ps = ", ".join("%s %s" % (a, b) for a, b in zip(pn, ptypes))
        else:
            ps = ", ".join(ptypes)
        rnamed = nr > 0 and r.random() < 0.3
        if rnamed:
            rn = self.names(nr)
            rs = " (" + ", ".join("%s %s" % (a, b) for a, b in zip(rn, rtypes)) + ")"
        elif nr == 0:
            rs = ""
        elif nr == 1:
            rs = " " + rtypes[0]
            if rtypes[0].startswith("func"):
                rs = " (" + rtypes[0] + ")"
        else:
            rs = " (" + ", ".join(rtypes) + ")"
        self.sig_taken = saved
        return "(" + ps + ")" + rs

    # -- one source package --------------------------------------------------------------
    def package(self, name):
        """Returns (files: {relname: text}, interface names)."""
        r = self.r
        self.local_names = {"LT", "LN", "LG", "LA", "LS", "LI0", "LC", "LMC", "Panic", "Nil", "Append", "Error"}
        self.locals_ok = True
        libs = [l for l in LIB if (self.adv or not l[2]) and l[0] != "dotimp"]
        # focus on a few packages so that same-named ones meet
        self.focus = r.sample(libs, r.choice([0, 2, 3, 4, 6])) if r.random() < 0.8 else []
        if r.random() < 0.5:
            nm = r.choice(["foo", "bar", "baz"])
            self.focus = [l for l in libs if l[1] == nm] + self.focus[:2]
        files = {}
        ifaces = []
        # the package clause: usually the directory name; sometimes the name of a package the
        # mock will also import (sync above all: every mock with a method imports it)
        self.prev_methods = set()
        self.clause = name.split("/")[-1]
        if r.random() < 0.08:
            self.clause = r.choice(["sync", "sync", "foo", "bar", "context", "http", "template"])
        nfiles = r.choice([1, 1, 2])
        nif = r.choice([1, 1, 2, 3])
        # optional dependency package providing transitive (un-aliased) imports
        dep = None
        if r.random() < 0.6:
            dep = self.dep_package(name)
            files.update(dep[0])
        per_file = [[] for _ in range(nfiles)]
        for i in range(nif):
            per_file[r.randrange(nfiles)].append(i)
        for fi in range(nfiles):
            self.new_file()
            body = []
            for i in per_file[fi]:
                iname = "I%d" % i if r.random() < 0.8 else r.choice(["Service", "Store", "Thing", "Lower%d"]).replace("%d", str(i)) + str(i)
                self.local_names.add(iname)
                body.append(self.interface(iname, i, dep, name))
                ifaces.append(iname)
            if fi == 0 and r.random() < 0.35:
                body.append("// LGI is a local generic interface.\ntype LGI[K any, V any] interface{ GM(k K, v V) (K, error) }\n"
                            "// AGI is an alias of an instance.\ntype AGI = LGI[LN, string]\n"
                            "// ANI is an alias of a plain interface.\ntype ANI = LI0\n"
                            "// DGI is a defined type over an instance.\ntype DGI LGI[int, LT]\n")
                self.local_names.update({"LGI", "AGI", "ANI", "DGI"})
                ifaces.extend(r.sample(["AGI", "ANI", "DGI", "LGI"], r.choice([1, 2])))
            if fi == 0 and r.random() < 0.2:
                body.append("// AL1 and AL2 are aliases of interface literals with a same-named method.\n"
                            "type AL1 = interface{ Read(p []byte) (int, error) }\n"
                            "type AL2 = interface {\n\tRead(key string) string\n\tKeys() []string\n}\n"
                            "// EL1 and EL2 embed interface literals.\n"
                            "type EL1 interface{ interface{ Do(x int) } }\n"
                            "type EL2 interface{ interface{ Do(s string) error } }\n")
                self.local_names.update({"AL1", "AL2", "EL1", "EL2"})
                ifaces.extend(r.choice([["AL1", "AL2"], ["EL1", "EL2"], ["AL2", "AL1", "EL2"]]))
            if fi == 0 and r.random() < 0.2:
                body.append("// LCmp is a generic constraint; FB is constrained by itself through it.\n"
                            "type LCmp[T any] interface{ Compare(T) int }\n"
                            "type FB[T LCmp[T]] interface{ Sort(xs []T) []T }\n"
                            "type FB2[T interface{ Merge(T) T }] interface{ MergeAll(xs ...T) T }\n")
                self.local_names.update({"LCmp", "FB", "FB2"})
                ifaces.extend(r.sample(["FB", "FB2"], 1))
            if fi == 0 and r.random() < 0.4:
                # local types spelled like the helper packages' ones: an unqualified fallback would still compile
                body.append("type T struct{ Local int }\ntype N int\ntype S []T\ntype A = T\n")
                self.local_names.update({"T", "N", "S", "A"})
            if fi == 0:
                body.append("type LT struct{ V int }\ntype LN int\ntype LG[K any] struct{ V K }\ntype LA = LT\ntype LS []LT\ntype LI0 interface{ L0() }\ntype LC interface{ ~int | ~int64 }\ntype LMC interface{ Less(LT) bool }\n"
                            "// aliases and a defined type named like identifiers the generated body uses\n"
                            "type Panic = func(v any)\ntype Nil = func()\ntype Append = []int\ntype Error struct{ Code int }\n")
                if r.random() < 0.2:
                    body.append("var V0 LI0\nfunc F0() {}\nconst K0 = 1\ntype NotIface struct{}\ntype GenNot[T any] struct{}\n")
            # extra named / dot / blank imports
            extra = []
            if r.random() < 0.15:
                extra.append('_ "%s/p/gamma"' % MOD)
            if r.random() < 0.1:
                extra.append('. "%s/dotimp"' % MOD)
                body.append("var _ DotT\n")
            imps = []
            btxt = "\n".join(body)
            for path, ql in self.used.items():
                if not re.search(r"(?<![\w])%s\." % re.escape(ql), btxt):
                    continue
                if path in self.aliased:
                    imps.append('%s "%s"' % (ql, path))
                else:
                    imps.append('"%s"' % path)
            # an alias for a package this file does not otherwise use, kept alive by a blank var
            if r.random() < 0.2:
                cands = [l for l in libs if MOD + "/" + l[0] not in self.used]
                if cands:
                    rel, nm, _ = r.choice(cands)
                    al = r.choice(TRICKY_ALIASES)
                    if al not in self.quals and al not in self.local_names:
                        imps.append('%s "%s/%s"' % (al, MOD, rel))
                        body.append("var _ %s.T\n" % al)
                        self.quals.add(al)
            r.shuffle(imps)
            # some files carry a build constraint that holds on every platform the checks run on
            cons = "//go:build !plan9\n\n" if r.random() < 0.12 else ""
            text = cons + "package %s\n\n" % self.clause
            if imps or extra:
                text += "import (\n" + "".join("\t%s\n" % i for i in imps + extra) + ")\n\n"
            text += "\n".join(body)
            files["%s/f%d.go" % (name, fi)] = text
        return files, ifaces

    def dep_package(self, name):
        r = self.r
        self.new_file()
        saved_local, saved_ok = self.local_names, self.locals_ok
        self.local_names, self.locals_ok = {"E", "E2"}, False
        ms = []
        for i in range(r.choice([1, 2, 3])):
            ms.append("\tEm%d%s" % (i, self.sig(1)))
        text = "package dep\n\n"
        body = "// E is embedded by the source package.\ntype E interface {\n" + "\n".join(ms) + "\n}\n"
        body += "// GE is a generic interface.\ntype GE[K any] interface{ Gm(K) K }\n"
        imps = []
        for path, ql in self.used.items():
            if not re.search(r"(?<![\w])%s\." % re.escape(ql), body):
                continue
            imps.append(('%s "%s"' % (ql, path)) if path in self.aliased else '"%s"' % path)
        if imps:
            text += "import (\n" + "".join("\t%s\n" % i for i in imps) + ")\n\n"
        self.local_names, self.locals_ok = saved_local, saved_ok
        return {"%s/dep/dep.go" % name: text + body}, "%s/%s/dep" % (MOD, name)

    def interface(self, iname, idx, dep, pkgname):
        r = self.r
        generic = r.random() < self.generic_rate
        tparams, tdecl = (), ""
        if generic:
            pool = ["T", "K", "V", "S", "E"] + (["t", "elem", "foo", "s"] if self.adv else [])
            n = r.choice([1, 1, 2, 3])
            tparams = tuple(r.sample(pool, n))
            cons = []
            for tp in tparams:
                c = r.random()
                if c < 0.45:
                    cons.append("any")
                elif c < 0.6:
                    cons.append("LMC")
                elif c < 0.7:
                    cons.append("LC")
                elif c < 0.8:
                    cons.append(r.choice(["~int | ~string", "~string", "~float32 | ~float64", "interface{ ~string }",
                                          "~string | ~[16]byte", "~int | ~string"]))
                elif c < 0.84:
                    cons.append("interface{ int | int64 }")
                elif c < 0.87:
                    # a defined non-interface type as the whole constraint or as one element of it
                    cons.append(r.choice(["LN", "interface{ LN }", "interface{ LN; L0() }", "LT", "LS"]))
                elif c < 0.97:
                    # a constraint declared in another package, preferably one of the same-named
                    # packages this source package concentrates on
                    cands = [l for l in getattr(self, "focus", []) if not l[2] and l[0] != "dotimp"] or \
                            [l for l in LIB if not l[2] and l[0] != "dotimp"]
                    rel, nm, _ = r.choice(cands)
                    cons.append(self.qual(MOD + "/" + rel, nm) + r.choice([".C", ".MC", ".MC", ".N"]))
                elif self.adv:
                    cons.append(r.choice(["comparable", "interface{ LN | int }", "interface{ ~[]%s }" % tparams[0]]))
                else:
                    cons.append("any")
            tdecl = "[" + ", ".join("%s %s" % (a, b) for a, b in zip(tparams, cons)) + "]"
        nm = r.choice([0, 1, 1, 2, 2, 3, 4, 5])
        pool = METHOD_NAMES + (ADV_METHOD_NAMES if self.adv else [])
        mnames = r.sample(pool, nm)
        # names that read like helpers of a method of an *earlier* interface of the package
        # (different receiver types: no clash, and every mock keeps all of its own helpers)
        prev = sorted(getattr(self, "prev_methods", set()) - set(mnames))
        if prev and r.random() < 0.35:
            m0 = r.choice(prev)
            extra_name = r.choice(["Reset%s", "Reset%sCalls", "%sCalls", "%sFunc"]) % m0 if r.random() < 0.9 else "Reset"
            if extra_name not in mnames and all(extra_name != x + "Calls" and extra_name != "Reset" + x + "Calls" for x in mnames):
                mnames.append(extra_name)
        self.prev_methods = getattr(self, "prev_methods", set()) | set(mnames)
        lines = []
        for m in mnames:
            lines.append("\t%s%s" % (m, self.sig(r.choice([0, 1, 1, 2, 3]), tparams=tparams)))
        # embedded interfaces
        c = r.random()
        if c < 0.15:
            lines.append("\tLI0")
        elif c < 0.3 and dep is not None:
            q = self.qual(dep[1], "dep")
            lines.append("\t%s.E" % q)
        elif c < 0.4:
            rel, nm2, _ = r.choice([l for l in LIB if (self.adv or not l[2]) and l[0] != "dotimp"])
            lines.append("\t%s.I" % self.qual(MOD + "/" + rel, nm2))
        elif c < 0.45 and dep is not None:
            q = self.qual(dep[1], "dep")
            lines.append("\t%s.GE[%s]" % (q, self.typ(0, tparams=tparams)))
        elif c < 0.5:
            lines.append("\tio.Closer" if False else "\terror")
        r.shuffle(lines)
        out = "// %s is generated.\ntype %s%s interface {\n%s\n}\n" % (iname, iname, tdecl, "\n".join(lines))
        return out


def alias_disagreement_case(rnd, name):
    """Two files of one package disagree about import names: file a uses package P under its own
    name and Q under an alias; file b calls Q by P's name.  One parameter type mentions P and Q."""
    cands = [l for l in LIB if not l[2] and l[0] != "dotimp"]
    (rp, np_, _), (rq, nq, _) = rnd.sample(cands, 2)
    while nq == np_:
        (rp, np_, _), (rq, nq, _) = rnd.sample(cands, 2)
    alias = rnd.choice(["qx", "other", nq + "2"])
    shape = rnd.choice(["map[%s.N]%s.T", "func(%s.T) %s.T", "map[%s.N][]%s.T", "struct{A %s.T; B %s.T}"])
    fa = ('package %s\n\nimport (\n\t"%s/%s"\n\t%s "%s/%s"\n)\n\n// IAD has one parameter mentioning two packages.\n'
          'type IAD interface {\n\tLoad(index %s) error\n\tOther(x %s.T)\n}\n'
          % (name, MOD, rp, alias, MOD, rq, shape % (np_, alias), alias))
    fb = ('package %s\n\nimport %s "%s/%s"\n\nvar _ %s.T\n' % (name, np_, MOD, rq, np_))
    return {"%s/a.go" % name: fa, "%s/b.go" % name: fb}, ["IAD"]


def late_rename_case(rnd, name):
    """Two same-named packages met one after the other: interface First (file a) mentions package P
    everywhere a qualifier is printed – parameters, a variadic tail, results, a type-parameter
    constraint, an embedded interface –, interface Second (file b) mentions Q, which has the same
    name.  Registering Q renames P *after* First has been analysed: whatever was computed from P's
    qualifier too early is stale."""
    by_name = {}
    for rel, nm, adv in LIB:
        if not adv and rel != "dotimp":
            by_name.setdefault(nm, []).append(rel)
    nm = rnd.choice([k for k, v in by_name.items() if len(v) >= 2])
    rp, rq = rnd.sample(by_name[nm], 2)
    generic = rnd.random() < 0.5
    tdecl = "[K %s.%s, V any]" % (nm, rnd.choice(["MC", "C", "MC"])) if generic else ""
    k = "K" if generic else "int"
    ms = []
    if rnd.random() < 0.7:
        ms.append("\tPut(k %s, opts ...%s.T) %s.N" % (k, nm, nm))
    if rnd.random() < 0.5:
        ms.append("\tAll(%s...%s) []%s.T" % (rnd.choice(["", "xs "]), rnd.choice(["*%s.T" % nm, "%s.F" % nm, "any"]), nm))
    if rnd.random() < 0.5:
        ms.append("\tConv(%s.A) (%s.S, error)" % (nm, nm))
    if rnd.random() < 0.3 and not generic:
        ms.append("\t%s.I" % nm)
    if not ms:
        ms.append("\tOne(%s.T)" % nm)
    fa = ('package %s\n\nimport "%s/%s"\n\n// First meets package %s first.\ntype First%s interface {\n%s\n}\n'
          % (name, MOD, rp, nm, tdecl, "\n".join(ms)))
    second = rnd.choice(["\tGet(x %s.T) %s.S" % (nm, nm), "\tGet(%s.N)" % nm, "\t%s.I" % nm])
    fb = ('package %s\n\nimport "%s/%s"\n\n// Second brings the other package called %s.\ntype Second interface {\n%s\n}\n'
          % (name, MOD, rq, nm, second))
    return {"%s/a.go" % name: fa, "%s/b.go" % name: fb}, ["First", "Second"]


def _sanit(c):
    for a in ("go-", "-go", "-", "_", ".", "@", "+", "~"):
        c = c.replace(a, "")
    return c.lower()


def unique_names(path):
    """the names moq's conflict resolution can hand out for an import path"""
    parts = path.split("/")
    out, acc = [], ""
    for c in reversed(parts):
        acc = _sanit(c) + acc
        out.append(acc)
    return out


def conflict_case(rnd, name, adversarial=False):
    """Conflict-focused input.  A per-case library package `<name>/hub` declares interfaces whose
    methods mix packages that share names (its own file-local aliases are invisible to moq); the
    source package reaches them through aliases/embedding, so the packages arrive in the registry
    un-aliased, in an order fixed by the method names, and may be given source aliases that are
    other packages' names or the names conflict resolution would invent.  Parameter names are drawn
    from those same names."""
    r = rnd
    groups = {}
    for rel, nm, adv in LIB:
        if rel != "dotimp" and (adversarial or not adv):
            groups.setdefault(nm, []).append((MOD + "/" + rel, nm))
    for pth, nm in STD:
        if pth in STD_TYPES:
            groups.setdefault(nm, []).append((pth, nm))
    rich = [k for k, v in groups.items() if len(v) >= 2]
    chosen = []
    if r.random() < 0.5:
        # one name, as many of its packages as there are, and a friend or two whose *names* can be
        # given to them as source aliases
        g = r.choice(rich)
        chosen += r.sample(groups[g], min(len(groups[g]), r.choice([2, 3, 4])))
        others = [x for v in groups.values() for x in v if x not in chosen]
        chosen += r.sample(others, r.choice([1, 1, 2]))
    else:
        for g in r.sample(rich, r.choice([1, 1, 2])):
            chosen += r.sample(groups[g], min(len(groups[g]), r.choice([2, 2, 3])))
        others = [x for v in groups.values() for x in v if x not in chosen]
        chosen += r.sample(others, r.choice([0, 1, 1, 2]))
    r.shuffle(chosen)
    invent = [u for pth, _ in chosen for u in unique_names(pth.replace(MOD + "/", "m/", 1) if False else pth)[:3]]
    names_pool = sorted(set(invent + [nm for _, nm in chosen])) + ["s", "n", "v"]

    def ty(i):
        pth, nm = chosen[i]
        q = "p%d" % i
        if pth in STD_TYPES:
            t = q + "." + r.choice(STD_TYPES[pth])
            if t.endswith((".Mutex", ".WaitGroup", ".Template", ".File", ".Client", ".Request", ".Logger")):
                t = "*" + t
            return t
        base = q + "." + r.choice(["T", "T", "N", "S", "F", "A", "I"])
        if r.random() < 0.2 and len(chosen) > 1:
            # one type mentioning two of the packages: they reach the registry from a single AddVar
            j = r.choice([k for k in range(len(chosen)) if k != i])
            if chosen[j][0] not in STD_TYPES:
                other = "p%d.%s" % (j, r.choice(["T", "N", "A"]))
                return r.choice(["map[%s]%s" % ("p%d.N" % j, base), "func(%s) %s" % (other, base),
                                 "struct{ A %s; B %s }" % (base, other), "map[string]func(%s) %s" % (base, other)])
        return r.choice(["%s", "%s", "*%s", "[]%s", "map[string]%s", "chan %s", "func(%s) error"]) % base

    hub = ["package hub", "", "import ("]
    for i, (pth, nm) in enumerate(chosen):
        hub.append('\tp%d "%s"' % (i, pth))
    hub += [")", ""]
    ifaces = []
    order = list(range(len(chosen)))
    nif = r.choice([1, 1, 2, 3])
    mcount = 0
    for h in range(nif):
        lines = []
        r.shuffle(order)
        for i in order:
            if nif > 1 and r.random() < 0.4:
                continue
            # method names fix go/types' order, hence the registration order of the packages
            mname = "M%c%d" % (r.choice("ABCDEFG"), mcount)
            mcount += 1
            idx = [i] + [r.randrange(len(chosen)) for _ in range(r.choice([0, 0, 1, 2]))]
            named = r.random() < 0.7
            ps = []
            used = set()

            def fresh():
                pn = r.choice(names_pool) if r.random() < 0.6 else r.choice(PLAIN_NAMES + TRICKY_NAMES)
                while pn in used or pn == "_x":
                    pn = r.choice(PLAIN_NAMES) + str(len(used))
                used.add(pn)
                return pn
            for j in idx:
                ps.append("%s %s" % (fresh(), ty(j)) if named else ty(j))
            if r.random() < 0.3:
                t = "..." + ty(r.randrange(len(chosen)))
                ps.append("%s %s" % (fresh(), t) if named else t)
            rk = r.randrange(6)
            if rk < 2:
                res = ""
            elif rk == 2:
                res = " error"
            elif rk == 3:
                res = " %s" % ty(r.randrange(len(chosen)))
            elif rk == 4:
                res = " (%s, error)" % ty(r.randrange(len(chosen)))
            else:
                res = " (%s %s, %s error)" % (fresh(), ty(r.randrange(len(chosen))), fresh())
            lines.append("\t%s(%s)%s" % (mname, ", ".join(ps), res))
        if not lines:
            lines.append("\tM%d(%s)" % (mcount, ty(0)))
            mcount += 1
        hub.append("// H%d is declared here so that moq sees the packages without aliases.\ntype H%d interface {\n%s\n}\n" % (h, h, "\n".join(lines)))
    # keep every import of hub used
    for i in range(len(chosen)):
        hub.append("var _ %s" % ty(i).replace("...", ""))
    files = {"%s/hub/hub.go" % name: "\n".join(hub) + "\n"}
    # source package: reaches the interfaces through aliases and embedding; may give some of the
    # packages source aliases (names of other packages, invented names, own names)
    src = ["package %s" % name, "", "import ("]
    taken = {"hub"}
    aliased = []
    for i, (pth, nm) in enumerate(chosen):
        if r.random() < 0.35:
            c = r.random()
            if c < 0.5:
                al = r.choice([n2 for _, n2 in chosen])      # another chosen package's name (or its own)
            elif c < 0.8:
                al = r.choice(names_pool)
            else:
                al = r.choice(TRICKY_ALIASES)
            if al in taken or al in ("s", "n", "v") and r.random() < 0.5:
                continue
            taken.add(al)
            aliased.append((al, pth, i))
            src.append('\t%s "%s"' % (al, pth))
    src.append('\t"%s/%s/hub"' % (MOD, name))
    src += [")", ""]
    for al, pth, i in aliased:
        t = STD_TYPES[pth][0] if pth in STD_TYPES else "T"
        src.append("var _ *%s.%s" % (al, t))
    for h in range(nif):
        form = r.choice(["alias", "alias", "embed", "embed2"])
        if form == "alias":
            src.append("// R%d is hub.H%d.\ntype R%d = hub.H%d\n" % (h, h, h, h))
        elif form == "embed":
            src.append("// R%d embeds hub.H%d.\ntype R%d interface{ hub.H%d }\n" % (h, h, h, h))
        else:
            src.append("// R%d embeds hub.H%d and adds a method.\ntype R%d interface {\n\thub.H%d\n\tOwn%d(%s int) string\n}\n"
                       % (h, h, h, h, h, r.choice(names_pool)))
        ifaces.append("R%d" % h)
    files["%s/a.go" % name] = "\n".join(src) + "\n"
    return files, ifaces


def make_cases(rnd, root, n, adversarial=False, prefix="src", conflict_share=0.0):
    """Writes n source packages under root; returns list of dicts {dir, ifaces}."""
    out = []
    for i in range(n):
        g = SrcGen(rnd, adversarial=adversarial)
        name = "%s%d" % (prefix, i)
        ordsens = rnd.random() < 0.08
        g.clause = name
        # a few source packages live under a directory whose name ends in "vendor" (not a vendor tree)
        sub = "shopvendor/" if (prefix.startswith("f") and rnd.random() < 0.04) else ""
        late = not ordsens and rnd.random() < 0.08
        conflict = not ordsens and not late and rnd.random() < conflict_share
        if sub:
            ordsens = late = conflict = False
        if conflict:
            files, ifaces = conflict_case(rnd, name, adversarial)
        elif ordsens:
            files, ifaces = alias_disagreement_case(rnd, name)
        elif late:
            files, ifaces = late_rename_case(rnd, name)
        else:
            files, ifaces = g.package(sub + name)
        for rel, text in files.items():
            p = os.path.join(root, rel if rel.startswith(sub) else sub + rel)
            os.makedirs(os.path.dirname(p), exist_ok=True)
            with open(p, "w") as f:
                f.write(text)
        out.append({"dir": sub + name, "conflict": conflict, "ifaces": ifaces, "adv": adversarial, "ordsens": ordsens, "ordered": late, "pkgname": g.clause,
                    "named": any(re.search(r'^\s*[A-Za-z_]\w* "', t, re.M) for t in files.values())})
    return out


def configs_for(rnd, case, k):
    """k random moq configurations for a generated case."""
    out = []
    name = case["dir"]
    for j in range(k):
        ifs = list(case["ifaces"])
        rnd.shuffle(ifs)
        ifs = ifs[: rnd.randrange(1, len(ifs) + 1)]
        if case.get("ordered") and j < 2:
            ifs = list(case["ifaces"])       # directed cases: the declared order, twice (two flag settings)
        args = []
        for x in ifs:
            c = rnd.random()
            if c < 0.15:
                args.append(x + ":" + rnd.choice(["My%s", "%sStub", "Fake%s", "%sDouble"]) % x)
            else:
                args.append(x)
        # the same interface twice under different mock names
        if ifs and rnd.random() < 0.06:
            x = rnd.choice(ifs)
            args.insert(rnd.randrange(len(args) + 1), x + ":" + rnd.choice(["Second%s", "%sTwin"]) % x)
        # a mock type named like a parameter (an unexported type in the destination package)
        if ifs and rnd.random() < 0.05:
            k = rnd.randrange(len(args))
            if ":" not in args[k]:
                args[k] = args[k] + ":" + rnd.choice(["key", "val", "name", "req", "opts", "handler", "in", "out"])
        # an argument moq must reject, at a random position: unknown name, or a non-interface
        if rnd.random() < 0.05:
            bad = rnd.choice(["Nope", "T", "N", "nope:Fake"])
            if args and rnd.random() < 0.4:
                # ... asking for the mock name an earlier argument already has
                first = args[0]
                bad = bad.split(":")[0] + ":" + (first.split(":")[1] if ":" in first else first + "Mock")
                args.append(bad)
            else:
                args.insert(rnd.randrange(len(args) + 1), bad)
        pn = case.get("pkgname", name)
        pkg = rnd.choice(["", "", "", pn, "other", pn + "_test", "other2", "pkgx"])
        out.append({"dir": name, "pkg": pkg, "stub": rnd.random() < 0.5, "skip": rnd.random() < 0.35,
                    "resets": rnd.random() < 0.5, "args": args})
    return out
