"""CLI stage (P-cli): the real moq binary in scratch trees – fault enumeration over prior states
of the -out path, argument lists, destinations – with tree snapshots before/after.
Oracles: C15 (fixed point, -rm independence), C17 (all-or-nothing), C18 (nothing else
modified), C19 (terminates with a diagnostic).  The model (`run Generated.runProg`) is run on the
same scenario through the Lean driver and compared (routing of the output, effects, outcome)."""
import hashlib, json, os, random, re, shutil, subprocess, tempfile, time
from . import build, pool

MOD = "example.com/c"
SVC = """package svc

import (
	"context"
	"io"
)

// Good is a plain interface.
type Good interface {
	Get(ctx context.Context, id string) (io.Reader, error)
	Put(id string, vals ...int) error
}

// Other is a second interface.
type Other interface {
	Do(n int) (s string)
}

// Gen is generic.
type Gen[T any] interface{ One(T) T }

// NotIface is a struct.
type NotIface struct{}

// GenNot is a generic non-interface.
type GenNot[T any] struct{ V T }

func F() {}

var V = 1
"""
STALE = """package svc

// stale output of an older interface version: does not compile together with the package
var _ Good = &GoodMock{}

type GoodMock struct{}
"""


def snapshot(root):
    out = {}
    for d, dirs, files in os.walk(root):
        dirs.sort()
        rel = os.path.relpath(d, root)
        out[rel + "/"] = "dir"
        for f in files:
            p = os.path.join(d, f)
            out[os.path.relpath(p, root)] = hashlib.sha1(open(p, "rb").read()).hexdigest()
    return out


def make_tree(root):
    os.makedirs(os.path.join(root, "svc"))
    os.makedirs(os.path.join(root, "sib"))
    os.makedirs(os.path.join(root, "bad"))
    open(os.path.join(root, "go.mod"), "w").write("module %s\n\ngo 1.24\n" % MOD)
    open(os.path.join(root, "svc", "svc.go"), "w").write(SVC)
    open(os.path.join(root, "sib", "sib.go"), "w").write("package sib\n\n// X is here.\ntype X int\n")
    open(os.path.join(root, "bad", "bad.go"), "w").write("package bad\n\nfunc broken( {\n")
    open(os.path.join(root, "plainfile"), "w").write("not a directory\n")
    # a very wide interface: the generated file is a few hundred kilobytes (pipes, buffers, formatters)
    os.makedirs(os.path.join(root, "big"))
    open(os.path.join(root, "big", "big.go"), "w").write(
        "package big\n\n// Store is wide.\ntype Store interface {\n" +
        "".join("\tOp%03d(ctx string, key string, value []byte, opts ...int) (string, error)\n" % i for i in range(360)) + "}\n")
    # a second module whose go.mod the go command considers out of date (a direct dependency marked
    # `// indirect`, resolved through a local replace): nothing may "tidy" it (C18)
    os.makedirs(os.path.join(root, "mod2", "svc2"))
    os.makedirs(os.path.join(root, "lib2"))
    open(os.path.join(root, "mod2", "go.mod"), "w").write(
        "module example.com/app\n\ngo 1.24\n\nrequire example.com/lib v0.0.0 // indirect\n\nreplace example.com/lib => ../lib2\n")
    open(os.path.join(root, "lib2", "go.mod"), "w").write("module example.com/lib\n\ngo 1.24\n")
    open(os.path.join(root, "lib2", "lib.go"), "w").write("package lib\n\n// Item is used by svc2.\ntype Item struct{ ID int }\n")
    open(os.path.join(root, "mod2", "svc2", "svc.go"), "w").write(
        'package svc2\n\nimport "example.com/lib"\n\n// Good uses the dependency.\ntype Good interface {\n\tPush(item lib.Item) error\n}\n')


def scenarios(rnd, tier):
    S = []
    argsets = [["Good"], ["Good", "Other"], ["Good:MyGood", "Gen"], ["Nope"], ["Good", "Nope"], ["Nope", "Good"],
               ["Good", "Other", "NotIface"], ["NotIface"], ["GenNot"], ["F"], ["V"], [], [""], [":"], ["Good:"],
               [":X"], ["Good", ""], ["Gööd"]]
    outs = [None, "svc/good_moq.go", "svc/sub/deep/mock.go", "gen/mocks/out.go", "plainfile/x.go", "svc"]
    priors = ["absent", "own", "garbage", "stale", "otherpkg", "dirnonempty"]
    # (three more kinds of prior content - ownlonger, ownnoop, ownresets - are used below)
    # systematic core
    for args in argsets:
        for out in (None, "svc/good_moq.go"):
            for rm in (False, True):
                S.append(dict(srcdir="svc", args=args, out=out, rm=rm, prior="absent", flags=[]))
    for out in outs[1:]:
        for prior in priors:
            for rm in (False, True):
                if prior != "absent" and out in ("plainfile/x.go", "svc"):
                    continue
                S.append(dict(srcdir="svc", args=["Good", "Other"], out=out, rm=rm, prior=prior, flags=[]))
    for srcdir in ("nosuchdir", "bad", "sib"):
        for out in (None, "svc/good_moq.go"):
            S.append(dict(srcdir=srcdir, args=["Good"], out=out, rm=True, prior="own", flags=[]))
    for fl in (["-pkg", "other"], ["-pkg", "svc_test"], ["-stub", "-with-resets"], ["-fmt", "noop"], ["-fmt", "goimports"],
               ["-skip-ensure", "-pkg", "other"], ["-fmt", "bogus"]):
        for out in (None, "gen/mocks/out.go"):
            S.append(dict(srcdir="svc", args=["Good", "Gen"], out=out, rm=True, prior="garbage", flags=fl))
    # the same directory spelled differently: absolute -out, ./-prefixed source directory
    for prior in priors:
        for rm in (False, True):
            S.append(dict(srcdir="svc", args=["Good", "Other"], out="svc/good_moq.go", rm=rm, prior=prior, flags=[], abs=True))
            S.append(dict(srcdir="./svc/", args=["Good", "Other"], out="./svc/../svc/good_moq.go", rm=rm, prior=prior, flags=[]))
    # regeneration over an earlier output that is longer (more interfaces), differently laid out
    # (-fmt noop) or differently configured: the file must end up exactly what the command prints
    for prior in ("ownlonger", "ownnoop", "ownresets"):
        for rm in (False, True):
            for args in (["Good"], ["Good:MyGood", "Other"]):
                S.append(dict(srcdir="svc", args=args, out="svc/good_moq.go", rm=rm, prior=prior, flags=[]))
            S.append(dict(srcdir="svc", args=["Good"], out="gen/mocks/out.go", rm=rm, prior=prior, flags=["-pkg", "mocks"]))
            S.append(dict(srcdir="svc", args=["Good"], out="svc/good_moq.go", rm=rm, prior=prior, flags=["-fmt", "gofmt"]))
    # a failing run over an earlier (own) output, with and without -rm: the file must survive
    for args in (["Good", "Nope"], ["NotIface"], ["Nope", "Good"]):
        for prior in ("own", "ownlonger"):
            for rm in (False, True):
                S.append(dict(srcdir="svc", args=args, out="gen/keep/mock.go", rm=rm, prior=prior, flags=["-pkg", "keep"]))
            S.append(dict(srcdir="svc", args=args, out="svc/good_moq.go", rm=False, prior=prior, flags=[]))
    # the wide interface under every formatter value, known or not (an unknown value means gofmt)
    for fl in ([], ["-fmt", "noop"], ["-fmt", "cat"], ["-fmt", "tee"], ["-fmt", "goimports"]):
        S.append(dict(srcdir="big", args=["Store"], out=None, rm=False, prior="absent", flags=fl))
    S.append(dict(srcdir="big", args=["Store"], out="big/store_moq.go", rm=False, prior="absent", flags=["-fmt", "cat"]))
    # -pkg naming the source package's own name, for a file written into another directory (with
    # -skip-ensure: without it the self-check line is the F-09 class, a recorded finding)
    for fl in (["-pkg", "svc", "-skip-ensure"], ["-pkg", "svc", "-skip-ensure", "-stub", "-with-resets"]):
        S.append(dict(srcdir="svc", args=["Good", "Other"], out="gen/svc/mock.go", rm=False, prior="absent", flags=fl))
    for fl in (["-pkg", "mocks"], ["-pkg", "mocks", "-skip-ensure"], ["-pkg", "svc_test"]):
        S.append(dict(srcdir="svc", args=["Good", "Gen"], out="gen/mocks2/mock.go" if fl[1] == "mocks" else "svc/good_moq_test.go",
                      rm=False, prior="absent", flags=fl))
    # the module with the out-of-date go.mod: success, failure, with and without -out
    for args in (["Good"], ["Nope"]):
        for out in (None, "mod2/svc2/good_moq.go", "mod2/mocks/out.go"):
            S.append(dict(srcdir="mod2/svc2", args=args, out=out, rm=False, prior="absent", flags=[]))
    S.append(dict(srcdir="svc", args=["Good:1x"], out="svc/good_moq.go", rm=False, prior="own", flags=[]))
    S.append(dict(srcdir="svc", args=["Good:1x"], out=None, rm=False, prior="absent", flags=[]))
    if tier == "thorough":
        for _ in range(150):
            S.append(dict(srcdir=rnd.choice(["svc", "svc", "svc", "bad", "nosuchdir"]), args=rnd.choice(argsets),
                          out=rnd.choice(outs), rm=rnd.random() < 0.5, prior=rnd.choice(priors),
                          flags=rnd.choice([[], ["-stub"], ["-pkg", "other"], ["-with-resets"], ["-fmt", "noop"]])))
    for i, s in enumerate(S):
        s["id"] = "cli%d" % i
    return S


def moq_cmd(s, root=None):
    a = list(s["flags"])
    if s["out"]:
        a += ["-out", os.path.join(root, s["out"]) if (s.get("abs") and root) else s["out"]]
    if s["rm"]:
        a.append("-rm")
    return a + [s["srcdir"]] + s["args"]


def prime(root, s, own_text):
    """Puts the prior content at the -out path."""
    if not s["out"] or s["prior"] == "absent":
        return
    p = os.path.normpath(os.path.join(root, s["out"]))
    if os.path.isdir(p) or os.path.isfile(os.path.dirname(p)):
        return          # -out names a directory, or lies under a regular file: nothing can be put there
    if s["prior"] == "dirnonempty":
        os.makedirs(p, exist_ok=True)
        open(os.path.join(p, "keep.txt"), "w").write("x")
        return
    os.makedirs(os.path.dirname(p), exist_ok=True)
    if s["prior"] == "own":
        open(p, "w").write(own_text)
    elif s["prior"] in ("ownlonger", "ownnoop", "ownresets"):
        open(p, "w").write(own_text)
    elif s["prior"] == "garbage":
        open(p, "w").write("\x00\x01 this is not go {{{\n")
    elif s["prior"] == "stale":
        open(p, "w").write(STALE)
    elif s["prior"] == "otherpkg":
        # a valid Go file of *another* package (left over from before a rename, or from another -pkg)
        open(p, "w").write("package elsewhere\n\n// Leftover is all that is here.\ntype Leftover struct{}\n")


_GOFMT = []


def gofmt_rejects(text):
    """True when gofmt cannot parse the text (the gofmt binary of the toolchain in use)."""
    if not _GOFMT:
        try:
            root = subprocess.run(["go", "env", "GOROOT"], env=CLIENV, capture_output=True, text=True).stdout.strip()
            _GOFMT.append(os.path.join(root, "bin", "gofmt"))
        except Exception:
            _GOFMT.append("")
    if not _GOFMT[0] or not os.path.exists(_GOFMT[0]):
        return False
    p = subprocess.run([_GOFMT[0], "-e"], input=text, capture_output=True, text=True)
    return p.returncode != 0


def run_cli(moq, root, s, timeout=60):
    t0 = time.time()
    try:
        p = subprocess.run([moq] + moq_cmd(s, root), cwd=root, env=CLIENV, capture_output=True, text=True,
                           timeout=timeout, errors="replace")
        return dict(rc=p.returncode, stdout=p.stdout, stderr=p.stderr, wall=time.time() - t0)
    except subprocess.TimeoutExpired:
        return dict(rc=None, stdout="", stderr="TIMEOUT", wall=time.time() - t0)


# the moq runs of this stage get no GOFLAGS (with -mod=mod in the environment the go command may
# rewrite go.mod on its own account; the scratch modules need nothing fetched)
CLIENV = {k: v for k, v in pool.GOENV.items() if k != "GOFLAGS"}

ALLOWED = re.compile(r"^(interface not found: |.* is not an interface$|go/format: |goimports: |couldn't load source package: |"
                     r"must specify one interface|not enough arguments|remove |mkdir |open )")


def one(moq, base, s, own_cache):
    """Runs one scenario in a fresh copy of the base tree; returns observations + verdicts."""
    root = tempfile.mkdtemp(prefix="moqverif-cli-")
    try:
        shutil.copytree(base, root, dirs_exist_ok=True)
        # what moq itself would write for this configuration (for prior = own)
        key = (s["srcdir"], tuple(s["args"]), tuple(s["flags"]), s["prior"])
        if s["prior"] in ("own", "ownlonger", "ownnoop", "ownresets") and key not in own_cache:
            v = dict(s, out=None, rm=False)
            if s["prior"] == "ownlonger":
                v["args"] = list(s["args"]) + ["Gen", "Other:ZOther"]
            elif s["prior"] == "ownnoop":
                v["flags"] = [f for f in s["flags"] if f not in ("-fmt", "gofmt")] + ["-fmt", "noop"]
            elif s["prior"] == "ownresets":
                v["flags"] = list(s["flags"]) + ["-with-resets", "-stub"]
            r0 = run_cli(moq, root, v)
            if r0["rc"] != 0:
                # the scenario's own command fails: the earlier output is that of a command that worked
                r0 = run_cli(moq, root, dict(v, args=["Good"] + (["Gen", "Other:ZOther"] if s["prior"] == "ownlonger" else [])))
            own_cache[key] = r0["stdout"] if r0["rc"] == 0 else "package svc\n"
        prime(root, s, own_cache.get(key, ""))
        # what the same command prints when no -out is given, in the same tree (the prior content in
        # place unless -rm removes it first): on success the file must be exactly this
        ref = None
        if s["out"] and s["prior"] != "dirnonempty":
            ref_root = tempfile.mkdtemp(prefix="moqverif-cliref-")
            try:
                shutil.copytree(base, ref_root, dirs_exist_ok=True)
                if not s["rm"]:
                    prime(ref_root, s, own_cache.get(key, ""))
                r1 = run_cli(moq, ref_root, dict(s, out=None, rm=False))
                ref = r1["stdout"] if r1["rc"] == 0 else None
            finally:
                shutil.rmtree(ref_root, ignore_errors=True)
        before = snapshot(root)
        r = run_cli(moq, root, s)
        after = snapshot(root)
        verdicts = {}
        outp = os.path.normpath(s["out"]) if s["out"] else None
        changed = sorted(k for k in set(before) | set(after) if before.get(k) != after.get(k))
        # ---- C19
        if r["rc"] is None:
            verdicts["C19"] = "moq did not terminate within the watchdog"
        elif r["rc"] not in (0, 1):
            verdicts["C19"] = "exit status %s: %s" % (r["rc"], r["stderr"][:300])
        elif "panic:" in r["stderr"] or "fatal error" in r["stderr"] or "goroutine " in r["stderr"]:
            verdicts["C19"] = "Go runtime crash: " + r["stderr"][:300]
        elif r["rc"] == 1:
            first = r["stderr"].splitlines()[0] if r["stderr"].strip() else ""
            if not first or not ALLOWED.match(first):
                verdicts["C19"] = "diagnostic does not name the offending type or stage: %r" % first[:200]
        # ---- C18
        allowed = set()
        if outp:
            allowed.add(outp)
            d = os.path.dirname(outp)
            while d:
                allowed.add(d + "/")
                d = os.path.dirname(d)
        extra = [c for c in changed if c not in allowed and c.rstrip("/") + "/" not in allowed]
        if extra:
            verdicts["C18"] = "paths other than -out and its parents changed: %s" % extra[:5]
        if not outp and changed:
            verdicts["C18"] = "no -out given but the tree changed: %s" % changed[:5]
        # ---- C17
        if r["rc"] == 1:
            if "package " in r["stdout"] and "func (mock" in r["stdout"]:
                verdicts["C17"] = "failure, but Go source was written to standard output"
            if not r["stderr"].strip():
                verdicts["C17"] = "failure without a diagnostic on standard error"
            if outp:
                b, a = before.get(outp), after.get(outp)
                isdir = (outp + "/") in before
                if a != b and not (s["rm"] and a is None):
                    verdicts["C17"] = "failure, but the -out file changed (%s -> %s)" % (b, a)
                if not s["rm"] and (outp + "/" in before) != (outp + "/" in after):
                    verdicts["C17"] = "failure, but the -out path changed kind"
        elif r["rc"] == 0:
            if outp:
                if r["stdout"] != "":
                    verdicts["C17"] = "success with -out, but standard output is not empty"
                p = os.path.join(root, outp)
                if not os.path.isfile(p):
                    verdicts["C17"] = "success, but the -out file does not exist"
                else:
                    text = open(p).read()
                    if "DO NOT EDIT" not in text.splitlines()[0:1][0] if text else True:
                        verdicts["C17"] = "success, but the -out file is not a complete generated file"
                    r["file"] = text
                    # C01 in the real destination: the package the file was written into must build
                    # (in place, or a package named with -pkg; without -pkg a file put elsewhere is
                    # the user's mistake, not moq's)
                    ddir = os.path.dirname(outp)
                    if (ddir == os.path.normpath(s["srcdir"]) or "-pkg" in s["flags"]) and not s["srcdir"].startswith("mod2"):
                        pb = subprocess.run(["go", "build", "./" + ddir], cwd=root, env=CLIENV, capture_output=True, text=True)
                        if pb.returncode != 0:
                            msg = " | ".join((pb.stderr or pb.stdout).splitlines()[:4])
                            which = ["C01"]
                            if "-pkg" in s["flags"] and ("undefined:" in msg or "imported and not used" in msg or "import cycle" in msg):
                                which.append("C10")
                            verdicts["+".join(which)] = "success, but the package the file was written into does not build: " + msg[:400]
                    if ref is not None and text != ref:
                        which = ["C17"]
                        mocks_file = sorted(set(re.findall(r"^type (\w+) struct", text, re.M)))
                        mocks_ref = sorted(set(re.findall(r"^type (\w+) struct", ref, re.M)))
                        if mocks_file != mocks_ref:
                            which.append("C20")
                        if not any(f == "noop" for f in s["flags"]):
                            which.append("C16")
                        resets = lambda t: sorted(set(re.findall(r"^func \(mock \*\w+(?:\[[^\]]*\])?\) (Reset\w*)\(", t, re.M)))
                        if resets(text) != resets(ref):
                            which.append("C08")     # reset methods present/absent against the flag
                        if gofmt_rejects(text):
                            which.append("C01")     # what is on disk is not a Go file any more
                        verdicts["+".join(which)] = ("success, but the -out file is not what the same command prints to standard output "
                                                     "(%d vs %d bytes; mock types in the file %s, expected %s)" % (len(text), len(ref), mocks_file, mocks_ref))
            else:
                if not r["stdout"].startswith("// Code generated by moq; DO NOT EDIT."):
                    verdicts["C17"] = "success, but standard output is not the generated file"
        return dict(id=s["id"], s=s, rc=r["rc"], stdout_len=len(r["stdout"]), stderr=r["stderr"][:400],
                    changed=changed, verdicts=verdicts, file=r.get("file"), stdout=r["stdout"] if r["rc"] == 0 else "",
                    wall=round(r["wall"], 2), prior_kind=s["prior"],
                    prior_exists=bool(outp and (outp in before or outp + "/" in before)))
    finally:
        shutil.rmtree(root, ignore_errors=True)


def model_line(o):
    """The scenario as the Lean model sees it; library results are taken from the observation."""
    s = o["s"]
    q = lambda x: '"' + x.replace("\\", "\\\\").replace('"', '\\"').replace("\n", "\\n").replace("\t", "\\t") + '"'
    first = o["stderr"].splitlines()[0] if o["stderr"].strip() else ""
    new, mock = '(new ok "")', '(mock ok "")'
    fr = fm = fw = ""
    if o["rc"] == 0:
        mock = "(mock ok %s)" % q((o.get("file") if s["out"] else o.get("stdout")) or "")
    elif first.startswith("couldn't load source package"):
        new = "(new err %s)" % q(first)
    elif first.startswith("remove "):
        fr = q(first)
    elif first.startswith("mkdir "):
        mock = '(mock ok "T")'
        fm = q(first)
    elif first.startswith("open "):
        mock = '(mock ok "T")'
        fw = q(first)
    elif first == "not enough arguments":
        pass
    else:
        mock = "(mock err %s)" % q(first)
    prior = "absent"
    if o["prior_exists"]:
        prior = "dir" if s["prior"] == "dirnonempty" or s["out"] == "svc" else q("PRIOR")
    return '(cli %s (out %s) (rm %s) (args %s) (prior %s) %s %s (fremove %s) (fmkdir %s) (fwrite %s))' % (
        q(o["id"]), q(s["out"] or ""), "true" if s["rm"] else "false",
        " ".join(q(a) for a in [s["srcdir"]] + s["args"]), prior, new, mock, fr, fm, fw)


def run(cdir, seed, tier, prop, log=print):
    outp = os.path.join(cdir, "cli-%d-%s.json" % (seed, tier))
    with build.Lock("lock-cli"):
        if os.path.exists(outp):
            res = json.load(open(outp))
        else:
            t0 = time.time()
            res = _run(cdir, seed, tier, log)
            res["wall_s"] = round(time.time() - t0, 1)
            json.dump(res, open(outp, "w"))
    out = {"programs": res["programs"], "coverage": dict(res["coverage"], cli_wall_s=res.get("wall_s")),
           "samples": res["samples"][:2], "violations": [], "known": [], "disagreements": []}
    for v in res["violations"]:
        if prop in v["props"]:
            path = os.path.join(build.VERIF, "replays", "%s-%s-%d-%s" % (prop, tier, seed, v["id"]))
            os.makedirs(path, exist_ok=True)
            json.dump(v, open(os.path.join(path, "replay.json"), "w"), indent=1)
            out["violations"].append({"what": v["what"], "replay": path})
    for d in res["disagreements"]:
        if prop in d["props"]:
            out["disagreements"].append(d)
    return out


def _run(cdir, seed, tier, log):
    import threading, queue
    rnd = random.Random(seed * 31 + 7)
    moq, driver = os.path.join(cdir, "moq"), os.path.join(cdir, "driver")
    base = tempfile.mkdtemp(prefix="moqverif-clibase-")
    res = {"violations": [], "disagreements": [], "samples": [], "coverage": {}}
    try:
        make_tree(base)
        S = scenarios(rnd, tier)
        own_cache = {}
        obs = [None] * len(S)
        q = queue.Queue()
        for i, s in enumerate(S):
            q.put((i, s))

        def work():
            while True:
                try:
                    i, s = q.get_nowait()
                except queue.Empty:
                    return
                try:
                    obs[i] = one(moq, base, s, own_cache)
                except Exception as ex:    # a scenario the harness itself cannot set up: reported, not fatal
                    import traceback
                    obs[i] = dict(id=s["id"], s=s, rc=None, stdout_len=0, stderr="HARNESS: " + repr(ex) + traceback.format_exc()[-300:],
                                  changed=[], verdicts={}, file=None, stdout="", wall=0, prior_kind=s["prior"], prior_exists=False,
                                  harness_error=True)

        ts = [threading.Thread(target=work) for _ in range(12)]
        [t.start() for t in ts]
        [t.join() for t in ts]
        # C15: fixed point and -rm independence, on the successful in-place runs
        groups = {}
        for o in obs:
            s = o["s"]
            if s["out"] and o["rc"] == 0:
                groups.setdefault((s["srcdir"], tuple(s["args"]), tuple(s["flags"]), s["out"], s["rm"], bool(s.get("abs"))), []).append(o)
        nfix = 0
        rmgroups = {}
        for o in obs:
            s = o["s"]
            if s["out"] and s["rm"] and s["prior"] != "dirnonempty" and o["rc"] in (0, 1):
                rmgroups.setdefault((s["srcdir"], tuple(s["args"]), tuple(s["flags"]), s["out"], bool(s.get("abs"))), []).append(o)
        for key, os_ in rmgroups.items():
            outcomes = {o["prior_kind"]: (o["rc"], o.get("file")) for o in os_}
            if len(set(outcomes.values())) > 1:
                res["violations"].append({"id": os_[0]["id"] + "-rmdep", "props": ["C15"],
                                          "what": "with -rm the outcome depends on what was at the -out path before: %s" % {k: v[0] for k, v in outcomes.items()},
                                          "scenarios": [o["s"] for o in os_], "stderr": [o["stderr"][:200] for o in os_]})
        for key, os_ in groups.items():
            texts = {o["prior_kind"]: o["file"] for o in os_}
            if key[4]:  # -rm: every prior content must give the same bytes
                if len(set(texts.values())) > 1:
                    res["violations"].append({"id": os_[0]["id"] + "-rm", "props": ["C15"],
                                              "what": "with -rm the output depends on the prior content of -out: %s" % sorted(texts),
                                              "scenarios": [o["s"] for o in os_]})
            if "own" in texts and "absent" in texts:
                nfix += 1
                if texts["own"] != texts["absent"]:
                    res["violations"].append({"id": os_[0]["id"] + "-fixpoint", "props": ["C15"],
                                              "what": "moq's own output left in place does not reproduce itself",
                                              "scenarios": [o["s"] for o in os_]})
        for o in obs:
            s = o["s"]
            # without -rm, own previous output in the source package must not break regeneration
            if s["prior"] == "own" and not s["rm"] and s["out"] and s["out"].startswith("svc/") and s["out"].count("/") == 1 \
                    and s["srcdir"] == "svc" and s["args"] and all(re.match(r"^(Good|Other|Gen)(:\w+)?$", a) and not a.endswith(":1x") for a in s["args"]) \
                    and o["rc"] != 0:
                res["violations"].append({"id": o["id"] + "-regen", "props": ["C15"],
                                          "what": "regeneration over moq's own output fails: " + o["stderr"][:200], "scenario": s})
            for k, v in o["verdicts"].items():
                res["violations"].append({"id": o["id"], "props": k.split("+"), "what": v, "scenario": s,
                                          "cmd": "moq " + " ".join(moq_cmd(s)), "rc": o["rc"], "stderr": o["stderr"]})
        res["coverage"] = {"cli_scenarios": len(S), "harness_errors": [o["stderr"][:300] for o in obs if o.get("harness_error")][:5], "cli_failures_observed": sum(1 for o in obs if o["rc"] == 1),
                           "cli_successes_observed": sum(1 for o in obs if o["rc"] == 0),
                           "fixed_point_pairs": nfix, "rm_groups": sum(1 for k in groups if k[4]),
                           "error_kinds": sorted({(o["stderr"].splitlines() or [""])[0].split(":")[0][:40] for o in obs if o["rc"] == 1})}
        # model differential
        lines = [model_line(o) for o in obs if o["rc"] in (0, 1)]
        model = pool.run_driver(driver, lines) if os.path.exists(driver) else {}
        nd = 0
        for o in obs:
            if o["rc"] not in (0, 1):
                continue
            m = model.get(o["id"])
            if not m or m.get("cli") != "ok":
                res["disagreements"].append({"id": o["id"], "props": ["C15", "C17", "C18", "C19"],
                                             "what": "model could not interpret the regenerated run(): %s" % (m or {}).get("cli")})
                continue
            s = o["s"]
            exp_fail = m.get("err") != "nil"
            diffs = []
            if exp_fail != (o["rc"] == 1):
                diffs.append("model err=%r, real exit=%s" % (m.get("err"), o["rc"]))
            if o["rc"] == 0:
                if (m.get("stdout") != "") != (o["stdout_len"] > 0):
                    diffs.append("routing of the output differs (stdout vs -out)")
                effs = [e.split(" ")[0] for e in m.get("effects", "").split(";") if e]
                want_changed = bool(s["out"])
                if ("writefile" in effs) != want_changed:
                    diffs.append("model effects %s vs -out=%s" % (effs, s["out"]))
            if m.get("spec") != "true":
                diffs.append("interpreter and closed form disagree")
            if diffs:
                nd += 1
                res["disagreements"].append({"id": o["id"], "props": ["C15", "C17", "C18", "C19"],
                                             "what": "; ".join(diffs) + " on moq " + " ".join(moq_cmd(s))})
        res["programs"] = len(S)
        res["samples"] = [{"cmd": "moq " + " ".join(moq_cmd(o["s"])), "prior": o["s"]["prior"], "exit": o["rc"],
                           "stderr": (o["stderr"].splitlines() or [""])[0][:120], "changed": o["changed"][:4]}
                          for o in obs[:3] + obs[60:62]]
    finally:
        shutil.rmtree(base, ignore_errors=True)
    return res
