"""Runtime stage (P-rt): real moq output compiled and executed against the sequential semantics
of the Lean model, plus stress runs under the race detector / a watchdog (search only)."""
import json, os, random, re, shutil, subprocess, tempfile, time
from . import build, pool, gen

MOD = "example.com/rt"

RTLIB = r'''// Package rtlib maps identity tokens to Go values and back.
package rtlib

import (
	"fmt"
	"reflect"
	"strconv"
	"sync"
	"sync/atomic"
)

// Progress counts completed operations of the stress runs: the watchdog tells a deadlock (no
// progress at all) from a slow, loaded machine (progress, however little).
var Progress int64

// Tick records one completed operation.
func Tick() { atomic.AddInt64(&Progress, 1) }

// Ticks reads the counter.
func Ticks() int64 { return atomic.LoadInt64(&Progress) }

var (
	mu     sync.Mutex
	ptrs   = map[int]*int{}
	slices = map[int][]int{}
	anys   = map[int][]any{}
	maps   = map[int]map[string]int{}
	chans  = map[int]chan int{}
	byPtr  = map[uintptr]int{}
)

// TokErr is an error carrying a token.
type TokErr struct{ N int }

func (e *TokErr) Error() string { return "err" + strconv.Itoa(e.N) }

var errs = map[int]*TokErr{}

// UserPanic is what configured functions panic with.
type UserPanic struct{ N int }

func MkInt(t int) int { return t }
func MkStr(t int) string {
	if t == 0 {
		return ""
	}
	return "t" + strconv.Itoa(t)
}
func MkPtr(t int) *int {
	if t == 0 {
		return nil
	}
	mu.Lock()
	defer mu.Unlock()
	if p, ok := ptrs[t]; ok {
		return p
	}
	p := new(int)
	ptrs[t] = p
	byPtr[reflect.ValueOf(p).Pointer()] = t
	return p
}
func MkSlice(t int) []int {
	if t == 0 {
		return nil
	}
	mu.Lock()
	defer mu.Unlock()
	if s, ok := slices[t]; ok {
		return s
	}
	s := make([]int, 2, 2)
	s[0] = t
	slices[t] = s
	byPtr[reflect.ValueOf(s).Pointer()] = t
	return s
}
func MkAnys(t int) []any {
	if t == 0 {
		return nil
	}
	mu.Lock()
	defer mu.Unlock()
	if s, ok := anys[t]; ok {
		return s
	}
	s := make([]any, 2, 2)
	s[0] = t
	anys[t] = s
	byPtr[reflect.ValueOf(s).Pointer()] = t
	return s
}
func MkMap(t int) map[string]int {
	if t == 0 {
		return nil
	}
	mu.Lock()
	defer mu.Unlock()
	if m, ok := maps[t]; ok {
		return m
	}
	m := map[string]int{}
	maps[t] = m
	byPtr[reflect.ValueOf(m).Pointer()] = t
	return m
}
func MkChan(t int) chan int {
	if t == 0 {
		return nil
	}
	mu.Lock()
	defer mu.Unlock()
	if c, ok := chans[t]; ok {
		return c
	}
	c := make(chan int)
	chans[t] = c
	byPtr[reflect.ValueOf(c).Pointer()] = t
	return c
}
func MkAny(t int) any {
	if t == 0 {
		return nil
	}
	return t
}
func MkErr(t int) error {
	if t == 0 {
		return nil
	}
	mu.Lock()
	defer mu.Unlock()
	if e, ok := errs[t]; ok {
		return e
	}
	e := &TokErr{t}
	errs[t] = e
	return e
}

// Tok is the token of a value ("?" when its identity is not one this package handed out).
func Tok(v any) string {
	if v == nil {
		return "0"
	}
	if e, ok := v.(*TokErr); ok {
		return strconv.Itoa(e.N)
	}
	rv := reflect.ValueOf(v)
	switch rv.Kind() {
	case reflect.Int, reflect.Int64, reflect.Int32:
		return strconv.FormatInt(rv.Int(), 10)
	case reflect.String:
		s := rv.String()
		if s == "" {
			return "0"
		}
		return s[1:]
	case reflect.Func:
		if rv.IsNil() {
			return "0"
		}
		return "?"
	case reflect.Ptr, reflect.Map, reflect.Chan, reflect.Slice:
		if rv.IsNil() {
			return "0"
		}
		mu.Lock()
		defer mu.Unlock()
		if t, ok := byPtr[rv.Pointer()]; ok {
			return strconv.Itoa(t)
		}
		return "?"
	}
	return "?"
}

// Known reports whether a slice is one MkSlice/MkAnys returned (same backing array and length).
func Known(v any) bool {
	rv := reflect.ValueOf(v)
	if rv.Kind() != reflect.Slice || rv.IsNil() {
		return false
	}
	mu.Lock()
	defer mu.Unlock()
	_, ok := byPtr[rv.Pointer()]
	return ok && rv.Len() == 2
}

// Records renders the result of an accessor: field=token per record.
func Records(v any) string {
	rv := reflect.ValueOf(v)
	s := strconv.Itoa(rv.Len()) + "["
	for i := 0; i < rv.Len(); i++ {
		if i > 0 {
			s += "|"
		}
		r := rv.Index(i)
		for j := 0; j < r.NumField(); j++ {
			if j > 0 {
				s += ","
			}
			s += r.Type().Field(j).Name + "=" + Tok(r.Field(j).Interface())
		}
	}
	return s + "]"
}

// Outcome renders a recovered panic value.
func Outcome(r any) string {
	switch x := r.(type) {
	case UserPanic:
		return "panic-user " + strconv.Itoa(x.N)
	case string:
		return "panic-nil " + x
	case error:
		return "panic-runtime " + x.Error()
	}
	return fmt.Sprintf("panic-other %v", r)
}
'''

KINDS = {
    "int": ("int", "rtlib.MkInt(%d)"), "string": ("string", "rtlib.MkStr(%d)"),
    "pint": ("*int", "rtlib.MkPtr(%d)"), "sint": ("[]int", "rtlib.MkSlice(%d)"),
    "map": ("map[string]int", "rtlib.MkMap(%d)"), "chan": ("chan int", "rtlib.MkChan(%d)"),
    "any": ("any", "rtlib.MkAny(%d)"), "err": ("error", "rtlib.MkErr(%d)"),
    "LN": ("LN", "LN(rtlib.MkInt(%d))"),
    "T": ("T", "rtlib.MkStr(%d)"), "S": ("S", "rtlib.MkInt(%d)"),
    # a map type that can clone itself: forwarding or recording a copy instead of the value shows
    # in the token (identity of the map)
    "CM": ("CM", "CM(rtlib.MkMap(%d))"),
    # named func types whose de-capitalised names are predeclared identifiers the generated body
    # uses (parameters only, always the nil func: token 0)
    "Panic": ("Panic", "Panic(nil) /*%d*/"), "Nil": ("Nil", "Nil(nil) /*%d*/"), "Append": ("Append", "Append(nil) /*%d*/"),
}
FUNC_KINDS = ("Panic", "Nil", "Append")
PNAMES = ["a", "b", "ctx", "id", "url", "s", "n", "err", "v", "key", "val", "Http", "x1", "sOut", "sync", "in"]
MNAMES = ["Get", "Set", "Do", "Run", "Close", "Put", "List", "Find", "Id", "Url", "refresh", "Api", "get", "ID"]


def gen_iface(rnd, idx):
    generic = rnd.random() < 0.3
    kinds = ["int", "string", "pint", "sint", "map", "chan", "any", "err", "LN", "CM"] + (["T", "S"] if generic else [])
    methods = []
    for name in rnd.sample(MNAMES, rnd.choice([1, 2, 2, 3, 4])):
        np_ = rnd.choice([0, 1, 2, 2, 3, 5])
        named = rnd.random() < 0.6
        ps = []
        names = rnd.sample(PNAMES, np_)
        for i in range(np_):
            ps.append({"name": names[i] if named else "",
                       "kind": rnd.choice(FUNC_KINDS) if rnd.random() < 0.08 else rnd.choice(kinds)})
        variadic = None
        if np_ and rnd.random() < 0.35:
            variadic = rnd.choice(["int", "any"])
            ps[-1]["kind"] = "v" + variadic
        nr = rnd.choice([0, 1, 1, 2, 3])
        rs = [{"kind": rnd.choice(kinds)} for _ in range(nr)]
        methods.append({"name": name, "params": ps, "results": rs, "variadic": variadic})
    # a hook whose single unnamed parameter gets its name from a type called like a builtin the
    # generated body uses; its function field is left nil and the script calls it (C07, C12)
    if rnd.random() < 0.3:
        methods.append({"name": "Hook", "params": [{"name": "", "kind": rnd.choice(FUNC_KINDS)}], "results": [],
                        "variadic": None, "keep_nil": True})
    # some interfaces get their first method through an embedded interface (same method set)
    return {"name": "I%d" % idx, "generic": generic, "methods": methods, "alias_funcs": rnd.random() < 0.5,
            "embed": (not generic) and len(methods) >= 2 and rnd.random() < 0.35}


def gotype(k):
    if k == "vint":
        return "...int"
    if k == "vany":
        return "...any"
    return KINDS[k][0]


def gotype_inst(k):
    return {"T": "string", "S": "int"}.get(k, gotype(k))


def mk(k, tok):
    if k == "vint":
        return "rtlib.MkSlice(%d)..." % tok
    if k == "vany":
        return "rtlib.MkAnys(%d)..." % tok
    return KINDS[k][1] % tok


def iface_src(pkg, it):
    tdecl = "[T any, S LC]" if it["generic"] else ""
    lines = []
    for m in it["methods"]:
        ps = ", ".join(((p["name"] + " ") if p["name"] else "") + gotype(p["kind"]) for p in m["params"])
        rs = ", ".join(gotype(r["kind"]) for r in m["results"])
        if len(m["results"]) > 1:
            rs = "(" + rs + ")"
        lines.append("\t%s(%s) %s" % (m["name"], ps, rs))
    base = ""
    if it.get("embed"):
        base = "// B%s is embedded by %s.\ntype B%s interface {\n%s\n}\n\n" % (it["name"], it["name"], it["name"], lines[0])
        lines[0] = "\tB%s" % it["name"]
    return (("package %s\n\ntype LN int\ntype LC interface{ ~int | ~int64 }\n\n// CM can clone itself.\ntype CM map[string]int\n\n"
             "// package-level values spelled like parameter names (a parameter shadows them inside the method)\nvar val = 424242\n\nconst key = 434343\n\n"
             "// Clone returns a copy.\nfunc (c CM) Clone() CM {\n\tout := CM{}\n\tfor k, v := range c {\n\t\tout[k] = v\n\t}\n\treturn out\n}\n\n" % pkg) + base +
            ((("// Panic, Nil and Append are aliases of func types, named like builtins.\ntype Panic = func(v any)\ntype Nil = func()\ntype Append = func(int)\n\n"
               if it.get("alias_funcs") else
               "// Panic, Nil and Append are func types named like builtins.\ntype Panic func(v any)\ntype Nil func()\ntype Append func(int)\n\n") +
              "// %s is generated.\ntype %s%s interface {\n%s\n}\n") % (it["name"], it["name"], tdecl, "\n".join(lines))))


def gen_script(rnd, it, flags, n_ops):
    """Behaviours per method and a top-level script; tokens are fresh integers."""
    tok = [100]

    def fresh():
        tok[0] += 1
        return tok[0]

    ms = it["methods"]

    def op(depth):
        c = rnd.random()
        m = rnd.choice(ms)
        if c < 0.55:
            return ["call", m["name"]] + [0 if p["kind"] in FUNC_KINDS else
                                          fresh() if (rnd.random() < 0.9 or p["kind"] in ("vint", "vany")) else 0
                                          for p in m["params"]]
        if c < 0.85 or not flags["resets"]:
            return ["calls", m["name"]]
        if c < 0.95:
            return ["reset", m["name"]]
        return ["resetall"]

    funcs = {}
    for m in ms:
        if m.get("keep_nil") or rnd.random() < (0.3 if flags["stub"] else 0.12):
            continue  # nil function field
        nops = rnd.choice([0, 0, 1, 2])
        ops = [op(1) for _ in range(nops)]
        funcs[m["name"]] = {"ops": ops, "panic": fresh() if rnd.random() < 0.15 else None,
                            "results": [fresh() if rnd.random() < 0.85 else 0 for _ in m["results"]]}
    script = [op(0) for _ in range(n_ops)]
    for m in ms:
        if m.get("keep_nil"):
            script.insert(rnd.randrange(len(script) + 1), ["call", m["name"], 0])
            script.append(["calls", m["name"]])
    # epilogue: a snapshot that must survive a reset followed by further calls (per method, when resets exist)
    if flags["resets"]:
        for m in ms[:2]:
            def call():
                return ["call", m["name"]] + [0 if p["kind"] in FUNC_KINDS else fresh() for p in m["params"]]
            script += [call(), call(), ["calls", m["name"]], rnd.choice([["reset", m["name"]], ["resetall"]]),
                       call(), ["calls", m["name"]], call(), call(), call()]
    else:
        m = ms[0]
        def call0():
            return ["call", m["name"]] + [0 if p["kind"] in FUNC_KINDS else fresh() for p in m["params"]]
        script += [call0(), ["calls", m["name"]]] + [call0() for _ in range(5)] + [["calls", m["name"]]]
    return funcs, script


def op_sexp(o):
    if o[0] == "call":
        return '(call "%s" %s)' % (o[1], " ".join(str(t) for t in o[2:]))
    if o[0] == "calls":
        return '(calls "%s")' % o[1]
    if o[0] == "reset":
        return '(reset "%s")' % o[1]
    return "(resetall)"


def go_ops(it, ops, indent, snapctr):
    """Go statements performing ops (used at top level and inside callbacks)."""
    by = {m["name"]: m for m in it["methods"]}
    out = []
    for o in ops:
        if o[0] == "call":
            m = by[o[1]]
            args = ", ".join(mk(p["kind"], t) for p, t in zip(m["params"], o[2:]))
            nres = len(m["results"])
            if nres:
                lhs = ", ".join("r%d" % i for i in range(nres))
                out.append("%s{ %s := m.%s(%s); res = \"ret \" + %s }" % (
                    indent, lhs, m["name"], args, " + \",\" + ".join("rtlib.Tok(r%d)" % i for i in range(nres))))
            else:
                out.append("%sm.%s(%s); res = \"ret \"" % (indent, m["name"], args))
        elif o[0] == "calls":
            snapctr[0] += 1
            out.append('%s{ c := m.%sCalls(); s := rtlib.Records(c); out = append(out, "snap %s "+s); snaps = append(snaps, func() bool { return rtlib.Records(c) == s }); res = "ret " }' % (
                indent, o[1], o[1]))
        elif o[0] == "reset":
            out.append('%sm.Reset%sCalls(); res = "ret "' % (indent, o[1]))
        else:
            out.append('%sm.ResetCalls(); res = "ret "' % indent)
    return out


def driver_src(pkg, it, mock, maxdepth, funcs, script):
    inst = "[string, int]" if it["generic"] else ""
    L = ["package %s" % pkg, "", 'import "example.com/rt/rtlib"', "",
         "// Run executes the script against the real generated mock.",
         "func Run() (out []string, stable bool) {",
         "\tvar snaps []func() bool", "\tdepth := 0", "\tres := \"\"", "\t_, _ = res, depth",
         "\tm := &%s%s{}" % (mock, inst)]
    sc = [0]
    for m in it["methods"]:
        f = funcs.get(m["name"])
        if f is None:
            continue
        ps = ", ".join("p%d %s" % (i, gotype_inst(p["kind"])) for i, p in enumerate(m["params"]))
        rs = ", ".join(gotype_inst(r["kind"]) for r in m["results"])
        L.append("\tm.%sFunc = func(%s) (%s) {" % (m["name"], ps, rs))
        toks = " + \",\" + ".join("rtlib.Tok(p%d)" % i for i in range(len(m["params"]))) or '""'
        spread = "nospread"
        if m["variadic"]:
            L.append('\t\tsp := "nospread"; if rtlib.Known(p%d) { sp = "spread" }' % (len(m["params"]) - 1))
            L.append('\t\tout = append(out, "inv %s "+%s+" "+sp)' % (m["name"], toks))
        else:
            L.append('\t\tout = append(out, "inv %s "+%s+" %s")' % (m["name"], toks, spread))
        if f["ops"]:
            L.append("\t\tif depth < %d {" % maxdepth)
            L.append("\t\t\tdepth++")
            L.append("\t\t\tfunc() {")
            L.append("\t\t\t\tdefer func() { depth-- }()")
            L += go_ops(it, f["ops"], "\t\t\t\t", sc)
            L.append("\t\t\t}()")
            L.append("\t\t}")
        if f["panic"] is not None:
            L.append("\t\tpanic(rtlib.UserPanic{%d})" % f["panic"])
        elif m["results"]:
            L.append("\t\treturn " + ", ".join((KINDS[r["kind"]][1] % t) for r, t in zip(m["results"], f["results"])))
        L.append("\t}")
    for o in script:
        L.append("\tfunc() {")
        L.append('\t\tdefer func() { if r := recover(); r != nil { depth = 0; out = append(out, rtlib.Outcome(r)) } else { out = append(out, res) } }()')
        L += go_ops(it, [o], "\t\t", sc)
        L.append("\t}()")
    L.append("\tstable = true")
    L.append("\tfor _, f := range snaps { if !f() { stable = false } }")
    L.append("\treturn out, stable")
    L.append("}")
    L.append("")
    L.append(stress_src(it, mock, inst))
    return "\n".join(L) + "\n"


def stress_src(it, mock, inst):
    """Concurrent stress: G goroutines call every method K times with goroutine-tagged ints where
    possible, accessors run concurrently, callbacks re-enter the mock and one blocks."""
    L = ["// Stress runs concurrent operations; it returns a diagnostic or \"\".",
         "func Stress(G, K int, withResets bool) string {",
         "\tm := &%s%s{}" % (mock, inst),
         "\tdone := make(chan struct{})",
         "\tvar wg, acc = new(syncWG), new(syncWG)", "\t_ = acc"]
    # callbacks: re-enter accessor of every method (no lock may be held)
    for mm in it["methods"]:
        ps = ", ".join("p%d %s" % (i, gotype_inst(p["kind"])) for i, p in enumerate(mm["params"]))
        rs = ", ".join(gotype_inst(r["kind"]) for r in mm["results"])
        L.append("\tm.%sFunc = func(%s) (%s) {" % (mm["name"], ps, rs))
        for m2 in it["methods"]:
            L.append("\t\t_ = m.%sCalls()" % m2["name"])
        if mm["results"]:
            L.append("\t\treturn " + ", ".join((KINDS[r["kind"]][1] % 0) for r in mm["results"]))
        L.append("\t}")
    L.append("\tfor g := 0; g < G; g++ {")
    L.append("\t\twg.Add(1)")
    L.append("\t\tgo func(g int) {")
    L.append("\t\t\tdefer wg.Done()")
    L.append("\t\t\tfor k := 0; k < K; k++ {")
    for mm in it["methods"]:
        args = []
        for p in mm["params"]:
            if p["kind"] in ("int", "S"):
                args.append("g*1000000+k+1")
            elif p["kind"] == "LN":
                args.append("LN(g*1000000+k+1)")
            else:
                args.append(mk(p["kind"], 0))
        L.append("\t\t\t\tm.%s(%s)" % (mm["name"], ", ".join(args)))
    L.append("\t\t\t\trtlib.Tick()")
    L.append("\t\t\t}")
    L.append("\t\t}(g)")
    L.append("\t}")
    # concurrent readers: prefix property between successive snapshots (no resets) and lengths monotone
    L.append("\tbad := make(chan string, 16)")
    L.append("\tfor r := 0; r < 2; r++ {")
    L.append("\t\tacc.Add(1)")
    L.append("\t\tgo func() {")
    L.append("\t\t\tdefer acc.Done()")
    L.append("\t\t\tfor {")
    L.append("\t\t\t\tselect { case <-done: return; default: }")
    for mm in it["methods"]:
        L.append("\t\t\t\t{ a := m.%sCalls(); b := m.%sCalls(); _ = rtlib.Records(a); if !withResets && (len(b) < len(a) || (len(a) > 0 && &a[0] != &b[0] && rtlib.Records(a) != rtlib.Records(b[:len(a)]))) { select { case bad <- \"snapshot of %s is not a prefix of a later one\": default: } } }" % (mm["name"], mm["name"], mm["name"]))
    L.append("\t\t\t\trtlib.Tick()")
    L.append("\t\t\t\tif withResets {")
    for mm in it["methods"][:1]:
        L.append("\t\t\t\t\tresetOne(m)")
    L.append("\t\t\t\t}")
    L.append("\t\t\t}")
    L.append("\t\t}()")
    L.append("\t}")
    L.append("\twg.Wait()")
    L.append("\tclose(done)")
    L.append("\tacc.Wait()")
    L.append("\tselect { case s := <-bad: return s; default: }")
    L.append("\tif !withResets {")
    for mm in it["methods"]:
        L.append("\t\tif n := len(m.%sCalls()); n != G*K { return \"lost or duplicated records of %s: \" + itoa(n) + \" of \" + itoa(G*K) }" % (mm["name"], mm["name"]))
        # per-goroutine order for methods with an int-like first tagged parameter
        idx = [i for i, p in enumerate(mm["params"]) if p["kind"] in ("int", "S", "LN")]
        if idx:
            L.append("\t\t{ last := map[int]int{}; for _, r := range m.%sCalls() { v := fieldInt(r, %d); g, k := v/1000000, v%%1000000; if k != last[g]+1 { return \"records of %s out of program order or torn\" }; last[g] = k } }" % (mm["name"], idx[0], mm["name"]))
    L.append("\t}")
    L.append("\treturn \"\"")
    L.append("}")
    return "\n".join(L)


HELPERS = r'''package %s

import (
	"reflect"
	"strconv"
	"sync"
)

type syncWG = sync.WaitGroup

func itoa(n int) string { return strconv.Itoa(n) }

func fieldInt(rec any, i int) int { return int(reflect.ValueOf(rec).Field(i).Int()) }
'''


def run(cdir, seed, tier, prop, log=print):
    outp = os.path.join(cdir, "rt-%d-%s.json" % (seed, tier))
    with build.Lock("lock-rt"):
        if os.path.exists(outp):
            res = json.load(open(outp))
        else:
            root = tempfile.mkdtemp(prefix="moqverif-rt-")
            t0 = time.time()
            try:
                res = _run(cdir, seed, tier, root, log)
            finally:
                shutil.rmtree(root, ignore_errors=True)
            res["wall_s"] = round(time.time() - t0, 1)
            json.dump(res, open(outp, "w"))
    return select(res, prop, tier, seed)


def select(res, prop, tier, seed):
    """Project the shared rt result onto one property."""
    out = {"programs": res["programs"], "coverage": dict(res["coverage"], rt_wall_s=res.get("wall_s")),
           "samples": res["samples"][:2], "violations": [], "known": [], "disagreements": []}
    for d in res["disagreements"]:
        if prop in d["props"]:
            out["disagreements"].append(d)
    for v in res["violations"]:
        if prop in v["props"]:
            path = os.path.join(build.VERIF, "replays", "%s-%s-%d-rt-%s" % (prop, tier, seed, v["id"]))
            shutil.rmtree(path, ignore_errors=True)
            os.makedirs(path, exist_ok=True)
            for rel, text in v.get("files", {}).items():
                p = os.path.join(path, rel)
                os.makedirs(os.path.dirname(p), exist_ok=True)
                open(p, "w").write(text)
            json.dump({k: v[k] for k in v if k != "files"}, open(os.path.join(path, "replay.json"), "w"), indent=1)
            out["violations"].append({"what": v["what"], "replay": path})
    return out


def classify(model_line, real_line):
    """Which properties does a difference between two trace elements speak about."""
    return ["C03", "C04", "C07", "C08"]


def _run(cdir, seed, tier, root, log):
    rnd = random.Random(seed * 7919 + 13)
    n = 40 if tier == "quick" else 400
    n_ops = 14 if tier == "quick" else 60
    os.makedirs(os.path.join(root, "rtlib"))
    open(os.path.join(root, "go.mod"), "w").write("module %s\n\ngo 1.24\n" % MOD)
    open(os.path.join(root, "rtlib", "rtlib.go"), "w").write(RTLIB)
    cases = []
    for i in range(n):
        it = gen_iface(rnd, i)
        pkg = "rt%d" % i
        os.makedirs(os.path.join(root, pkg))
        open(os.path.join(root, pkg, "iface.go"), "w").write(iface_src(pkg, it))
        flags = {"stub": rnd.random() < 0.5, "resets": rnd.random() < 0.6, "skip": rnd.random() < 0.2}
        mock = it["name"] + "Mock" if rnd.random() < 0.8 else "Fake" + it["name"]
        arg = it["name"] if mock == it["name"] + "Mock" else it["name"] + ":" + mock
        cases.append({"pkg": pkg, "it": it, "flags": flags, "mock": mock, "arg": arg})
    harness, driver, moq = (os.path.join(cdir, x) for x in ("harness", "driver", "moq"))
    # real moq (CLI, in place) and facts
    jobs = [{"id": c["pkg"], "dir": c["pkg"], "pkg": "", "stub": c["flags"]["stub"], "skip": c["flags"]["skip"],
             "resets": c["flags"]["resets"], "args": [c["arg"]]} for c in cases]
    fres = pool.run_jobs(harness, root, [{"job": j, "fmts": [""], "facts": True} for j in jobs])
    lines, good = [], []
    maxdepth = 2
    for c, f in zip(cases, fres):
        run_ = (f or {}).get("runs", {}).get("", {})
        if not f or not f.get("case") or run_.get("err") or run_.get("panic") or "crash" in f:
            c["skip"] = "moq failed: %s" % ((f or {}).get("load_err") or run_.get("err") or run_.get("panic") or f)
            continue
        open(os.path.join(root, c["pkg"], "moq_out.go"), "w").write(run_["out"])
        c["moq_out"] = run_["out"]
        funcs, script = gen_script(rnd, c["it"], c["flags"], n_ops)
        c["funcs"], c["script"] = funcs, script
        c["driver_src"] = driver_src(c["pkg"], c["it"], c["mock"], maxdepth, funcs, script)
        open(os.path.join(root, c["pkg"], "driver.go"), "w").write(c["driver_src"])
        open(os.path.join(root, c["pkg"], "helpers.go"), "w").write(HELPERS % c["pkg"])
        fs = " ".join('("%s" (ops %s) (panic%s) (results %s))' % (
            m, " ".join(op_sexp(o) for o in b["ops"]), "" if b["panic"] is None else " %d" % b["panic"],
            " ".join(str(t) for t in b["results"])) for m, b in funcs.items())
        lines.append('(rt "%s" (mock "%s") (maxdepth %d) (funcs %s) (script %s) %s)' % (
            c["pkg"], c["mock"], maxdepth, fs, " ".join(op_sexp(o) for o in script), f["case"]))
        good.append(c)
    # one main for all packages
    main = ["package main", "", "import (", '\t"fmt"', '\t"os"', '\t"strings"', '\t"time"', '\t"%s/rtlib"' % MOD]
    for c in good:
        main.append('\t%s "%s/%s"' % (c["pkg"], MOD, c["pkg"]))
    main += [")", "", "func main() {", "\tmode := os.Args[1]", "\ttype ent struct { name string; run func() ([]string, bool); stress func(int, int, bool) string; resets bool }", "\thung := 0", "\tall := []ent{"]
    for c in good:
        main.append('\t\t{"%s", %s.Run, %s.Stress, %s},' % (c["pkg"], c["pkg"], c["pkg"], "true" if c["flags"]["resets"] else "false"))
    main += ["\t}", "\tfor _, e := range all {",
             "\t\tif mode == \"seq\" {",
             "\t\t\ttype res struct { out []string; stable bool }",
             "\t\t\trc := make(chan res, 1)",
             "\t\t\tgo func() { o, s := e.run(); rc <- res{o, s} }()",
             "\t\t\tselect {",
             "\t\t\tcase r := <-rc: fmt.Printf(\"%s\\t%s\\t%v\\n\", e.name, strings.Join(r.out, \";\"), r.stable)",
             "\t\t\tcase <-time.After(45 * time.Second): fmt.Printf(\"%s\\tDEADLOCK\\tfalse\\n\", e.name); hung++",
             "\t\t\t}",
             "\t\t\tif hung >= 3 { return }",
             "\t\t} else {",
             "\t\t\tif hung >= 2 { return }",
             "\t\t\tch := make(chan string, 1)",
             "\t\t\tgo func() { ch <- e.stress(8, 150, false) }()",
             "\t\t\tif s, ok := waitProgress(ch); ok { fmt.Printf(\"%s\\t%s\\n\", e.name, s) } else { fmt.Printf(\"%s\\tDEADLOCK: stress made no progress for 20s\\n\", e.name); hung++; continue }",
             "\t\t\tif e.resets {",
             "\t\t\t\tgo func() { ch <- e.stress(8, 1200, true) }()",
             "\t\t\t\tif s, ok := waitProgress(ch); ok { if s != \"\" { fmt.Printf(\"%s\\t%s\\n\", e.name, s) } } else { fmt.Printf(\"%s\\tDEADLOCK: stress with resets made no progress for 20s\\n\", e.name); hung++ }",
             "\t\t\t}",
             "\t\t}", "\t}", "}", "",
             "// waitProgress waits for a stress run; it gives up only when the run made no progress at all for",
             "// 20 seconds (a deadlock), not when the machine is merely slow (cap: 10 minutes).",
             "func waitProgress(ch chan string) (string, bool) {",
             "\tlast, idle, total := rtlib.Ticks(), 0, 0",
             "\tfor {",
             "\t\tselect {",
             "\t\tcase s := <-ch:",
             "\t\t\treturn s, true",
             "\t\tcase <-time.After(2 * time.Second):",
             "\t\t\ttotal += 2",
             "\t\t\tif p := rtlib.Ticks(); p == last { idle += 2 } else { idle, last = 0, p }",
             "\t\t\tif idle >= 20 || total >= 600 { return \"\", false }",
             "\t\t}",
             "\t}",
             "}"]
    os.makedirs(os.path.join(root, "cmd"))
    open(os.path.join(root, "cmd", "main.go"), "w").write("\n".join(main) + "\n")
    # patch: resetOne helper per package
    for c in good:
        m0 = c["it"]["methods"][0]["name"]
        inst = "[string, int]" if c["it"]["generic"] else ""
        # one method's reset and the whole-mock reset, concurrently with calls and accessors
        body = ("m.Reset%sCalls(); m.ResetCalls()" % m0) if c["flags"]["resets"] else ""
        open(os.path.join(root, c["pkg"], "helpers.go"), "a").write(
            "\nfunc resetOne(m *%s%s) { %s }\n" % (c["mock"], inst, body))
    result = {"programs": len(good), "violations": [], "disagreements": [], "samples": [],
              "coverage": {"rt_packages": len(good), "rt_skipped": [c.get("skip") for c in cases if c.get("skip")][:5],
                           "ops_per_script": n_ops}}
    def write_main(cs):
        txt = "\n".join(main) + "\n"
        for c in good:
            if c not in cs:
                txt = txt.replace('\t%s "%s/%s"\n' % (c["pkg"], MOD, c["pkg"]), "")
                txt = txt.replace('\t\t{"%s", %s.Run, %s.Stress, %s},\n' % (
                    c["pkg"], c["pkg"], c["pkg"], "true" if c["flags"]["resets"] else "false"), "")
        open(os.path.join(root, "cmd", "main.go"), "w").write(txt)

    rc, o, e = build.sh(["go", "build", "-o", "rtbin", "./cmd"], cwd=root, env=pool.GOENV)
    if rc != 0:
        # packages whose *generated mock* does not compile: a concrete input on which moq's output is
        # unusable – no runtime property can hold of it; they are reported and left out, the rest runs
        bad = {}
        for line in e.splitlines():
            mm = re.match(r"(rt\d+)/moq_out\.go:\d+:\d+: (.*)", line.strip())
            if mm:
                bad.setdefault(mm.group(1), []).append(line.strip())
        rest = [c for c in good if c["pkg"] not in bad]
        if bad and rest:
            for c in good:
                if c["pkg"] in bad:
                    result["violations"].append({
                        "id": c["pkg"], "props": ["C03", "C04", "C05", "C06", "C07", "C08"], "flags": c["flags"],
                        "files": {"iface.go": iface_src(c["pkg"], c["it"]), "moq_out.go": c["moq_out"]},
                        "what": "the generated mock does not compile, so it cannot behave as the property says: " +
                                " | ".join(bad[c["pkg"]][:3])})
            write_main(rest)
            good = rest
            rc, o, e = build.sh(["go", "build", "-o", "rtbin", "./cmd"], cwd=root, env=pool.GOENV)
        if rc != 0:
            result["disagreements"].append({"id": "rt-build", "props": ["C03", "C04", "C05", "C06", "C07", "C08"],
                                            "what": "compiled-mock harness does not build: " + e[-1500:]})
            return result
    model = pool.run_driver(driver, lines)
    p = subprocess.run([os.path.join(root, "rtbin"), "seq"], capture_output=True, text=True, timeout=600)
    real = {}
    for line in p.stdout.splitlines():
        parts = line.split("\t")
        if len(parts) == 3:
            real[parts[0]] = (parts[1], parts[2])
    nops = 0
    for c in good:
        m = model.get(c["pkg"]) or {}
        r = real.get(c["pkg"])
        files = {"iface.go": iface_src(c["pkg"], c["it"]), "moq_out.go": c["moq_out"], "driver.go": c["driver_src"]}
        if r is None:
            result["disagreements"].append({"id": c["pkg"], "props": ["C03", "C04", "C07", "C08"],
                                            "what": "compiled mock produced no trace: " + p.stderr[-400:]})
            continue
        nops += len(c["script"])
        if r[0] == "DEADLOCK":
            result["violations"].append({"id": c["pkg"], "props": ["C06"], "files": files, "script": c["script"], "funcs": c["funcs"],
                                         "flags": c["flags"], "model_trace": (m.get("rt") or "").split(";"),
                                         "what": "sequential script deadlocks inside generated code (the model predicts: %s)" % (m.get("rt") or "")[:200]})
            continue
        if m.get("rt") != r[0]:
            ml, rl = (m.get("rt") or "").split(";"), r[0].split(";")
            k = next((i for i in range(min(len(ml), len(rl))) if ml[i] != rl[i]), min(len(ml), len(rl)))
            what = "trace element %d: model %r, compiled mock %r (script %s)" % (
                k, ml[k] if k < len(ml) else None, rl[k] if k < len(rl) else None, c["script"])
            # the model is a transcription of the body; a difference on the unchanged tree is a
            # model/impl disagreement, the property-level judgement is made by the spec oracle below
            result["disagreements"].append({"id": c["pkg"], "props": ["C03", "C04", "C07", "C08"], "what": what})
            v = spec_check(c, rl)
            for props_, w in v:
                result["violations"].append({"id": c["pkg"], "props": props_, "what": w, "files": files,
                                             "script": c["script"], "funcs": c["funcs"], "flags": c["flags"],
                                             "real_trace": rl, "model_trace": ml})
        else:
            v = spec_check(c, r[0].split(";"))
            for props_, w in v:
                result["violations"].append({"id": c["pkg"], "props": props_, "what": w, "files": files,
                                             "script": c["script"], "funcs": c["funcs"], "flags": c["flags"],
                                             "real_trace": r[0].split(";")})
        if r[1] != "true":
            result["violations"].append({"id": c["pkg"], "props": ["C04"], "files": files,
                                         "what": "a slice returned by an accessor changed after later calls/resets",
                                         "script": c["script"]})
        if len(result["samples"]) < 2:
            result["samples"].append({"interface": iface_src(c["pkg"], c["it"]).split("// ")[1][:300],
                                      "flags": c["flags"], "script": c["script"][:6], "trace": r[0][:300]})
    result["coverage"]["rt_ops_executed"] = nops
    # stress under the race detector (search only)
    rc, o, e = build.sh(["go", "build", "-race", "-o", "rtrace", "./cmd"], cwd=root, env=pool.GOENV)
    if rc == 0:
        env = dict(pool.GOENV, GORACE="halt_on_error=0")
        try:
            p = subprocess.run([os.path.join(root, "rtrace"), "stress"], capture_output=True, text=True,
                               timeout=900 if tier == "quick" else 3600, env=env)
            races = p.stderr.count("WARNING: DATA RACE")
            result["coverage"]["stress_packages"] = len(good)
            for line in p.stdout.splitlines():
                name, _, diag = line.partition("\t")
                if diag:
                    c = next(x for x in good if x["pkg"] == name)
                    files = {"iface.go": iface_src(c["pkg"], c["it"]), "moq_out.go": c["moq_out"], "driver.go": c["driver_src"]}
                    props_ = ["C06"] if "DEADLOCK" in diag else ["C05"]
                    result["violations"].append({"id": name + "-stress", "props": props_, "what": diag, "files": files})
            if races:
                # attribute the first report to the package named in its stack
                mm = re.search(r"example\.com/rt/(rt\d+)\.", p.stderr)
                name = mm.group(1) if mm else good[0]["pkg"]
                c = next(x for x in good if x["pkg"] == name)
                files = {"iface.go": iface_src(c["pkg"], c["it"]), "moq_out.go": c["moq_out"], "driver.go": c["driver_src"],
                         "race_report.txt": p.stderr[:6000]}
                result["violations"].append({"id": name + "-race", "props": ["C05"], "files": files,
                                             "what": "%d data race report(s) from the Go race detector inside generated code" % races})
        except subprocess.TimeoutExpired:
            result["violations"].append({"id": "stress-timeout", "props": ["C06"], "files": {},
                                         "what": "stress binary did not finish (deadlock)"})
    else:
        result["coverage"]["race_build_error"] = e[-300:]
    return result


def spec_check(c, trace):
    """Independent list-model oracle over the real trace: C03 (delegation), C04 (records),
    C07 (nil function), C08 (resets).  Returns [(props, what)]."""
    it, funcs, flags = c["it"], c["funcs"], c["flags"]
    by = {m["name"]: m for m in it["methods"]}
    log = {m["name"]: [] for m in it["methods"]}
    out = []
    pos = [0]
    maxdepth = 2

    def nxt():
        if pos[0] < len(trace):
            pos[0] += 1
            return trace[pos[0] - 1]
        return None

    class Abort(Exception):
        def __init__(self, outcome):
            self.outcome = outcome

    def do(o, depth):
        """Performs op per the spec, consuming trace elements; returns expected outcome string."""
        if o[0] == "call":
            m = by[o[1]]
            f = funcs.get(o[1])
            toks = [str(t) for t in o[2:]]
            if f is None and not flags["stub"]:
                raise Abort("panic-nil %s.%sFunc: method is nil but %s.%s was just called" % (c["mock"], o[1], it["name"], o[1]))
            log[o[1]].append(toks)
            if f is None:
                return "ret " + ",".join("0" for _ in m["results"])
            e = nxt()
            want = "inv %s %s %s" % (o[1], ",".join(toks), "spread" if m["variadic"] else "nospread")
            if e != want:
                out.append((["C03"], "configured function of %s saw %r, expected %r" % (o[1], e, want)))
                raise Abort(None)
            if depth < maxdepth:
                for o2 in f["ops"]:
                    do(o2, depth + 1)
            if f["panic"] is not None:
                raise Abort("panic-user %d" % f["panic"])
            return "ret " + ",".join(str(t) for t in f["results"])
        if o[0] == "calls":
            e = nxt()
            mm = re.match(r"snap %s (\d+)\[(.*)\]$" % re.escape(o[1]), e or "")
            if not mm:
                out.append((["C04"], "accessor of %s reported %r" % (o[1], e)))
                raise Abort(None)
            cnt, body = int(mm.group(1)), mm.group(2)
            recs = [[kv.split("=")[1] for kv in r.split(",")] if r else [] for r in body.split("|")] if cnt else []
            if recs != log[o[1]]:
                out.append((["C04", "C08"], "records of %s are %s, calls so far %s" % (o[1], recs, log[o[1]])))
                raise Abort(None)
            return "ret "
        if o[0] == "reset":
            log[o[1]] = []
            return "ret "
        for k in log:
            log[k] = []
        return "ret "

    for o in c["script"]:
        try:
            want = do(o, 0)
        except Abort as a:
            if a.outcome is None:
                return out
            want = a.outcome
        got = nxt()
        if got != want:
            props_ = ["C07"] if (want.startswith("panic-nil") or (got or "").startswith("panic")) else ["C03"]
            out.append((props_, "operation %s ended with %r, expected %r" % (o, got, want)))
            return out
    return out
