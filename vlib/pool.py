"""Worker pool: harness subprocesses running the real moq library, Lean driver subprocesses."""
import json, os, subprocess, threading, queue, time, select

GOENV = dict(os.environ, GOFLAGS="-mod=mod", GOPROXY="off", GOMEMLIMIT="2GiB")


class Worker:
    def __init__(self, exe, cwd, env=None):
        self.exe, self.cwd, self.env = exe, cwd, env or GOENV
        self.start()

    def start(self):
        self.p = subprocess.Popen([self.exe, "worker"], cwd=self.cwd, env=self.env,
                                  stdin=subprocess.PIPE, stdout=subprocess.PIPE,
                                  stderr=subprocess.PIPE, text=True, bufsize=1)

    def call(self, req, timeout=60.0):
        """Send one request, wait for one JSON line. On crash/timeout returns a dict with 'crash'."""
        try:
            self.p.stdin.write(json.dumps(req) + "\n")
            self.p.stdin.flush()
        except (BrokenPipeError, OSError):
            return self._crashed("broken pipe")
        deadline = time.time() + timeout
        fd = self.p.stdout.fileno()
        while True:
            left = deadline - time.time()
            if left <= 0:
                self.p.kill()
                return self._crashed("timeout after %.0fs" % timeout, kind="timeout")
            r, _, _ = select.select([fd], [], [], min(left, 1.0))
            if r:
                line = self.p.stdout.readline()
                if not line:
                    return self._crashed("eof")
                try:
                    return json.loads(line)
                except json.JSONDecodeError:
                    return self._crashed("bad json: " + line[:200])
            if self.p.poll() is not None and not select.select([fd], [], [], 0)[0]:
                return self._crashed("exited")

    def _crashed(self, why, kind="crash"):
        try:
            self.p.kill()
        except Exception:
            pass
        try:
            err = self.p.stderr.read()
        except Exception:
            err = ""
        self.p.wait()
        self.start()
        # keep the head of the Go crash report (fatal error: stack overflow / panic: …)
        head = "\n".join(err.splitlines()[:12])
        return {"crash": kind, "why": why, "stderr": head}

    def close(self):
        try:
            self.p.stdin.close()
            self.p.wait(timeout=5)
        except Exception:
            self.p.kill()


def run_jobs(exe, cwd, reqs, nworkers=16, timeout=60.0, env=None):
    """Run requests (list of dicts) on a pool; returns results in the same order."""
    qin = queue.Queue()
    for i, r in enumerate(reqs):
        qin.put((i, r))
    out = [None] * len(reqs)

    def loop():
        w = Worker(exe, cwd, env)
        while True:
            try:
                i, r = qin.get_nowait()
            except queue.Empty:
                break
            res = w.call(r, timeout)
            if "crash" in res:
                res["id"] = r.get("job", {}).get("id")
            out[i] = res
        w.close()

    ts = [threading.Thread(target=loop) for _ in range(min(nworkers, max(1, len(reqs))))]
    for t in ts:
        t.start()
    for t in ts:
        t.join()
    return out


def unesc(s):
    res, i = [], 0
    while i < len(s):
        if s[i] == "\\" and i + 1 < len(s):
            res.append({"n": "\n", "t": "\t", "\\": "\\"}.get(s[i + 1], s[i + 1]))
            i += 2
        else:
            res.append(s[i])
            i += 1
    return "".join(res)


def run_driver(driver, cases, nproc=8):
    """cases: list of S-expression lines (each with a unique id). Returns dict id -> {key: value}."""
    if not cases:
        return {}
    chunks = [cases[i::nproc] for i in range(nproc)]
    results = {}
    lock = threading.Lock()

    def one(chunk):
        if not chunk:
            return
        p = subprocess.run([driver], input="\n".join(chunk) + "\n", capture_output=True, text=True)
        cur = {}
        loc = {}
        for line in p.stdout.splitlines():
            k, _, v = line.partition("\t")
            if k == "end":
                loc[v] = cur
                cur = {}
            else:
                cur[k] = unesc(v)
        if p.returncode != 0:
            loc["__driver_error__"] = {"stderr": p.stderr[-2000:], "rc": str(p.returncode)}
        with lock:
            results.update(loc)

    ts = [threading.Thread(target=one, args=(c,)) for c in chunks]
    for t in ts:
        t.start()
    for t in ts:
        t.join()
    return results
