"""Per-property registry: Lean obligations, stages needed, oracle keys, trusted base."""

COMMON_TRUST = [
    "Lean 4.33.0 kernel; axioms allowed: propext, Classical.choice, Quot.sound (audited with #print axioms on every run)",
    "extract/ (go/ast + text/template/parse translator, regenerated facts) and harness/ (fact dumper, projection extractor, oracles)",
    "go/types, go/packages, text/template are modelled by executable stand-ins validated differentially on every run",
]

# module -> theorems listed per property; filled from lean/MoqModel/Props/*.lean
PROPS = {
    "C01": dict(module="MoqModel.Props.C01", stages=["corr", "cli"], oracles=["C01"],
                trust=["GoScoping: a WellScoped file is accepted by go/types (validated by type-checking every in-WF real output)"]),
    "C02": dict(module="MoqModel.Props.C02", stages=["corr"], oracles=["C02"],
                trust=["go/types method-set completion and order"]),
    "C03": dict(module="MoqModel.Props.C03", stages=["corr", "rt"], oracles=["C03"],
                trust=["GoExec: matched Go statements behave as the IR semantics (validated by compiled mocks)"]),
    "C04": dict(module="MoqModel.Props.C04", stages=["corr", "rt"], oracles=["C04"],
                trust=["GoExec; Go append/slice-header model"]),
    "C05": dict(module="MoqModel.Props.C05", stages=["corr", "rt"], oracles=["C05"],
                trust=["Go memory model DRF-SC; sync.RWMutex meets the abstract lock specification"]),
    "C06": dict(module="MoqModel.Props.C06", stages=["corr", "rt"], oracles=["C06"],
                trust=["as C05; liveness stated as enabledness, no scheduler fairness model"]),
    "C07": dict(module="MoqModel.Props.C07", stages=["corr", "rt"], oracles=["C07"],
                trust=["`var x T` yields the zero value of T"]),
    "C08": dict(module="MoqModel.Props.C08", stages=["corr", "rt", "cli"], oracles=["C08"], trust=[]),
    "C09": dict(module="MoqModel.Props.C09", stages=["corr"], oracles=["C09"],
                trust=["Go instantiation is substitution"]),
    "C10": dict(module="MoqModel.Props.C10", stages=["corr", "cli"], oracles=["C10"], trust=[]),
    "C11": dict(module="MoqModel.Props.C11", stages=["corr"], oracles=["C11"], trust=[]),
    "C12": dict(module="MoqModel.Props.C12", stages=["corr"], oracles=["C12"], trust=[]),
    "C13": dict(module="MoqModel.Props.C13", stages=["corr"], oracles=["C13"], trust=[]),
    "C14": dict(module="MoqModel.Props.C14", stages=["corr"], oracles=["C14"],
                trust=["go/types enumerates methods in a canonical order"]),
    "C15": dict(module="MoqModel.Props.C15", stages=["cli", "corr"], oracles=["C15"],
                trust=["packages.Load returns exactly the files present"]),
    "C16": dict(module="MoqModel.Props.C16", stages=["corr", "cli"], oracles=["C16"],
                trust=["go/format idempotence and comment preservation, goimports leaves an import-exact file alone (theorem hypotheses, checked dynamically)"]),
    "C17": dict(module="MoqModel.Props.C17", stages=["cli", "corr"], oracles=["C17"],
                trust=["a write that fails after a successful open is not modelled"]),
    "C18": dict(module="MoqModel.Props.C18", stages=["cli"], oracles=["C18"],
                trust=["go list writes only to GOCACHE when go.mod/go.sum are complete"]),
    "C19": dict(module="MoqModel.Props.C19", stages=["corr", "cli"], oracles=["C19"],
                trust=["packages.Load / go list terminate (watchdog)"]),
    "C20": dict(module="MoqModel.Props.C20", stages=["corr", "cli"], oracles=["C20"], trust=[]),
}


# Which regenerated facts each property's theorems and tie read (prefixes of the extractor's scopes).
# A fact the extractor cannot read any more is a broken obligation for exactly these properties;
# the tables have fall-backs, so the model still runs and the byte-level correspondence says
# whether the fall-back is what the code does.
CORR_PROPS = ["C01", "C02", "C03", "C04", "C05", "C06", "C07", "C08", "C09", "C10", "C11", "C12", "C13", "C14",
              "C16", "C19", "C20"]
FACTS = {p: ["template", "extractor"] for p in CORR_PROPS}
for p in ("C15", "C17", "C18"):
    FACTS[p] = ["extractor"]

FACTS["C11"] += ["tables.replacer", "tables.vendor"]
FACTS["C10"] += ["tables.vendor"]
FACTS["C12"] += ["tables.reserved", "tables.suffix", "tables.outSuffix"]
FACTS["C13"] += ["tables.reserved", "tables.suffix", "tables.initialisms", "tables.outSuffix"]
FACTS["C14"] += ["facts"]
FACTS["C15"] += ["glue.runProg"]
FACTS["C16"] += ["glue.formatProg", "glue.gofmtProg", "glue.goimportsProg", "facts"]
FACTS["C17"] += ["glue.runProg", "glue.mockProg", "glue.mainProg"]
FACTS["C18"] += ["glue.runProg", "glue.mainProg", "facts"]
FACTS["C19"] += ["glue.runProg", "glue.mockProg", "glue.lookupProg", "glue.registryNewProg", "glue.gofmtProg",
                 "glue.goimportsProg", "glue.newProg"]
FACTS["C20"] += ["glue.parseNameProg", "glue.mockProg"]


def extract_failures_for(prop, fails):
    """The extractor failures that concern `prop`: lines `EXTRACT-FAIL: [scope] …`; untagged lines
    (the extractor itself does not build or crashed) concern everybody."""
    import re
    out = []
    for l in fails:
        m = re.match(r"EXTRACT-FAIL: \[([\w.?]+)\]", l)
        if not m:
            out.append(l)
        elif any(m.group(1) == f or m.group(1).startswith(f + ".") for f in FACTS.get(prop, [])):
            out.append(l)
    return out
