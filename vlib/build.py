"""Build stage: fingerprint /repo, regenerate the Lean facts, build proofs, driver, harness, CLI."""
import fcntl, hashlib, json, os, re, shutil, subprocess, time

VERIF = os.path.dirname(os.path.dirname(os.path.abspath(__file__)))
REPO = os.environ.get("VERIF_REPO", "/repo")
CACHE = os.path.join(VERIF, ".cache")
LEAN = os.path.join(VERIF, "lean")
GOENV = dict(os.environ, GOFLAGS="-mod=mod", GOPROXY="off")
ALLOWED_AXIOMS = {"propext", "Classical.choice", "Quot.sound"}
PROPS = ["C%02d" % i for i in range(1, 21)]


def sh(cmd, cwd=None, env=None, timeout=3600):
    p = subprocess.run(cmd, cwd=cwd, env=env or GOENV, capture_output=True, text=True, timeout=timeout)
    return p.returncode, p.stdout, p.stderr


def hash_tree(root, skip=(".git", ".lake", ".cache", "__pycache__", "evidence", "replays", "out")):
    h = hashlib.sha256()
    for d, dirs, files in os.walk(root):
        dirs[:] = sorted(x for x in dirs if x not in skip)
        for f in sorted(files):
            if f in ("Audit.lean", "lake-manifest.json"):
                continue
            p = os.path.join(d, f)
            if os.path.islink(p) or not os.path.isfile(p):
                continue
            h.update(os.path.relpath(p, root).encode() + b"\0")
            with open(p, "rb") as fh:
                h.update(hashlib.sha256(fh.read()).digest())
    return h.hexdigest()


def tree_key():
    """Key of everything a result depends on: /repo's working tree and the machinery itself."""
    hr = hash_tree(REPO)
    hv = hashlib.sha256()
    for sub in ("lean", "extract", "harness", "vlib", "corpus"):
        p = os.path.join(VERIF, sub)
        if os.path.isdir(p):
            hv.update(hash_tree(p, skip=(".lake", "__pycache__", "Generated")).encode())
    for f in ("check", "known_findings.json"):
        p = os.path.join(VERIF, f)
        if os.path.exists(p):
            hv.update(open(p, "rb").read())
    return hashlib.sha256((hr + hv.hexdigest()).encode()).hexdigest()[:20], hr


class Lock:
    def __init__(self, name="lock"):
        os.makedirs(CACHE, exist_ok=True)
        self.path = os.path.join(CACHE, name)

    def __enter__(self):
        self.f = open(self.path, "w")
        fcntl.flock(self.f, fcntl.LOCK_EX)
        return self

    def __exit__(self, *a):
        fcntl.flock(self.f, fcntl.LOCK_UN)
        self.f.close()


def prune(keep):
    try:
        ds = [d for d in os.listdir(CACHE) if os.path.isdir(os.path.join(CACHE, d)) and d not in ("bin", keep)]
        ds.sort(key=lambda d: os.path.getmtime(os.path.join(CACHE, d)))
        for d in ds[:-2]:
            shutil.rmtree(os.path.join(CACHE, d), ignore_errors=True)
    except OSError:
        pass


def parse_lake_failures(out):
    """module -> first error lines, from lake build output."""
    fails = {}
    cur = None
    for line in out.splitlines():
        m = re.match(r"^[✖✗x] \[\d+/\d+\] (?:Building|Built|Running) (\S+)", line)
        if m:
            cur = m.group(1)
            fails.setdefault(cur, [])
            continue
        if re.match(r"^[✔ℹ⚠] \[", line):
            cur = None
        if cur and line.startswith("error:"):
            if len(fails[cur]) < 6:
                fails[cur].append(line[:400])
    return fails


def ensure_built(log=print):
    key, hrepo = tree_key()
    cdir = os.path.join(CACHE, key)
    with Lock():
        bj = os.path.join(cdir, "build.json")
        if os.path.exists(bj):
            return cdir, json.load(open(bj))
        t0 = time.time()
        os.makedirs(cdir, exist_ok=True)
        prune(key)
        info = {"key": key, "repo_hash": hrepo, "extract_fail": [], "lean_fail": {}, "axioms": {},
                "go_fail": [], "forbidden": []}
        # 1. extractor
        ex = os.path.join(cdir, "extract")
        rc, o, e = sh(["go", "build", "-o", ex, "."], cwd=os.path.join(VERIF, "extract"))
        if rc != 0:
            info["extract_fail"].append("extractor does not build: " + e[-500:])
        else:
            gen = os.path.join(LEAN, "MoqModel", "Generated")
            tmp = os.path.join(cdir, "Generated")
            shutil.rmtree(tmp, ignore_errors=True)
            rc, o, e = sh([ex, REPO, tmp])
            info["extract_fail"] += [l for l in o.splitlines() if l.startswith("EXTRACT-FAIL")]
            if rc != 0 and not info["extract_fail"]:
                info["extract_fail"].append("extractor crashed: " + e[-500:])
            # rewrite only files whose content changed (keeps lake's incremental build effective)
            os.makedirs(gen, exist_ok=True)
            new = set(os.listdir(tmp)) if os.path.isdir(tmp) else set()
            for f in os.listdir(gen):
                if f.endswith(".lean") and f not in new and not info["extract_fail"]:
                    os.remove(os.path.join(gen, f))
            for f in new:
                a, b = os.path.join(tmp, f), os.path.join(gen, f)
                if not os.path.exists(b) or open(a).read() != open(b).read():
                    shutil.copy(a, b)
        # 2. lean: library (model + proofs) and driver
        rc, o, e = sh(["lake", "build", "MoqModel", "driver"], cwd=LEAN, timeout=7200)
        if rc != 0:
            info["lean_fail"] = parse_lake_failures(o + "\n" + e) or {"?": [(o + e)[-800:]]}
        drv = os.path.join(LEAN, ".lake", "build", "bin", "driver")
        if os.path.exists(drv) and "Main" not in info["lean_fail"] and not any(
                m in info["lean_fail"] for m in ("MoqModel.Gen", "MoqModel.Render", "MoqModel.GoFile", "MoqModel.WF")):
            shutil.copy(drv, os.path.join(cdir, "driver"))
        # 3. per-property proof modules and axiom audit
        from . import props as _props
        info["modules"] = {}
        audit_imports, audit_lines = [], []
        for pid, P in _props.PROPS.items():
            mod = P["module"]
            src = os.path.join(LEAN, *mod.split(".")) + ".lean"
            if not os.path.exists(src):
                info["modules"][mod] = "missing"
                continue
            rc, o, e = sh(["lake", "build", mod], cwd=LEAN, timeout=7200)
            if rc == 0:
                info["modules"][mod] = True
                audit_imports.append("import " + mod)
                text = re.sub(r"/-.*?-/", "", open(src).read(), flags=re.S)
                ns = ""
                for line in text.splitlines():
                    mm = re.match(r"^namespace\s+([\w.]+)", line)
                    if mm:
                        ns = mm.group(1) + "."
                    mm = re.match(r"^theorem\s+([\w.']+)", line)
                    if mm:
                        audit_lines.append("#print axioms " + ns + mm.group(1))
            else:
                errs = [l for l in (o + e).splitlines() if "error" in l][:6]
                info["modules"][mod] = "; ".join(errs)[:900] or "build failed"
        # 3b. the bridge theorem (template interpreter = printer of the structured model, for all data):
        # a *soft* obligation - its proof follows the numbering of Generated/Template.lean, so any
        # edit of the template breaks it; the per-input comparison (gf) is then the tie, as before
        rc, o, e = sh(["lake", "build", "MoqModel.BridgeThm"], cwd=LEAN, timeout=7200)
        if rc == 0:
            info["bridge"] = True
            audit_imports.append("import MoqModel.BridgeThm")
            audit_lines += ["#print axioms Moq.bridge", "#print axioms Moq.bridge_file", "#print axioms Moq.bridge_bodies", "#print axioms Moq.bridge_header"]
        else:
            info["bridge"] = "; ".join([l for l in (o + e).splitlines() if "error" in l][:3])[:600] or "build failed"
        audit = os.path.join(LEAN, "Audit.lean")
        open(audit, "w").write("\n".join(audit_imports) + "\n" + "\n".join(audit_lines) + "\n")
        if audit_lines:
            rc, o, e = sh(["lake", "env", "lean", "Audit.lean"], cwd=LEAN, timeout=3600)
            info["axioms"] = parse_axioms(o)
            info["audit_errors"] = [l for l in (o + e).splitlines() if "error" in l][:10]
        # 4. forbidden constructs in the Lean sources
        info["forbidden"] = grep_forbidden()
        # 5. harness and CLI against /repo
        hdir = os.path.join(VERIF, "harness")
        shutil.copy(os.path.join(REPO, "go.sum"), os.path.join(hdir, "go.sum"))
        modflag = []
        if REPO != "/repo":
            # checks pointed at another tree (VERIF_REPO, used for seeded changes in scratch worktrees)
            mf = os.path.join(cdir, "harness.mod")
            open(mf, "w").write(open(os.path.join(hdir, "go.mod")).read().replace("=> /repo", "=> " + REPO))
            shutil.copy(os.path.join(REPO, "go.sum"), os.path.join(cdir, "harness.sum"))
            modflag = ["-modfile=" + mf]
        rc, o, e = sh(["go", "build"] + modflag + ["-o", os.path.join(cdir, "harness"), "."], cwd=hdir)
        if rc != 0:
            info["go_fail"].append("harness: " + e[-800:])
        # 5b. the same harness with the overlay hooks (fast mode: in-memory loads, no `go list`); the
        # hook files are added to the build with -overlay, nothing is written into /repo.  When it
        # does not build (a refactoring the hooks do not follow) the fast stage is simply skipped.
        ov = os.path.join(cdir, "overlay.json")
        json.dump({"Replace": {
            os.path.join(REPO, "internal", "registry", "zz_verif_hook.go"): os.path.join(hdir, "overlay", "registry_hook.go.txt"),
            os.path.join(REPO, "pkg", "moq", "zz_verif_hook.go"): os.path.join(hdir, "overlay", "moq_hook.go.txt")}}, open(ov, "w"))
        rc, o, e = sh(["go", "build"] + modflag + ["-tags", "verif", "-overlay", ov, "-o", os.path.join(cdir, "harnessf"), "."], cwd=hdir)
        info["fast_harness"] = (rc == 0) or ("does not build: " + e[-600:])
        rc, o, e = sh(["go", "build", "-o", os.path.join(cdir, "moq"), "."], cwd=REPO)
        if rc != 0:
            info["go_fail"].append("moq: " + e[-800:])
        info["build_s"] = round(time.time() - t0, 1)
        json.dump(info, open(bj, "w"), indent=1)
        log("build stage %.1fs (key %s)" % (info["build_s"], key))
        return cdir, info


def parse_axioms(out):
    """`#print axioms T` output -> {T: [axioms]}"""
    res = {}
    cur = None
    for line in out.splitlines():
        m = re.match(r"^'([^']+)' depends on axioms: \[(.*)$", line)
        if m:
            cur = m.group(1)
            rest = m.group(2)
            res[cur] = []
            buf = rest
            if "]" in buf:
                res[cur] = [a.strip() for a in buf.split("]")[0].split(",") if a.strip()]
                cur = None
            else:
                res[cur] = [a.strip() for a in buf.split(",") if a.strip()]
            continue
        m = re.match(r"^'([^']+)' does not depend on any axioms", line)
        if m:
            res[m.group(1)] = []
            cur = None
            continue
        if cur is not None:
            buf = line
            done = "]" in buf
            res[cur] += [a.strip() for a in buf.split("]")[0].split(",") if a.strip()]
            if done:
                cur = None
    return res


FORBIDDEN = re.compile(r"\bsorry\b|\badmit\b|^axiom |native_decide|bv_decide|implemented_by|\bunsafe |maxHeartbeats 0")


def grep_forbidden():
    hits = []
    for d, _, files in os.walk(os.path.join(LEAN, "MoqModel")):
        for f in files:
            if not f.endswith(".lean"):
                continue
            p = os.path.join(d, f)
            text = open(p).read()
            # drop block comments and line comments
            text = re.sub(r"/-.*?-/", lambda m: "\n" * m.group(0).count("\n"), text, flags=re.S)
            for i, line in enumerate(text.splitlines(), 1):
                line = line.split("--")[0]
                if FORBIDDEN.search(line):
                    hits.append("%s:%d: %s" % (os.path.relpath(p, LEAN), i, line.strip()[:120]))
    return hits
