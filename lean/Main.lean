import MoqModel.Render
import MoqModel.Sexp
import MoqModel.WF
import MoqModel.GoFile
/-
  Driver: reads one `(case …)` per line on stdin, prints the model's projections.
  Output: lines `key<TAB>value` (value escaped), terminated by a line `end<TAB><id>`.
-/
open Moq

def esc (s : Str) : String :=
  String.ofList (s.flatMap fun c =>
    if c = '\n' then ['\\', 'n'] else if c = '\\' then ['\\', '\\'] else if c = '\t' then ['\\', 't'] else [c])

def kv (k : String) (v : Str) : IO Unit := IO.println (k ++ "\t" ++ esc v)

def fuel : Nat := 400

def bstr (b : Bool) : Str := if b then s%"true" else s%"false"

def runCase (id : Str) (inp : Input) : IO Unit := do
  let a1 := genAlloc Ord.id fuel inp
  let a2 := genAlloc Ord.rev fuel inp
  let r1 := a1.map (Alloc.toData inp)
  let r2 := a2.map (Alloc.toData inp)
  match a1 with
  | .error e => kv "err" e.message
  | .ok a =>
    let d := a.toData inp
    match renderNoop d with
    | none => kv "err" s%"<template execution failed>"
    | some t =>
      kv "noop" t
      match genFile d with
      | none => kv "gf" s%"none"
      | some f =>
        let t2 := printFile f
        if t2 = t then kv "gf" s%"eq" else do kv "gf" s%"diff"; kv "gftext" t2
    kv "imports" (Str.join s%";" (d.imports.map fun i => i.alias ++ s%" " ++ i.path))
    kv "pred.imports" (bstr (a.importsOK && sortedByPath d.imports))
    kv "pred.names" (bstr (a.namesOK inp.stub))
  let same := match r1, r2 with
    | .ok a, .ok b => decide (a = b)
    | .error a, .error b => decide (a = b)
    | _, _ => false
  kv "orddep" (if same then s%"false" else s%"true")
  kv "wf.base" (bstr (WF.base inp))
  kv "wf.imports" (bstr (WF.imports inp))
  kv "wf.names" (bstr (WF.names inp))
  kv "wf.generic" (bstr (WF.generic inp))
  kv "wf.ensure" (bstr (WF.ensure inp))
  kv "wf.dest" (bstr (WF.dest inp))
  kv "wf" (bstr (WF.all inp))
  kv "dst" (dstPath inp)
  kv "end" id

partial def loop (h : IO.FS.Stream) : IO Unit := do
  let line ← h.getLine
  if line.isEmpty then return ()
  let l := line.toList.filter (fun c => c ≠ '\n' ∧ c ≠ '\r')
  if l.isEmpty then loop h else
  match Sexp.parse l with
  | none => IO.println "parse-error\tsexp"; IO.println "end\t?"
  | some (x, _) =>
    match Sexp.toCase x with
    | none => IO.println "parse-error\tcase"; IO.println "end\t?"
    | some (id, inp) => runCase id inp
  (← IO.getStdout).flush
  loop h

def main : IO Unit := do loop (← IO.getStdin)
