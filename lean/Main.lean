import MoqModel.Render
import MoqModel.Sexp
import MoqModel.WF
import MoqModel.GoFile
import MoqModel.Seq
import MoqModel.CliSpec
open Moq.Cli (Node FsEff ErrV Flags Lib FS run runSpec)
/-
  Driver: reads one `(case …)` per line on stdin, prints the model's projections.
  Output: lines `key<TAB>value` (value escaped), terminated by a line `end<TAB><id>`.
-/
open Moq

def esc (s : Str) : String :=
  String.ofList (s.flatMap fun c =>
    if c = '\n' then ['\\', 'n'] else if c = '\\' then ['\\', '\\'] else if c = '\t' then ['\\', 't'] else [c])

def kv (k : String) (v : Str) : IO Unit := IO.println (k ++ "\t" ++ esc v)

def fuel : Nat := 400

def bstr (b : Bool) : Str := if b then s%"true" else s%"false"

/-- Code tokens of a Go text: comments and white space dropped, identifier/number runs kept
    whole, every other character its own token (string literals are tokenised too, but never
    scanned for comments).  The structured model `genFile` stands for the *code* of the output;
    comments and layout of the template are not its business. -/
def codeTokens (s : Str) : List Str :=
  let isW (c : Char) : Bool := c.isAlphanum || c = '_' || c.toNat ≥ 128
  let flush (cur : Str) (acc : List Str) : List Str := if cur.isEmpty then acc else cur.reverse :: acc
  -- st: 0 code, 1 code after one '/', 2 comment, 3 string, 4 string after a backslash
  let rec go : Str → Nat → Str → List Str → List Str
    | [], st, cur, acc => ((if st = 1 then [['/']] else []) ++ flush cur acc).reverse
    | c :: cs, st, cur, acc =>
      if st = 2 then (if c = '\n' then go cs 0 cur acc else go cs 2 cur acc)
      else if st = 4 then go cs 3 [] ([c] :: acc)
      else if st = 3 then
        (if c = '\\' then go cs 4 [] ([c] :: flush cur acc)
         else if c = '"' then go cs 0 [] ([c] :: flush cur acc)
         else if isW c then go cs 3 (c :: cur) acc
         else go cs 3 [] ([c] :: flush cur acc))
      else if st = 1 && c = '/' then go cs 2 [] acc
      else
        let acc := if st = 1 then ['/'] :: acc else acc
        if c = '/' then go cs 1 [] (flush cur acc)
        else if c = '"' then go cs 3 [] ([c] :: flush cur acc)
        else if isW c then go cs 0 (c :: cur) acc
        else if c = ' ' || c = '\n' || c = '\t' || c = '\r' then go cs 0 [] (flush cur acc)
        else go cs 0 [] ([c] :: flush cur acc)
  go s 0 [] []

def runCase (id : Str) (inp : Input) : IO Unit := do
  let a1 := genAlloc Ord.id fuel inp
  let a2 := genAlloc Ord.rev fuel inp
  let r1 := a1.map (Alloc.toData inp)
  let r2 := a2.map (Alloc.toData inp)
  match a1 with
  | .error e => kv "err" e.message
  | .ok a =>
    let d := a.toData inp
    match renderNoop d with
    | none => kv "err" s%"<template execution failed>"
    | some t =>
      kv "noop" t
      match genFile d with
      | none => kv "gf" s%"none"
      | some f =>
        let t2 := printFile f
        if t2 = t then kv "gf" s%"eq"
        else if codeTokens t2 = codeTokens t then kv "gf" s%"eq-code"
        else do kv "gf" s%"diff"; kv "gftext" t2
    kv "imports" (Str.join s%";" (d.imports.map fun i => i.alias ++ s%" " ++ i.path))
    -- C15, first clause, on the model: the second run of the same command loads the first output as
    -- one more (last) file of the package, so it harvests the import names written there
    let inp2 := { inp with fileImports := inp.fileImports ++
                    d.imports.filterMap (fun i => if i.alias ≠ [] then some (i.path, i.alias) else none) }
    kv "fixpoint" (bstr (match genData Ord.id fuel inp2 with
      | .ok d2 => decide (renderNoop d2 = renderNoop d)
      | .error _ => false))
    kv "pred.imports" (bstr (a.importsOK && sortedByPath d.imports))
    kv "pred.names" (bstr (a.namesOK inp.stub))
  let same := match r1, r2 with
    | .ok a, .ok b => decide (a = b)
    | .error a, .error b => decide (a = b)
    | _, _ => false
  kv "orddep" (if same then s%"false" else s%"true")
  kv "wf.base" (bstr (WF.base inp))
  kv "wf.imports" (bstr (WF.imports inp))
  kv "wf.names" (bstr (WF.names inp))
  kv "wf.generic" (bstr (WF.generic inp))
  kv "wf.ensure" (bstr (WF.ensure inp))
  kv "wf.dest" (bstr (WF.dest inp))
  kv "wf" (bstr (WF.all inp))
  kv "wf.core" (bstr (WF.core inp))
  -- no conflict resolution happened in this run: every import still has the alias (or none) it
  -- arrived with, so "collides with nothing" can be judged on the final import block
  kv "quals.stable" (bstr (match a1 with
    | .ok a => a.reg.imports.all fun p => p.alias = aliasOf a.reg.aliases p.path
    | .error _ => true))
  kv "wf.dyn" (bstr (WF.core inp && same && (match a1 with
    | .ok a => a.importsOK && a.namesOK inp.stub
    | .error _ => true)))
  kv "dst" (dstPath inp)
  kv "end" id

/- ------------------------- runtime scripts (P-rt) ------------------------- -/
open Moq.Seq in
def toUOp (x : Sexp) : Option UOp :=
  match x with
  | .list (.atom t :: rest) =>
    if t = s%"call" then
      match rest with
      | m :: args => do pure (.call (← Sexp.getStr m) (← args.mapM Sexp.getNat))
      | _ => none
    else if t = s%"calls" then
      match rest with
      | [m] => (Sexp.getStr m).map .calls
      | _ => none
    else if t = s%"reset" then
      match rest with
      | [m] => (Sexp.getStr m).map .resetOne
      | _ => none
    else if t = s%"resetall" then some .resetAll
    else none
  | _ => none

open Moq.Seq in
def toBeh (x : Sexp) : Option (Str × Beh) :=
  match x with
  | .list [m, ops, pn, rs] => do
    let ops ← (← Sexp.tagged s%"ops" ops).mapM toUOp
    let pn ← Sexp.tagged s%"panic" pn
    let p ← (match pn with
             | [] => some none
             | [v] => (Sexp.getNat v).map some
             | _ => none)
    let rs ← (← Sexp.tagged s%"results" rs).mapM Sexp.getNat
    pure ((← Sexp.getStr m), { ops := ops, panics := p, results := rs })
  | _ => none

def natList (l : List Nat) : Str := Str.join s%"," (l.map Str.ofNat)

open Moq.Seq in
def evStr : Ev → Option Str
  | .invoked m args sp =>
    some (s%"inv " ++ m ++ s%" " ++ natList args ++ (if sp then s%" spread" else s%" nospread"))
  | .snapshot m _ cs =>
    some (s%"snap " ++ m ++ s%" " ++ Str.ofNat cs.length ++ s%"[" ++
      Str.join s%"|" (cs.map fun r => Str.join s%"," (r.map fun (f, v) => f ++ s%"=" ++ Str.ofNat v)) ++ s%"]")
  | _ => none

open Moq.Seq in
def outStr : Outcome → Str
  | .ret vs => s%"ret " ++ natList vs
  | .panicUser v => s%"panic-user " ++ Str.ofNat v
  | .panicNil msg => s%"panic-nil " ++ msg
  | .deadlock => s%"deadlock"
  | .fatal w => s%"fatal " ++ w
  | .outOfFuel => s%"out-of-fuel"

open Moq.Seq in
def runRt (id : Str) (inp : Input) (mockName : Str) (maxDepth : Nat) (funcs : List (Str × Beh))
    (script : List UOp) : IO Unit := do
  match genData Ord.id fuel inp with
  | .error e => kv "err" e.message
  | .ok d =>
    match genFile d with
    | none => kv "err" s%"<template execution failed>"
    | some f =>
      match f.mocks.find? (·.mockName = mockName) with
      | none => kv "err" s%"<no such mock>"
      | some mk =>
        let c : Cfg := { funcs := fun m => (funcs.find? (·.1 = m)).map (·.2), grow := fun n => 2 * n + 1,
                         file := mk, maxDepth := maxDepth }
        let mut s := St.init
        let mut lines : List Str := []
        let mut snaps : List (Str × Hdr × List Rec) := []
        for op in script do
          let (s', evs, o) := runOp c 0 10000 op s
          s := s'
          lines := lines ++ evs.filterMap evStr ++ [outStr o]
          snaps := snaps ++ evs.filterMap fun e => match e with
            | .snapshot m h cs => some (m, h, cs) | _ => none
        let stable := snaps.all fun (m, h, cs) => s.contents m h = cs
        kv "rt" (Str.join s%";" lines)
        kv "stable" (bstr stable)
  kv "end" id

def handleRt (x : Sexp) : Option (IO Unit) :=
  match x with
  | .list [.atom t, id, mk, md, fs, sc, cs] =>
    if t ≠ s%"rt" then none else do
    let id ← Sexp.getStr id
    let [mkn] ← Sexp.tagged s%"mock" mk | none
    let [mdn] ← Sexp.tagged s%"maxdepth" md | none
    let funcs ← (← Sexp.tagged s%"funcs" fs).mapM toBeh
    let script ← (← Sexp.tagged s%"script" sc).mapM toUOp
    let (_, inp) ← Sexp.toCase cs
    pure (runRt id inp (← Sexp.getStr mkn) (← Sexp.getNat mdn) funcs script)
  | _ => none

/- ------------------------- CLI scenarios (P-cli) ------------------------- -/
open Moq.Cli in
def nodeStr : Node → Str
  | .absent => s%"absent"
  | .file b => s%"file:" ++ b
  | .dir => s%"dir"

open Moq.Cli in
def effStr : FsEff → Str
  | .remove p => s%"remove " ++ p
  | .mkdirAll p => s%"mkdirall " ++ p
  | .writeFile p _ => s%"writefile " ++ p
  | .load d => s%"load " ++ d

open Moq.Cli in
def optErr (x : List Sexp) : Option (Option ErrV) :=
  match x with
  | [] => some none
  | [.atom a] => if a = s%"notexist" then some (some .notExist) else none
  | [.str m] => some (some (.msg m))
  | _ => none

open Moq.Cli in
def exceptOf (x : List Sexp) : Option (Except Str Str) :=
  match x with
  | [.atom a, .str m] => if a = s%"ok" then some (.ok m) else if a = s%"err" then some (.error m) else none
  | _ => none

/-- `(cli ID (out O) (rm B) (args A…) (prior absent|dir|(file "…")) (new ok ""|err "m") (mock ok "text"|err "m")
      (fremove …) (fmkdir …) (fwrite …))` -/
def handleCli (x : Sexp) : Option (IO Unit) :=
  match x with
  | .list (.atom t :: id :: fs) =>
    if t ≠ s%"cli" then none else do
    let id ← Sexp.getStr id
    let [o] ← Sexp.field s%"out" fs | none
    let [rm] ← Sexp.field s%"rm" fs | none
    let args ← (← Sexp.field s%"args" fs).mapM Sexp.getStr
    let prior ← Sexp.field s%"prior" fs
    let pnode ← (match prior with
                 | [.atom a] => if a = s%"absent" then some Node.absent else if a = s%"dir" then some Node.dir else none
                 | [.str b] => some (Node.file b)
                 | _ => none)
    let nw ← exceptOf (← Sexp.field s%"new" fs)
    let mk ← exceptOf (← Sexp.field s%"mock" fs)
    let fr ← optErr (← Sexp.field s%"fremove" fs)
    let fm ← optErr (← Sexp.field s%"fmkdir" fs)
    let fw ← optErr (← Sexp.field s%"fwrite" fs)
    let out ← Sexp.getStr o
    let flags : Flags := { outFile := out, pkgName := [], formatter := [], stubImpl := false, skipEnsure := false,
                           withResets := false, remove := (← Sexp.getBool rm), args := args }
    let lib : Lib := { new := fun _ _ _ => nw.map fun _ => 1, mock := fun _ _ => mk }
    let fs0 : FS := fun p => if p = out then pnode else .absent
    pure do
      match run Generated.runProg ⟨flags, { remove := fr, mkdir := fm, write := fw }, lib⟩ fs0 with
      | none => kv "cli" s%"<interpretation failed>"
      | some r =>
        kv "cli" s%"ok"
        kv "err" (match r.err with
                  | none => s%"nil"
                  | some .notExist => s%"<not-exist>"
                  | some (.msg m) => m)
        kv "stdout" r.world.stdout
        kv "outnode" (nodeStr (r.world.fs out))
        kv "effects" (Str.join s%";" (r.world.effects.map effStr))
        kv "spec" (bstr (decide (r.err = (runSpec ⟨flags, { remove := fr, mkdir := fm, write := fw }, lib⟩ fs0).err)))
      kv "end" id
  | _ => none

partial def loop (h : IO.FS.Stream) : IO Unit := do
  let line ← h.getLine
  if line.isEmpty then return ()
  let l := line.toList.filter (fun c => c ≠ '\n' ∧ c ≠ '\r')
  if l.isEmpty then loop h else
  match Sexp.parse l with
  | none => IO.println "parse-error\tsexp"; IO.println "end\t?"
  | some (x, _) =>
    match handleRt x with
    | some act => act
    | none =>
    match handleCli x with
    | some act => act
    | none =>
    match Sexp.toCase x with
    | none => IO.println "parse-error\tcase"; IO.println "end\t?"
    | some (id, inp) => runCase id inp
  (← IO.getStdout).flush
  loop h

def main : IO Unit := do loop (← IO.getStdin)
