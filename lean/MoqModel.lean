import MoqModel.Render
import MoqModel.Sexp
