import MoqModel.Render
import MoqModel.Sexp
import MoqModel.WF
import MoqModel.GoFile
