import MoqModel.Seq
/-
  Helper lemmas about the sequential semantics (kept apart from the property theorems).
-/
namespace Moq.Seq
open Moq

theorem lookup_cons_ne (n k : Str) (a : V) (ps : List (Str × V)) (i : Rec) (h : Hdr) (co : Str)
    (hne : k ≠ n) :
    Env.lookup ⟨(n, a) :: ps, i, h, co⟩ k = Env.lookup ⟨ps, i, h, co⟩ k := by
  have : ¬ (n = k) := fun e => hne e.symm
  simp [Env.lookup, List.find?, this]

theorem lookup_cons_eq (n : Str) (a : V) (ps : List (Str × V)) (i : Rec) (h : Hdr) (co : Str) :
    Env.lookup ⟨(n, a) :: ps, i, h, co⟩ n = some a := by
  simp [Env.lookup, List.find?]

theorem lookupAll_cons_notin (n : Str) (a : V) (ps : List (Str × V)) (i : Rec) (h : Hdr) (co : Str)
    (ks : List Str) (hn : n ∉ ks) :
    lookupAll ⟨(n, a) :: ps, i, h, co⟩ ks = lookupAll ⟨ps, i, h, co⟩ ks := by
  induction ks with
  | nil => rfl
  | cons k ks ih =>
    have hk : k ≠ n := fun e => hn (e ▸ List.mem_cons_self)
    have hks : n ∉ ks := fun m => hn (List.mem_cons_of_mem _ m)
    simp only [lookupAll, lookup_cons_ne n k a ps i h co hk, ih hks]

/-- looking the parameters up by name in `zip names args` gives back the arguments, provided
    the names are pairwise distinct -/
theorem lookupAll_zip (names : List Str) (args : List V) (hlen : args.length = names.length)
    (hnd : names.Nodup) (i : Rec) (h : Hdr) (co : Str) :
    lookupAll ⟨names.zip args, i, h, co⟩ names = some args := by
  induction names generalizing args with
  | nil =>
    cases args with
    | nil => rfl
    | cons a as => simp at hlen
  | cons n ns ih =>
    cases args with
    | nil => simp at hlen
    | cons a as =>
      have hlen' : as.length = ns.length := by simpa using hlen
      have hn : n ∉ ns := (List.nodup_cons.mp hnd).1
      have hnd' : ns.Nodup := (List.nodup_cons.mp hnd).2
      simp only [List.zip_cons_cons, lookupAll, lookup_cons_eq,
        lookupAll_cons_notin n a (ns.zip as) i h co ns hn, ih as hlen' hnd']

/-- `lookupAll` ignores the locals other than the parameters -/
theorem lookupAll_params (ps : List (Str × V)) (i i' : Rec) (h h' : Hdr) (co co' : Str) (ks : List Str) :
    lookupAll ⟨ps, i, h, co⟩ ks = lookupAll ⟨ps, i', h', co'⟩ ks := by
  induction ks with
  | nil => rfl
  | cons k ks ih => simp only [lookupAll, Env.lookup, ih]

theorem upd_same {β} (f : Str → β) (k : Str) (v : β) : upd f k v k = v := by simp [upd]

theorem upd_restore {β} (f : Str → β) (k : Str) (v v' : β) (h : f k = v) : upd (upd f k v') k v = f := by
  funext x
  by_cases hx : x = k
  · subst hx; simp [upd, h]
  · simp [upd, hx]

@[simp] theorem appendRec_wlocked (g : Nat → Nat) (s : St) (m : Str) (r : Rec) :
    (appendRec g s m r).wlocked = s.wlocked := by
  simp only [appendRec]; split <;> rfl

@[simp] theorem appendRec_rlocked (g : Nat → Nat) (s : St) (m : Str) (r : Rec) :
    (appendRec g s m r).rlocked = s.rlocked := by
  simp only [appendRec]; split <;> rfl

/-- `append` neither reads nor writes the lock words -/
theorem appendRec_locks (g : Nat → Nat) (s : St) (m : Str) (r : Rec) (w : Str → Bool) (rl : Str → Nat) :
    appendRec g { s with wlocked := w, rlocked := rl } m r =
      { appendRec g s m r with wlocked := w, rlocked := rl } := by
  simp only [appendRec]; split <;> rfl

theorem appendRec_eta (g : Nat → Nat) (s : St) (m : Str) (r : Rec) :
    ({ hdr := (appendRec g s m r).hdr, arrays := (appendRec g s m r).arrays,
       wlocked := s.wlocked, rlocked := s.rlocked } : St) = appendRec g s m r := by
  have h1 := appendRec_wlocked g s m r
  have h2 := appendRec_rlocked g s m r
  cases h : appendRec g s m r with
  | mk a b c d => simp [h] at h1 h2; subst h1; subst h2; rfl

end Moq.Seq
