import MoqModel.Registry
/-
  RegistryLemmas: invariants of the import registry (`AddImport`, `resolveImportConflict`).
-/
namespace Moq

theorem setAliasIn_paths (path al : Str) (l : List Pkg) :
    (setAliasIn path al l).map (·.path) = l.map (·.path) := by
  induction l with
  | nil => rfl
  | cons p ps ih =>
    simp only [setAliasIn]
    split <;> simp [ih]

theorem setAlias_paths (s : RS) (path al : Str) :
    (s.setAlias path al).pend.path = s.pend.path ∧
    (s.setAlias path al).imps.map (·.path) = s.imps.map (·.path) := by
  unfold RS.setAlias
  split
  · exact ⟨rfl, rfl⟩
  · exact ⟨rfl, setAliasIn_paths _ _ _⟩

theorem setAliasIn_names (path al : Str) (l : List Pkg) :
    (setAliasIn path al l).map (·.name) = l.map (·.name) := by
  induction l with
  | nil => rfl
  | cons p ps ih =>
    simp only [setAliasIn]
    split <;> simp [ih]

theorem resolveStep_paths (o : Ord) (deeper : RS → Str → Str → Option RS) (lvl : Nat) (skip : Option Str)
    (hd : ∀ s s' p q, deeper s p q = some s' →
      s'.pend.path = s.pend.path ∧ s'.imps.map (·.path) = s.imps.map (·.path))
    (s s' : RS) (p : Str) (h : resolveStep o deeper lvl skip s p = some s') :
    s'.pend.path = s.pend.path ∧ s'.imps.map (·.path) = s.imps.map (·.path) := by
  unfold resolveStep at h
  split at h
  · split at h
    · cases h; exact setAlias_paths _ _ _
    · exact hd _ _ _ _ h
  · cases h; exact setAlias_paths _ _ _

/-- conflict resolution only ever changes aliases: the set of imported paths (and the pending
    package's path) is untouched -/
theorem resolve_paths (o : Ord) :
    ∀ (fuel : Nat) (s s' : RS) (a b : Str) (lvl : Nat), resolve o fuel s a b lvl = some s' →
      s'.pend.path = s.pend.path ∧ s'.imps.map (·.path) = s.imps.map (·.path) := by
  intro fuel
  induction fuel with
  | zero => intro s s' a b lvl h; simp [resolve] at h
  | succ n ih =>
    intro s s' a b lvl h
    simp only [resolve] at h
    split at h
    · exact ih s s' a b (lvl + 1) h
    · have hd : ∀ s s' p q, (fun s p q => resolve o n s p q (lvl + 1)) s p q = some s' →
          s'.pend.path = s.pend.path ∧ s'.imps.map (·.path) = s.imps.map (·.path) :=
        fun s s' p q hh => ih s s' p q (lvl + 1) hh
      cases h1 : resolveStep o (fun s p q => resolve o n s p q (lvl + 1)) lvl (some b) s a with
      | none => simp [h1] at h
      | some s1 =>
        simp [h1] at h
        have r1 := resolveStep_paths o _ lvl (some b) hd s s1 a h1
        have r2 := resolveStep_paths o _ lvl none hd s1 s' b h
        exact ⟨r2.1.trans r1.1, r2.2.trans r1.2⟩

/-- paths of the registry after `AddImport`: unchanged, or the new stripped path appended -/
theorem addImport_paths (o : Ord) (fuel : Nat) (r r' : Registry) (p : PkgRef) (res : Option Str)
    (h : addImport o fuel r p = some (r', res)) :
    r'.imports.map (·.path) = r.imports.map (·.path) ∨
    (r'.imports.map (·.path) = r.imports.map (·.path) ++ [stripVendorPath p.path] ∧
      stripVendorPath p.path ≠ r.moqPkgPath ∧ r.lookup (stripVendorPath p.path) = none) := by
  unfold addImport at h
  simp only [] at h
  split at h
  · cases h; exact Or.inl rfl
  · rename_i hne
    split at h
    · cases h; exact Or.inl rfl
    · rename_i hl
      split at h
      · simp only [Option.map_eq_some_iff] at h
        obtain ⟨s, hr, heq⟩ := h
        cases heq
        have rp := resolve_paths o fuel _ s _ _ 0 hr
        right
        refine ⟨?_, hne, hl⟩
        simp [rp.1, rp.2]
      · cases h
        right
        exact ⟨by simp, hne, hl⟩

/-- `AddImport` keeps the other registry fields -/
theorem addImport_fields (o : Ord) (fuel : Nat) (r r' : Registry) (p : PkgRef) (res : Option Str)
    (h : addImport o fuel r p = some (r', res)) :
    r'.moqPkgPath = r.moqPkgPath ∧ r'.aliases = r.aliases ∧ r'.srcName = r.srcName ∧ r'.srcPath = r.srcPath := by
  unfold addImport at h
  simp only [] at h
  split at h
  · cases h; exact ⟨rfl, rfl, rfl, rfl⟩
  · split at h
    · cases h; exact ⟨rfl, rfl, rfl, rfl⟩
    · split at h
      · simp only [Option.map_eq_some_iff] at h
        obtain ⟨s, hr, heq⟩ := h
        cases heq
        exact ⟨rfl, rfl, rfl, rfl⟩
      · cases h; exact ⟨rfl, rfl, rfl, rfl⟩

/-- registry invariant: each path at most once, and never the destination package itself -/
structure RegOK (r : Registry) : Prop where
  nodup : (r.imports.map (·.path)).Nodup
  notDst : ∀ p ∈ r.imports, p.path ≠ r.moqPkgPath

theorem lookup_none_notin (r : Registry) (path : Str) (h : r.lookup path = none) :
    path ∉ r.imports.map (·.path) := by
  unfold Registry.lookup at h
  intro hm
  obtain ⟨p, hp, hpe⟩ := List.mem_map.mp hm
  have := List.find?_eq_none.mp h p hp
  simp [hpe] at this

/-- **`AddImport` preserves: every path once, the destination package never imported** -/
theorem addImport_regOK (o : Ord) (fuel : Nat) (r r' : Registry) (p : PkgRef) (res : Option Str)
    (ok : RegOK r) (h : addImport o fuel r p = some (r', res)) : RegOK r' := by
  have hf := addImport_fields o fuel r r' p res h
  have key : ∀ q ∈ r'.imports, q.path ∈ r'.imports.map (·.path) := fun q hq => List.mem_map.mpr ⟨q, hq, rfl⟩
  rcases addImport_paths o fuel r r' p res h with hp | ⟨hp, hne, hl⟩
  · refine ⟨by rw [hp]; exact ok.nodup, ?_⟩
    intro q hq
    have : q.path ∈ r.imports.map (·.path) := by rw [← hp]; exact key q hq
    obtain ⟨q0, hq0, he⟩ := List.mem_map.mp this
    rw [hf.1, ← he]; exact ok.notDst q0 hq0
  · refine ⟨?_, ?_⟩
    · rw [hp]
      refine List.nodup_append.mpr ⟨ok.nodup, by simp, ?_⟩
      intro a ha b hb
      simp at hb; subst hb
      intro e; subst e
      exact lookup_none_notin r _ hl ha
    · intro q hq
      have : q.path ∈ r.imports.map (·.path) ++ [stripVendorPath p.path] := by rw [← hp]; exact key q hq
      rcases List.mem_append.mp this with h1 | h2
      · obtain ⟨q0, hq0, he⟩ := List.mem_map.mp h1
        rw [hf.1, ← he]; exact ok.notDst q0 hq0
      · simp at h2; rw [hf.1, h2]; exact hne

end Moq
