import MoqModel.HeapLemmas
/-
  History: the events emitted by the sequential semantics describe the heap faithfully, for
  every execution of generated code including re-entrant callbacks.
-/
namespace Moq.Seq
open Moq

abbrev Views := Str → List Rec

/-- the list model: a recorded call appends, a reset clears -/
def applyEv (v : Views) : Ev → Views
  | .recorded m r => upd v m (v m ++ [r])
  | .cleared m => upd v m []
  | _ => v

def replay (v : Views) (evs : List Ev) : Views := evs.foldl applyEv v

/-- every snapshot event reports exactly the list model's value at that point of the history -/
def snapsExact : Views → List Ev → Prop
  | _, [] => True
  | v, .snapshot m _ cs :: rest => cs = v m ∧ snapsExact v rest
  | v, e :: rest => snapsExact (applyEv v e) rest

/-- every header handed out during `evs` still denotes, in state `s'`, what it denoted then -/
def snapsStable (s' : St) (evs : List Ev) : Prop :=
  ∀ m h cs, Ev.snapshot m h cs ∈ evs → SnapOK s' m h ∧ s'.contents m h = cs

/-- `s --evs--> s'` is a faithful step -/
structure Step (s : St) (evs : List Ev) (s' : St) : Prop where
  wf : s'.WF
  view : ∀ m, s'.view m = replay s.view evs m
  keep : ∀ m h, SnapOK s m h → SnapOK s' m h ∧ s'.contents m h = s.contents m h
  exact : snapsExact s.view evs
  stable : snapsStable s' evs

theorem replay_append (v : Views) (a b : List Ev) : replay v (a ++ b) = replay (replay v a) b := by
  simp [replay, List.foldl_append]

theorem snapsExact_append (v : Views) (a b : List Ev) :
    snapsExact v a → snapsExact (replay v a) b → snapsExact v (a ++ b) := by
  induction a generalizing v with
  | nil => intro _ h; simpa [replay] using h
  | cons e es ih =>
    intro h1 h2
    cases e with
    | snapshot m hd cs =>
      simp only [snapsExact, List.cons_append] at h1 ⊢
      refine ⟨h1.1, ih v h1.2 ?_⟩
      simpa [replay, applyEv] using h2
    | recorded m r =>
      simp only [snapsExact, List.cons_append] at h1 ⊢
      exact ih _ h1 (by simpa [replay, List.foldl_cons] using h2)
    | cleared m =>
      simp only [snapsExact, List.cons_append] at h1 ⊢
      exact ih _ h1 (by simpa [replay, List.foldl_cons] using h2)
    | invoked m a sp =>
      simp only [snapsExact, List.cons_append] at h1 ⊢
      exact ih _ h1 (by simpa [replay, List.foldl_cons] using h2)

theorem Step.refl (s : St) (wf : s.WF) : Step s [] s :=
  ⟨wf, fun _ => rfl, fun _ _ ok => ⟨ok, rfl⟩, trivial, fun _ _ _ h => by cases h⟩

theorem Step.trans {s s1 s2 : St} {e1 e2 : List Ev} (a : Step s e1 s1) (b : Step s1 e2 s2) :
    Step s (e1 ++ e2) s2 := by
  have hv : s1.view = replay s.view e1 := funext a.view
  refine ⟨b.wf, ?_, ?_, ?_, ?_⟩
  · intro m; rw [b.view m, replay_append, hv]
  · intro m h ok
    have k1 := a.keep m h ok
    have k2 := b.keep m h k1.1
    exact ⟨k2.1, k2.2.trans k1.2⟩
  · exact snapsExact_append _ _ _ a.exact (by rw [← hv]; exact b.exact)
  · intro m h cs hmem
    rcases List.mem_append.mp hmem with h1 | h2
    · have st := a.stable m h cs h1
      have k := b.keep m h st.1
      exact ⟨k.1, k.2.trans st.2⟩
    · exact b.stable m h cs h2

/-- changing only lock words is invisible to the heap -/
theorem Step.locks (s : St) (wf : s.WF) (w : Str → Bool) (r : Str → Nat) :
    Step s [] { s with wlocked := w, rlocked := r } :=
  ⟨⟨wf.inb, wf.cap, wf.len, wf.zero⟩, fun _ => rfl,
   fun _ _ ok => ⟨⟨ok.inb, ok.fits, ok.below⟩, rfl⟩, trivial, fun _ _ _ h => by cases h⟩

theorem Step.append (g : Nat → Nat) (s : St) (m : Str) (r : Rec) (wf : s.WF) :
    Step s [.recorded m r] (appendRec g s m r) := by
  have v := appendRec_view g s m r wf
  refine ⟨v.2, ?_, fun m' h ok => ⟨(appendRec_snap g s m r wf m' h ok).2, (appendRec_snap g s m r wf m' h ok).1⟩, trivial, fun _ _ _ h => ?_⟩
  · intro m'
    by_cases hm : m' = m
    · subst hm; simp [replay, applyEv, upd_same, v.1]
    · have o := appendRec_other g s m m' r hm
      simp [replay, applyEv, upd_ne _ _ _ _ hm, St.view, St.contents, o.1, o.2]
  · simp at h

theorem Step.clear (s : St) (m : Str) (wf : s.WF) : Step s [.cleared m] (clearHdr s m) := by
  have v := clearHdr_view s m wf
  refine ⟨v.2.2, ?_, fun m' h ok => ⟨(clearHdr_snap s m wf m' h ok).2, (clearHdr_snap s m wf m' h ok).1⟩,
          trivial, fun _ _ _ h => ?_⟩
  · intro m'
    by_cases hm : m' = m
    · subst hm; simp [replay, applyEv, upd_same, v.1]
    · simp [replay, applyEv, upd_ne _ _ _ _ hm, v.2.1 m' hm]
  · simp at h

/-- handing out the current header of `m` -/
theorem Step.snap (s : St) (m : Str) (wf : s.WF) :
    Step s [.snapshot m (s.hdr m) (s.contents m (s.hdr m))] s := by
  refine ⟨wf, fun _ => rfl, fun _ _ ok => ⟨ok, rfl⟩, ⟨rfl, trivial⟩, ?_⟩
  intro m' h cs hmem
  simp at hmem
  obtain ⟨rfl, rfl, rfl⟩ := hmem
  exact ⟨snapOK_current s m' wf, rfl⟩

/-- a callback runner is faithful -/
def CbOK (cb : Callback) : Prop := ∀ b s, s.WF → Step s (cb b s).2.1 (cb b s).1

/-- `return calls` is only reached with `calls` holding the header read under the lock, with
    nothing in between that could change it (`ok` = "calls is current") -/
def snapSafe (ok : Bool) : List Stmt → Bool
  | [] => true
  | .readCalls _ :: r => snapSafe true r
  | .returnCalls :: _ => ok
  | .appendInfo _ :: r => snapSafe false r
  | .clearCalls _ :: r => snapSafe false r
  | .invoke _ _ _ :: r => snapSafe false r
  | _ :: r => snapSafe ok r

theorem step_cons {s s1 s2 : St} {e : Ev} {evs : List Ev} (a : Step s [e] s1) (b : Step s1 evs s2) :
    Step s (e :: evs) s2 := by
  simpa using a.trans b

/-- **every execution of generated statements is faithful to the list model** -/
theorem execStmts_step (c : Cfg) (cb : Callback) (hcb : CbOK cb) :
    ∀ (stmts : List Stmt) (ok : Bool) (e : Env) (s : St), s.WF → snapSafe ok stmts = true →
      (ok = true → e.calls = s.hdr e.callsOf) →
      Step s (execStmts c cb stmts e s).2.1 (execStmts c cb stmts e s).1 := by
  intro stmts
  induction stmts with
  | nil => intro ok e s wf _ _; simpa [execStmts] using Step.refl s wf
  | cons st rest ih =>
    intro ok e s wf hs he
    cases st with
    | nilPanic m msg =>
      simp only [execStmts]
      split
      · exact Step.refl s wf
      · exact ih ok e s wf (by simpa [snapSafe] using hs) he
    | mkInfo fs =>
      simp only [execStmts]
      split
      · exact Step.refl s wf
      · exact ih ok _ s wf (by simpa [snapSafe] using hs) he
    | lock m =>
      simp only [execStmts]
      split
      · exact Step.refl s wf
      · have st := Step.locks s wf (upd s.wlocked m true) s.rlocked
        have := ih ok e _ st.wf (by simpa [snapSafe] using hs) he
        simpa using st.trans this
    | unlock m =>
      simp only [execStmts]
      split
      · exact Step.refl s wf
      · have st := Step.locks s wf (upd s.wlocked m false) s.rlocked
        have := ih ok e _ st.wf (by simpa [snapSafe] using hs) he
        simpa using st.trans this
    | rlock m =>
      simp only [execStmts]
      split
      · exact Step.refl s wf
      · have st := Step.locks s wf s.wlocked (upd s.rlocked m (s.rlocked m + 1))
        have := ih ok e _ st.wf (by simpa [snapSafe] using hs) he
        simpa using st.trans this
    | runlock m =>
      simp only [execStmts]
      split
      · exact Step.refl s wf
      · have st := Step.locks s wf s.wlocked (upd s.rlocked m (s.rlocked m - 1))
        have := ih ok e _ st.wf (by simpa [snapSafe] using hs) he
        simpa using st.trans this
    | appendInfo m =>
      simp only [execStmts]
      have st := Step.append c.grow s m e.info wf
      have := ih false e _ st.wf (by simpa [snapSafe] using hs) (by simp)
      exact step_cons st this
    | stubReturn m vars =>
      simp only [execStmts]
      split
      · exact Step.refl s wf
      · exact ih ok e s wf (by simpa [snapSafe] using hs) he
    | invoke m args ret =>
      simp only [execStmts]
      split
      · exact Step.refl s wf
      · split
        · exact Step.refl s wf
        · rename_i b _ _ _ _
          have h := hcb b s wf
          refine ⟨h.wf, ?_, h.keep, ?_, ?_⟩
          · intro m'; simpa [replay, applyEv] using h.view m'
          · simpa [snapsExact, applyEv] using h.exact
          · intro m' hd cs hmem
            simp at hmem
            exact h.stable m' hd cs hmem
    | declCalls fs => simp only [execStmts]; exact ih ok e s wf (by simpa [snapSafe] using hs) he
    | readCalls m =>
      simp only [execStmts]
      exact ih true _ s wf (by simpa [snapSafe] using hs) (by simp)
    | returnCalls =>
      simp only [execStmts]
      have hok : ok = true := by simpa [snapSafe] using hs
      rw [he hok]
      exact Step.snap s e.callsOf wf
    | clearCalls m =>
      simp only [execStmts]
      have st := Step.clear s m wf
      have := ih false e _ st.wf (by simpa [snapSafe] using hs) (by simp)
      exact step_cons st this

/-- all four kinds of generated function of a mock are snapshot-safe -/
def FileSafe (f : MockF) : Prop :=
  ∀ op body env, opBody f op = some (body, env) → snapSafe false body = true

theorem finish_fst_snd (b : Beh) (r : St × List Ev × Outcome) :
    (finish b r).1 = r.1 ∧ (finish b r).2.1 = r.2.1 := by
  rcases r with ⟨s, evs, o⟩
  cases o <;> simp [finish]

/-- **all histories**: every sequence of operations of user code on a mock – calls, accessor
    reads, resets, with configured functions re-entering the mock to any depth – is faithful
    to the list model: views are the replay of the recorded/cleared events, every accessor
    result is exactly the list model's value at that moment, and every slice ever returned
    still denotes the same records at the end. -/
theorem run_step (c : Cfg) (hf : FileSafe c.file) :
    ∀ fuel,
      (∀ d op s, s.WF → Step s (runOp c d fuel op s).2.1 (runOp c d fuel op s).1) ∧
      (∀ d ops s, s.WF → Step s (runOps c d fuel ops s).2.1 (runOps c d fuel ops s).1) := by
  intro fuel
  induction fuel with
  | zero =>
    exact ⟨fun d op s wf => by simpa [runOp] using Step.refl s wf,
           fun d ops s wf => by simpa [runOps] using Step.refl s wf⟩
  | succ n ih =>
    have hop : ∀ d op s, s.WF → Step s (runOp c d n op s).2.1 (runOp c d n op s).1 := ih.1
    have hops : ∀ d ops s, s.WF → Step s (runOps c d n ops s).2.1 (runOps c d n ops s).1 := ih.2
    constructor
    · intro d op s wf
      simp only [runOp]
      cases hb : opBody c.file op with
      | none => simpa using Step.refl s wf
      | some be =>
        rcases be with ⟨body, env⟩
        simp only []
        apply execStmts_step c _ _ body false env s wf (hf op body env hb) (by simp)
        intro b s' wf'
        have := hops (d + 1) (if d < c.maxDepth then b.ops else []) s' wf'
        have fs := finish_fst_snd b (runOps c (d + 1) n (if d < c.maxDepth then b.ops else []) s')
        rw [fs.1, fs.2]
        exact this
    · intro d ops s wf
      cases ops with
      | nil => simpa [runOps] using Step.refl s wf
      | cons op ops =>
        simp only [runOps]
        have h1 := hop d op s wf
        rcases hr : runOp c d n op s with ⟨s1, e1, o1⟩
        rw [hr] at h1
        cases o1 with
        | ret vs =>
          simp only []
          have h2 := hops d ops s1 h1.wf
          rcases hr2 : runOps c d n ops s1 with ⟨s2, e2, o2⟩
          rw [hr2] at h2
          exact h1.trans h2
        | panicUser v => exact h1
        | panicNil m => exact h1
        | deadlock => exact h1
        | fatal w => exact h1
        | outOfFuel => exact h1

end Moq.Seq
