import MoqModel.ConcLocks
/-
  ConcHeap: the memory of the mock under every schedule – the ghost log of committed records is
  what the accessor returns, `append`'s three micro-steps commit atomically, and a slice handed
  out earlier keeps denoting the same records.
-/
namespace Moq.Conc
open Moq Moq.Seq

/-- the sequential view of the shared memory -/
def G.toSt (g : G) : St := { hdr := g.hdr, arrays := g.arrays, wlocked := fun _ => false, rlocked := fun _ => 0 }

/-- what `(as1, h') = cellStep … as h r` guarantees, given a well-formed method state `(h, as)` -/
structure CellOK (h : Hdr) (as as1 : List (List Rec)) (h' : Hdr) (r : Rec) : Prop where
  len_ge : as.length ≤ as1.length
  old_cap : (as1.getD h.arr []).length = h.cap
  old_view : (as1.getD h.arr []).take h.len = (as.getD h.arr []).take h.len
  zero : as1.getD 0 [] = []
  new_inb : h'.arr < as1.length
  new_cap : (as1.getD h'.arr []).length = h'.cap
  new_len : h'.len ≤ h'.cap
  new_view : (as1.getD h'.arr []).take h'.len = (as.getD h.arr []).take h.len ++ [r]
  /-- in place (same array, one longer) or a fresh array beyond every existing one -/
  place : (h'.arr = h.arr ∧ h'.len = h.len + 1) ∨ (h'.arr = as.length)
  /-- cells below the old length of any existing array are untouched -/
  keep : ∀ a n, a < as.length → (a = h.arr → n ≤ h.len) → (as1.getD a []).take n = (as.getD a []).take n
  keep_len : ∀ a, a < as.length → (as1.getD a []).length = (as.getD a []).length

theorem cellStep_ok (grow : Nat → Nat) (h : Hdr) (as : List (List Rec)) (r : Rec)
    (inb : h.arr < as.length) (cap : (as.getD h.arr []).length = h.cap) (len : h.len ≤ h.cap)
    (zero : as.getD 0 [] = []) :
    CellOK h as (cellStep grow as h r).1 (cellStep grow as h r).2 r := by
  have cap' : (as[h.arr]?.getD []).length = h.cap := by simpa using cap
  unfold cellStep
  by_cases hlt : h.len < h.cap
  · simp only [hlt, if_true]
    have h0 : h.arr ≠ 0 := by
      intro e; rw [e] at cap; rw [zero] at cap; simp at cap; omega
    refine ⟨by simp, ?_, ?_, ?_, by simpa using inb, ?_, by simp; omega, ?_, Or.inl ⟨rfl, rfl⟩, ?_, ?_⟩
    · rw [getD_modify_eq _ _ _ inb]; simp [cap']
    · rw [getD_modify_eq _ _ _ inb]; exact take_set_ge _ _ _ _ (Nat.le_refl _)
    · rw [getD_modify_ne _ _ _ _ h0]; exact zero
    · simp only []; rw [getD_modify_eq _ _ _ inb]; simp [cap']
    · simp only []; rw [getD_modify_eq _ _ _ inb]; exact take_succ_set _ _ _ (by simp [cap']; omega)
    · intro a n _ hn
      by_cases ha : a = h.arr
      · subst ha; rw [getD_modify_eq _ _ _ inb]; exact take_set_ge _ _ _ _ (hn rfl)
      · rw [getD_modify_ne _ _ _ _ (fun e => ha e.symm)]
    · intro a _
      by_cases ha : a = h.arr
      · subst ha; rw [getD_modify_eq _ _ _ inb]; simp
      · rw [getD_modify_ne _ _ _ _ (fun e => ha e.symm)]
  · simp only [hlt, if_false]
    have hfull : ((as.getD h.arr []).take h.len).length = h.len := by simp [cap']; omega
    refine ⟨by simp, ?_, ?_, ?_, by simp, ?_, by simp; omega, ?_, Or.inr rfl, ?_, ?_⟩
    · rw [getD_append_lt _ _ _ inb]; exact cap
    · rw [getD_append_lt _ _ _ inb]
    · rw [getD_append_lt _ _ _ (by omega)]; exact zero
    · simp only []; rw [getD_append_len]; simp [hfull]; omega
    · simp only []; rw [getD_append_len]
      exact List.take_left' (by rw [List.length_append, hfull]; rfl)
    · intro a n ha _; rw [getD_append_lt _ _ _ ha]
    · intro a ha; rw [getD_append_lt _ _ _ ha]

end Moq.Conc

namespace Moq.Conc
open Moq Moq.Seq

/-- which `append` a goroutine is in the middle of: `(m, false)` = header read, cell not yet
    written; `(m, true)` = cell written, header not yet published -/
def phaseOf : List MI → Option (Str × Bool)
  | .wrCell m :: _ => some (m, false)
  | .wrHdr m :: _ => some (m, true)
  | _ => none

/-- the three steps of an `append` always come together, in order -/
def wfCode : Option (Str × Bool) → List MI → Bool
  | none, [] => true
  | some _, [] => false
  | none, .rdHdr m :: r => wfCode (some (m, false)) r
  | none, .wrCell _ :: _ => false
  | none, .wrHdr _ :: _ => false
  | none, .loc :: r => wfCode none r
  | none, .mayExit :: r => wfCode none r
  | none, .lock _ :: r => wfCode none r
  | none, .unlock _ :: r => wfCode none r
  | none, .rlock _ :: r => wfCode none r
  | none, .runlock _ :: r => wfCode none r
  | none, .rdSnap _ :: r => wfCode none r
  | none, .retSnap :: r => wfCode none r
  | none, .clear _ :: r => wfCode none r
  | none, .invoke _ :: r => wfCode none r
  | some (m, false), .wrCell m' :: r => m = m' && wfCode (some (m, true)) r
  | some (m, true), .wrHdr m' :: r => m = m' && wfCode none r
  | some _, _ :: _ => false

theorem wfCode_none_phase (c : List MI) (h : wfCode none c = true) : phaseOf c = none := by
  cases c with
  | nil => rfl
  | cons mi r => cases mi <;> simp [wfCode] at h <;> rfl

theorem wfCode_some_false (m : Str) (c : List MI) (h : wfCode (some (m, false)) c = true) :
    ∃ r, c = .wrCell m :: r ∧ wfCode (some (m, true)) r = true := by
  cases c with
  | nil => simp [wfCode] at h
  | cons mi r =>
    cases mi <;> simp [wfCode] at h
    case wrCell m' => exact ⟨r, by rw [h.1], h.2⟩

theorem wfCode_some_true (m : Str) (c : List MI) (h : wfCode (some (m, true)) c = true) :
    ∃ r, c = .wrHdr m :: r ∧ wfCode none r = true := by
  cases c with
  | nil => simp [wfCode] at h
  | cons mi r =>
    cases mi <;> simp [wfCode] at h
    case wrHdr m' => exact ⟨r, by rw [h.1], h.2⟩

/-- after executing its head, a well-formed code is well-formed for its new phase -/
theorem wfCode_tail (mi : MI) (rest : List MI) (h : wfCode (phaseOf (mi :: rest)) (mi :: rest) = true) :
    wfCode (phaseOf rest) rest = true := by
  cases mi <;> simp [phaseOf, wfCode] at h
  case rdHdr m =>
    obtain ⟨r, e, hr⟩ := wfCode_some_false m rest h
    subst e; simp [phaseOf, wfCode, hr]
  case wrCell m =>
    obtain ⟨r, e, hr⟩ := wfCode_some_true m rest h
    subst e; simp [phaseOf, wfCode, hr]
  all_goals (rw [wfCode_none_phase rest h]; exact h)

theorem wfCode_expand (s : Stmt) (rest : List MI) : wfCode none (expand s ++ rest) = wfCode none rest := by
  cases s <;> simp [expand, wfCode]

theorem wfCode_compile (body : List Stmt) : wfCode none (compile body) = true := by
  induction body with
  | nil => rfl
  | cons s ss ih =>
    simp only [compile, List.flatMap_cons] at ih ⊢
    rw [wfCode_expand]; exact ih

end Moq.Conc

namespace Moq.Conc
open Moq Moq.Seq

abbrev Snap := Str × Hdr × List Rec × Nat

structure HeapInv (g : G) : Prop where
  wf : g.toSt.WF
  /-- what the accessor would return is the ghost log of committed records -/
  log : ∀ m, g.toSt.view m = g.log m
  snapOK : ∀ t (x : Snap), x ∈ (g.thr t).snaps → SnapOK g.toSt x.1 x.2.1
  /-- a slice handed out earlier still denotes the records it denoted then -/
  ghost : ∀ t (x : Snap), x ∈ (g.thr t).snaps → g.contents x.1 x.2.1 = x.2.2.1
  epochLe : ∀ t (x : Snap), x ∈ (g.thr t).snaps → x.2.2.2 ≤ g.epoch x.1
  /-- between resets, every snapshot is a prefix of the log (hence of every later snapshot) -/
  pref : ∀ t (x : Snap), x ∈ (g.thr t).snaps → x.2.2.2 = g.epoch x.1 → x.2.2.1 <+: g.log x.1
  tri : ∀ t, wfCode (phaseOf (g.thr t).code) (g.thr t).code = true
  rd : ∀ t m rest, (g.thr t).code = .wrCell m :: rest → (g.thr t).h = g.hdr m
  wr : ∀ t m rest, (g.thr t).code = .wrHdr m :: rest →
      (g.thr t).h'.arr < (g.arrays m).length ∧
      ((g.arrays m).getD (g.thr t).h'.arr []).length = (g.thr t).h'.cap ∧
      (g.thr t).h'.len ≤ (g.thr t).h'.cap ∧
      ((g.arrays m).getD (g.thr t).h'.arr []).take (g.thr t).h'.len = g.toSt.view m ++ [(g.thr t).info] ∧
      (((g.thr t).h'.arr = (g.hdr m).arr ∧ (g.hdr m).len ≤ (g.thr t).h'.len) ∨
       (∀ t' (x : Snap), x ∈ (g.thr t').snaps → x.1 = m → x.2.1.arr < (g.thr t).h'.arr))

theorem heapInv_init : HeapInv G.init := by
  refine ⟨?_, ?_, ?_, ?_, ?_, ?_, ?_, ?_, ?_⟩
  · exact init_wf
  · intro m; simp [G.toSt, G.init, St.view, St.contents, Hdr.nil]
  all_goals (intros; simp [G.init] at *)
  · rfl

/-- a step of goroutine `t` that touches neither the shared memory nor anybody's snapshots and
    leaves `t` outside any `append` -/
theorem heapInv_local (g : G) (t : Tid) (th : Thread) (inv : HeapInv g)
    (hs : th.snaps = (g.thr t).snaps) (hc : wfCode none th.code = true) : HeapInv (setThr g t th) := by
  have hph : phaseOf th.code = none := wfCode_none_phase _ hc
  have hsn : ∀ t', (x : Snap) → x ∈ ((setThr g t th).thr t').snaps → ∃ t'', x ∈ (g.thr t'').snaps := by
    intro t' x hx
    by_cases e : t' = t
    · subst e; simp [hs] at hx; exact ⟨t', hx⟩
    · rw [setThr_other _ _ _ _ e] at hx; exact ⟨t', hx⟩
  refine ⟨inv.wf, inv.log, ?_, ?_, ?_, ?_, ?_, ?_, ?_⟩
  · intro t' x hx; obtain ⟨t'', h⟩ := hsn t' x hx; exact inv.snapOK t'' x h
  · intro t' x hx; obtain ⟨t'', h⟩ := hsn t' x hx; exact inv.ghost t'' x h
  · intro t' x hx; obtain ⟨t'', h⟩ := hsn t' x hx; exact inv.epochLe t'' x h
  · intro t' x hx; obtain ⟨t'', h⟩ := hsn t' x hx; exact inv.pref t'' x h
  · intro t'
    by_cases e : t' = t
    · subst e; simp [hph, hc]
    · rw [setThr_other _ _ _ _ e]; exact inv.tri t'
  · intro t' m rest hcode
    by_cases e : t' = t
    · subst e; simp at hcode; rw [hcode] at hph; simp [phaseOf] at hph
    · rw [setThr_other _ _ _ _ e] at hcode ⊢; exact inv.rd t' m rest hcode
  · intro t' m rest hcode
    by_cases e : t' = t
    · subst e; simp at hcode; rw [hcode] at hph; simp [phaseOf] at hph
    · rw [setThr_other _ _ _ _ e] at hcode ⊢
      obtain ⟨a, b, c, d, f⟩ := inv.wr t' m rest hcode
      refine ⟨a, b, c, d, ?_⟩
      rcases f with f | f
      · exact Or.inl f
      · right
        intro t'' x hx
        obtain ⟨t3, h3⟩ := hsn t'' x hx
        exact f t3 x h3

end Moq.Conc

namespace Moq.Conc
open Moq Moq.Seq

/-- generic re-use: components that only look at memory and snapshots survive a step that changes
    neither -/
theorem heapInv_rdHdr (g : G) (t : Tid) (m : Str) (rest : List MI) (inv : HeapInv g)
    (hc : (g.thr t).code = .rdHdr m :: rest) :
    HeapInv (setThr g t { g.thr t with code := rest, h := g.hdr m }) := by
  have htri := inv.tri t
  rw [hc] at htri
  have htail := wfCode_tail _ _ htri
  simp [phaseOf, wfCode] at htri
  obtain ⟨r, hr, _⟩ := wfCode_some_false m rest htri
  have hsn : ∀ t', (x : Snap) → x ∈ ((setThr g t { g.thr t with code := rest, h := g.hdr m }).thr t').snaps →
      ∃ t'', x ∈ (g.thr t'').snaps := by
    intro t' x hx
    by_cases e : t' = t
    · subst e; simp at hx; exact ⟨t', hx⟩
    · rw [setThr_other _ _ _ _ e] at hx; exact ⟨t', hx⟩
  refine ⟨inv.wf, inv.log, ?_, ?_, ?_, ?_, ?_, ?_, ?_⟩
  · intro t' x hx; obtain ⟨t'', h⟩ := hsn t' x hx; exact inv.snapOK t'' x h
  · intro t' x hx; obtain ⟨t'', h⟩ := hsn t' x hx; exact inv.ghost t'' x h
  · intro t' x hx; obtain ⟨t'', h⟩ := hsn t' x hx; exact inv.epochLe t'' x h
  · intro t' x hx; obtain ⟨t'', h⟩ := hsn t' x hx; exact inv.pref t'' x h
  · intro t'
    by_cases e : t' = t
    · subst e; simpa using htail
    · rw [setThr_other _ _ _ _ e]; exact inv.tri t'
  · intro t' m' rest' hcode
    by_cases e : t' = t
    · subst e
      simp at hcode
      rw [hr] at hcode
      simp at hcode
      simp [hcode.1]
    · rw [setThr_other _ _ _ _ e] at hcode ⊢; exact inv.rd t' m' rest' hcode
  · intro t' m' rest' hcode
    by_cases e : t' = t
    · subst e; simp at hcode; rw [hr] at hcode; simp at hcode
    · rw [setThr_other _ _ _ _ e] at hcode ⊢
      obtain ⟨a, b, c, d, f⟩ := inv.wr t' m' rest' hcode
      refine ⟨a, b, c, d, ?_⟩
      rcases f with f | f
      · exact Or.inl f
      · right
        intro t'' x hx
        obtain ⟨t3, h3⟩ := hsn t'' x hx
        exact f t3 x h3

end Moq.Conc

namespace Moq.Conc
open Moq Moq.Seq

theorem holdsW_of_code (g : G) (linv : LockInv g) (t : Tid) (m : Str) (rest : List MI)
    (hc : (g.thr t).code = .wrCell m :: rest ∨ (g.thr t).code = .wrHdr m :: rest ∨ (g.thr t).code = .clear m :: rest) :
    (m, Mode.w) ∈ (g.thr t).held := by
  have hg := linv.guard t
  rcases hc with hc | hc | hc <;> rw [hc] at hg <;> simp [guarded] at hg <;> simp [hg.1]

theorem heapInv_wrCell (grow : Nat → Nat) (g : G) (t : Tid) (m : Str) (rest : List MI)
    (linv : LockInv g) (inv : HeapInv g) (hc : (g.thr t).code = .wrCell m :: rest) :
    HeapInv (setThr { g with arrays := upd g.arrays m (cellStep grow (g.arrays m) (g.thr t).h (g.thr t).info).1 } t
      { g.thr t with code := rest, h' := (cellStep grow (g.arrays m) (g.thr t).h (g.thr t).info).2 }) := by
  have hh : (g.thr t).h = g.hdr m := inv.rd t m rest hc
  have ok := cellStep_ok grow (g.hdr m) (g.arrays m) (g.thr t).info (inv.wf.inb m) (inv.wf.cap m) (inv.wf.len m) (inv.wf.zero m)
  rw [hh]
  generalize has1 : (cellStep grow (g.arrays m) (g.hdr m) (g.thr t).info).1 = as1 at ok ⊢
  generalize hh' : (cellStep grow (g.arrays m) (g.hdr m) (g.thr t).info).2 = h' at ok ⊢
  have htri := inv.tri t
  rw [hc] at htri
  have htail := wfCode_tail _ _ htri
  simp [phaseOf, wfCode] at htri
  obtain ⟨r, hr, _⟩ := wfCode_some_true m rest htri
  have hw := holdsW_of_code g linv t m rest (Or.inl hc)
  -- snapshots are the same lists as before
  have hsn : ∀ t', (x : Snap) → x ∈ ((setThr { g with arrays := upd g.arrays m as1 } t
      { g.thr t with code := rest, h' := h' }).thr t').snaps → ∃ t'', x ∈ (g.thr t'').snaps := by
    intro t' x hx
    by_cases e : t' = t
    · subst e; simp at hx; exact ⟨t', hx⟩
    · rw [setThr_other _ _ _ _ e] at hx; exact ⟨t', hx⟩
  have harr : ∀ m', m' ≠ m → upd g.arrays m as1 m' = g.arrays m' := fun m' hm => upd_ne _ _ _ _ hm
  refine ⟨?_, ?_, ?_, ?_, ?_, ?_, ?_, ?_, ?_⟩
  · -- wf
    constructor
    · intro m'
      by_cases hm : m' = m
      · subst hm; simp only [G.toSt, setThr_hdr, setThr_arrays, upd_same]
        have := inv.wf.inb m'; simp only [G.toSt] at this; have := ok.len_ge; omega
      · simp only [G.toSt, setThr_hdr, setThr_arrays, harr m' hm]; exact inv.wf.inb m'
    · intro m'
      by_cases hm : m' = m
      · subst hm; simp only [G.toSt, setThr_hdr, setThr_arrays, upd_same]; exact ok.old_cap
      · simp only [G.toSt, setThr_hdr, setThr_arrays, harr m' hm]; exact inv.wf.cap m'
    · intro m'; exact inv.wf.len m'
    · intro m'
      by_cases hm : m' = m
      · subst hm; simp only [G.toSt, setThr_arrays, upd_same]; exact ok.zero
      · simp only [G.toSt, setThr_arrays, harr m' hm]; exact inv.wf.zero m'
  · -- log
    intro m'
    by_cases hm : m' = m
    · subst hm
      simp only [G.toSt, St.view, St.contents, setThr_hdr, setThr_arrays, setThr_log, upd_same]
      rw [ok.old_view]; exact inv.log m'
    · simp only [G.toSt, St.view, St.contents, setThr_hdr, setThr_arrays, setThr_log, harr m' hm]; exact inv.log m'
  · -- snapOK
    intro t' x hx
    obtain ⟨t'', h⟩ := hsn t' x hx
    have s := inv.snapOK t'' x h
    by_cases hm : x.1 = m
    · refine ⟨?_, ?_, ?_⟩
      · simp only [G.toSt, setThr_arrays, hm, upd_same]
        have := s.inb; simp only [G.toSt, hm] at this; have := ok.len_ge; omega
      · simp only [G.toSt, setThr_arrays, hm, upd_same]
        have hi := s.inb; simp only [G.toSt, hm] at hi
        rw [ok.keep_len _ hi]
        have := s.fits; simp only [G.toSt, hm] at this; exact this
      · exact s.below
    · refine ⟨?_, ?_, s.below⟩
      · simp only [G.toSt, setThr_arrays, harr _ hm]; exact s.inb
      · simp only [G.toSt, setThr_arrays, harr _ hm]; exact s.fits
  · -- ghost
    intro t' x hx
    obtain ⟨t'', h⟩ := hsn t' x hx
    have gh := inv.ghost t'' x h
    have s := inv.snapOK t'' x h
    by_cases hm : x.1 = m
    · simp only [G.contents, setThr_arrays, hm, upd_same]
      have hi := s.inb; simp only [G.toSt, hm] at hi
      have hb := s.below; simp only [G.toSt, hm] at hb
      rw [ok.keep _ _ hi hb]
      simpa only [G.contents, hm] using gh
    · simp only [G.contents, setThr_arrays, harr _ hm]; exact gh
  · intro t' x hx; obtain ⟨t'', h⟩ := hsn t' x hx; exact inv.epochLe t'' x h
  · intro t' x hx; obtain ⟨t'', h⟩ := hsn t' x hx; exact inv.pref t'' x h
  · intro t'
    by_cases e : t' = t
    · subst e; simpa using htail
    · rw [setThr_other _ _ _ _ e]; exact inv.tri t'
  · intro t' m' rest' hcode
    by_cases e : t' = t
    · subst e; simp at hcode; rw [hr] at hcode; simp at hcode
    · rw [setThr_other _ _ _ _ e] at hcode ⊢; exact inv.rd t' m' rest' hcode
  · intro t' m' rest' hcode
    by_cases e : t' = t
    · subst e
      simp at hcode
      rw [hr] at hcode
      simp at hcode
      obtain ⟨hm, _⟩ := hcode
      subst hm
      simp only [setThr_same, setThr_arrays, setThr_hdr, upd_same, G.toSt, St.view, St.contents]
      refine ⟨ok.new_inb, ok.new_cap, ok.new_len, ?_, ?_⟩
      · rw [ok.new_view, ok.old_view]
      · rcases ok.place with ⟨pa, pl⟩ | pf
        · left; exact ⟨pa, by omega⟩
        · right
          intro t'' x hx hxm
          obtain ⟨t3, h3⟩ := hsn t'' x hx
          have := (inv.snapOK t3 x h3).inb
          simp only [G.toSt, hxm] at this
          omega
    · rw [setThr_other _ _ _ _ e] at hcode
      have hne : m' ≠ m := by
        intro em; subst em
        have hw' := holdsW_of_code g linv t' m' rest' (Or.inr (Or.inl hcode))
        exact linv.excl t t' m' Mode.w (fun x => e x.symm) hw hw'
      obtain ⟨a, b, c, d, f⟩ := inv.wr t' m' rest' hcode
      rw [setThr_other _ _ _ _ e]
      simp only [setThr_arrays, setThr_hdr, harr m' hne, G.toSt, St.view, St.contents] at a b c d ⊢
      refine ⟨a, b, c, d, ?_⟩
      rcases f with f | f
      · exact Or.inl f
      · right
        intro t'' x hx
        obtain ⟨t3, h3⟩ := hsn t'' x hx
        exact f t3 x h3

end Moq.Conc

namespace Moq.Conc
open Moq Moq.Seq

/-- memory after the header write of an `append` -/
@[reducible] def G.commit (g : G) (t : Tid) (m : Str) : G :=
  { g with hdr := upd g.hdr m (g.thr t).h', log := upd g.log m (g.log m ++ [(g.thr t).info]) }

/-- memory after a reset's header write -/
@[reducible] def G.cleared (g : G) (m : Str) : G :=
  { g with hdr := upd g.hdr m Hdr.nil, log := upd g.log m [], epoch := upd g.epoch m (g.epoch m + 1) }

theorem heapInv_wrHdr (g : G) (t : Tid) (m : Str) (rest : List MI)
    (linv : LockInv g) (inv : HeapInv g) (hc : (g.thr t).code = .wrHdr m :: rest) :
    HeapInv (setThr (g.commit t m) t { g.thr t with code := rest }) := by
  obtain ⟨pinb, pcap, plen, pview, pplace⟩ := inv.wr t m rest hc
  have htri := inv.tri t
  rw [hc] at htri
  have htail := wfCode_tail _ _ htri
  simp [phaseOf, wfCode] at htri
  have hph := wfCode_none_phase rest htri
  have hw := holdsW_of_code g linv t m rest (Or.inr (Or.inl hc))
  have hsn : ∀ t', (x : Snap) → x ∈ ((setThr (g.commit t m) t { g.thr t with code := rest }).thr t').snaps →
      ∃ t'', x ∈ (g.thr t'').snaps := by
    intro t' x hx
    by_cases e : t' = t
    · subst e; simp at hx; exact ⟨t', hx⟩
    · rw [setThr_other _ _ _ _ e] at hx; exact ⟨t', hx⟩
  have hhdr : ∀ m', m' ≠ m → upd g.hdr m (g.thr t).h' m' = g.hdr m' := fun m' hm => upd_ne _ _ _ _ hm
  have hlog : ∀ m', m' ≠ m → upd g.log m (g.log m ++ [(g.thr t).info]) m' = g.log m' := fun m' hm => upd_ne _ _ _ _ hm
  refine ⟨?_, ?_, ?_, ?_, ?_, ?_, ?_, ?_, ?_⟩
  · constructor
    · intro m'
      by_cases hm : m' = m
      · subst hm; simp only [G.toSt, setThr_hdr, setThr_arrays, upd_same]; exact pinb
      · simp only [G.toSt, setThr_hdr, setThr_arrays, hhdr m' hm]; exact inv.wf.inb m'
    · intro m'
      by_cases hm : m' = m
      · subst hm; simp only [G.toSt, setThr_hdr, setThr_arrays, upd_same]; exact pcap
      · simp only [G.toSt, setThr_hdr, setThr_arrays, hhdr m' hm]; exact inv.wf.cap m'
    · intro m'
      by_cases hm : m' = m
      · subst hm; simp only [G.toSt, setThr_hdr, upd_same]; exact plen
      · simp only [G.toSt, setThr_hdr, hhdr m' hm]; exact inv.wf.len m'
    · intro m'; exact inv.wf.zero m'
  · intro m'
    by_cases hm : m' = m
    · subst hm
      simp only [G.toSt, St.view, St.contents, setThr_hdr, setThr_arrays, setThr_log, upd_same]
      rw [pview]; simp only [G.toSt] at *; rw [← inv.log m']; rfl
    · simp only [G.toSt, St.view, St.contents, setThr_hdr, setThr_arrays, setThr_log, hhdr m' hm, hlog m' hm]
      exact inv.log m'
  · intro t' x hx
    obtain ⟨t'', h⟩ := hsn t' x hx
    have s := inv.snapOK t'' x h
    refine ⟨s.inb, s.fits, ?_⟩
    by_cases hm : x.1 = m
    · simp only [G.toSt, setThr_hdr, hm, upd_same]
      intro ea
      rcases pplace with ⟨pa, pl⟩ | pf
      · have := s.below (by simp only [G.toSt, hm]; rw [ea, pa])
        simp only [G.toSt, hm] at this; omega
      · have := pf t'' x h hm; omega
    · simp only [G.toSt, setThr_hdr, hhdr _ hm]; exact s.below
  · intro t' x hx; obtain ⟨t'', h⟩ := hsn t' x hx; exact inv.ghost t'' x h
  · intro t' x hx; obtain ⟨t'', h⟩ := hsn t' x hx; exact inv.epochLe t'' x h
  · intro t' x hx
    obtain ⟨t'', h⟩ := hsn t' x hx
    intro he
    have p := inv.pref t'' x h he
    by_cases hm : x.1 = m
    · simp only [setThr_log, hm, upd_same]
      simp only [hm] at p
      exact p.trans (List.prefix_append _ _)
    · simp only [setThr_log, hlog _ hm]; exact p
  · intro t'
    by_cases e : t' = t
    · subst e; simpa using htail
    · rw [setThr_other _ _ _ _ e]; exact inv.tri t'
  · intro t' m' rest' hcode
    by_cases e : t' = t
    · subst e; simp at hcode; rw [hcode] at hph; simp [phaseOf] at hph
    · rw [setThr_other _ _ _ _ e] at hcode ⊢
      have hne : m' ≠ m := by
        intro em; subst em
        have hw' := holdsW_of_code g linv t' m' rest' (Or.inl hcode)
        exact linv.excl t t' m' Mode.w (fun x => e x.symm) hw hw'
      simp only [setThr_hdr, hhdr m' hne]
      exact inv.rd t' m' rest' hcode
  · intro t' m' rest' hcode
    by_cases e : t' = t
    · subst e; simp at hcode; rw [hcode] at hph; simp [phaseOf] at hph
    · rw [setThr_other _ _ _ _ e] at hcode
      have hne : m' ≠ m := by
        intro em; subst em
        have hw' := holdsW_of_code g linv t' m' rest' (Or.inr (Or.inl hcode))
        exact linv.excl t t' m' Mode.w (fun x => e x.symm) hw hw'
      obtain ⟨a, b, c, d, f⟩ := inv.wr t' m' rest' hcode
      rw [setThr_other _ _ _ _ e]
      simp only [setThr_arrays, setThr_hdr, hhdr m' hne, G.toSt, St.view, St.contents] at a b c d ⊢
      refine ⟨a, b, c, d, ?_⟩
      rcases f with f | f
      · exact Or.inl f
      · right
        intro t'' x hx
        obtain ⟨t3, h3⟩ := hsn t'' x hx
        exact f t3 x h3

theorem heapInv_rdSnap (g : G) (t : Tid) (m : Str) (rest : List MI)
    (linv : LockInv g) (inv : HeapInv g) (hc : (g.thr t).code = .rdSnap m :: rest) :
    HeapInv (setThr g t (takeSnap g (g.thr t) rest m)) := by
  have htri := inv.tri t
  rw [hc] at htri
  simp [phaseOf, wfCode] at htri
  have hph := wfCode_none_phase rest htri
  -- `t` holds `m` (read or write), so nobody is in the middle of an append on `m`
  have hheld : ∃ md, (m, md) ∈ (g.thr t).held := by
    have hg := linv.guard t; rw [hc] at hg; simp [guarded] at hg
    rcases hg.1 with e | e
    · exact ⟨Mode.r, by simp [e]⟩
    · exact ⟨Mode.w, by simp [e]⟩
  have hsn : ∀ t', (x : Snap) → x ∈ ((setThr g t (takeSnap g (g.thr t) rest m)).thr t').snaps →
      (x = (m, g.hdr m, g.contents m (g.hdr m), g.epoch m)) ∨ ∃ t'', x ∈ (g.thr t'').snaps := by
    intro t' x hx
    by_cases e : t' = t
    · subst e; simp [takeSnap] at hx
      rcases hx with hx | hx
      · exact Or.inl hx
      · exact Or.inr ⟨t', hx⟩
    · rw [setThr_other _ _ _ _ e] at hx; exact Or.inr ⟨t', hx⟩
  refine ⟨inv.wf, inv.log, ?_, ?_, ?_, ?_, ?_, ?_, ?_⟩
  · intro t' x hx
    rcases hsn t' x hx with e | ⟨t'', h⟩
    · subst e; exact snapOK_current g.toSt m inv.wf
    · exact inv.snapOK t'' x h
  · intro t' x hx
    rcases hsn t' x hx with e | ⟨t'', h⟩
    · subst e; rfl
    · exact inv.ghost t'' x h
  · intro t' x hx
    rcases hsn t' x hx with e | ⟨t'', h⟩
    · subst e; exact Nat.le_refl _
    · exact inv.epochLe t'' x h
  · intro t' x hx
    rcases hsn t' x hx with e | ⟨t'', h⟩
    · subst e
      intro _
      have := inv.log m
      simp only [G.toSt, St.view, St.contents] at this
      simp only [G.contents, setThr_log]
      rw [this]
      exact List.prefix_refl _
    · exact inv.pref t'' x h
  · intro t'
    by_cases e : t' = t
    · subst e; simp [takeSnap, hph, htri]
    · rw [setThr_other _ _ _ _ e]; exact inv.tri t'
  · intro t' m' rest' hcode
    by_cases e : t' = t
    · subst e; simp [takeSnap] at hcode; rw [hcode] at hph; simp [phaseOf] at hph
    · rw [setThr_other _ _ _ _ e] at hcode ⊢; exact inv.rd t' m' rest' hcode
  · intro t' m' rest' hcode
    by_cases e : t' = t
    · subst e; simp [takeSnap] at hcode; rw [hcode] at hph; simp [phaseOf] at hph
    · rw [setThr_other _ _ _ _ e] at hcode ⊢
      obtain ⟨a, b, c, d, f⟩ := inv.wr t' m' rest' hcode
      refine ⟨a, b, c, d, ?_⟩
      rcases f with f | f
      · exact Or.inl f
      · right
        intro t'' x hx hxm
        rcases hsn t'' x hx with ex | ⟨t3, h3⟩
        · -- the new snapshot is of `m`; if `m = m'` then `t'` holds `m'` for writing while `t` holds it too
          subst ex
          simp at hxm
          subst hxm
          obtain ⟨md, hmd⟩ := hheld
          have hw' := holdsW_of_code g linv t' m rest' (Or.inr (Or.inl hcode))
          exact absurd hmd (linv.excl t' t m md e hw')
        · exact f t3 x h3 hxm

theorem heapInv_clear (g : G) (t : Tid) (m : Str) (rest : List MI)
    (linv : LockInv g) (inv : HeapInv g) (hc : (g.thr t).code = .clear m :: rest) :
    HeapInv (setThr (g.cleared m) t { g.thr t with code := rest }) := by
  have htri := inv.tri t
  rw [hc] at htri
  simp [phaseOf, wfCode] at htri
  have hph := wfCode_none_phase rest htri
  have hw := holdsW_of_code g linv t m rest (Or.inr (Or.inr hc))
  have hsn : ∀ t', (x : Snap) → x ∈ ((setThr (g.cleared m) t { g.thr t with code := rest }).thr t').snaps →
      ∃ t'', x ∈ (g.thr t'').snaps := by
    intro t' x hx
    by_cases e : t' = t
    · subst e; simp at hx; exact ⟨t', hx⟩
    · rw [setThr_other _ _ _ _ e] at hx; exact ⟨t', hx⟩
  have hhdr : ∀ m', m' ≠ m → upd g.hdr m Hdr.nil m' = g.hdr m' := fun m' hm => upd_ne _ _ _ _ hm
  have hst : (setThr (g.cleared m) t { g.thr t with code := rest }).toSt = clearHdr g.toSt m := rfl
  have cv := clearHdr_view g.toSt m inv.wf
  refine ⟨?_, ?_, ?_, ?_, ?_, ?_, ?_, ?_, ?_⟩
  · rw [hst]; exact cv.2.2
  · intro m'
    rw [hst]
    by_cases hm : m' = m
    · subst hm; simp only [setThr_log, upd_same]; exact cv.1
    · simp only [setThr_log, upd_ne _ _ _ _ hm]; rw [cv.2.1 m' hm]; exact inv.log m'
  · intro t' x hx
    obtain ⟨t'', h⟩ := hsn t' x hx
    rw [hst]
    exact (clearHdr_snap g.toSt m inv.wf x.1 x.2.1 (inv.snapOK t'' x h)).2
  · intro t' x hx; obtain ⟨t'', h⟩ := hsn t' x hx; exact inv.ghost t'' x h
  · intro t' x hx
    obtain ⟨t'', h⟩ := hsn t' x hx
    have := inv.epochLe t'' x h
    by_cases hm : x.1 = m
    · simp only [hm, upd_same] at this ⊢; show x.2.2.2 ≤ upd g.epoch m (g.epoch m + 1) m; simp only [upd_same]; omega
    · show x.2.2.2 ≤ upd g.epoch m (g.epoch m + 1) x.1; simp only [upd_ne _ _ _ _ hm]; exact this
  · intro t' x hx
    obtain ⟨t'', h⟩ := hsn t' x hx
    intro he
    have hle := inv.epochLe t'' x h
    by_cases hm : x.1 = m
    · exfalso
      have : x.2.2.2 = upd g.epoch m (g.epoch m + 1) x.1 := he
      simp only [hm, upd_same] at this hle
      omega
    · have he' : x.2.2.2 = g.epoch x.1 := by
        have : x.2.2.2 = upd g.epoch m (g.epoch m + 1) x.1 := he
        simpa only [upd_ne _ _ _ _ hm] using this
      show x.2.2.1 <+: upd g.log m [] x.1
      simp only [upd_ne _ _ _ _ hm]
      exact inv.pref t'' x h he'
  · intro t'
    by_cases e : t' = t
    · subst e; simp [hph, htri]
    · rw [setThr_other _ _ _ _ e]; exact inv.tri t'
  · intro t' m' rest' hcode
    by_cases e : t' = t
    · subst e; simp at hcode; rw [hcode] at hph; simp [phaseOf] at hph
    · rw [setThr_other _ _ _ _ e] at hcode ⊢
      have hne : m' ≠ m := by
        intro em; subst em
        have hw' := holdsW_of_code g linv t' m' rest' (Or.inl hcode)
        exact linv.excl t t' m' Mode.w (fun x => e x.symm) hw hw'
      simp only [setThr_hdr, hhdr m' hne]
      exact inv.rd t' m' rest' hcode
  · intro t' m' rest' hcode
    by_cases e : t' = t
    · subst e; simp at hcode; rw [hcode] at hph; simp [phaseOf] at hph
    · rw [setThr_other _ _ _ _ e] at hcode
      have hne : m' ≠ m := by
        intro em; subst em
        have hw' := holdsW_of_code g linv t' m' rest' (Or.inr (Or.inl hcode))
        exact linv.excl t t' m' Mode.w (fun x => e x.symm) hw hw'
      obtain ⟨a, b, c, d, f⟩ := inv.wr t' m' rest' hcode
      rw [setThr_other _ _ _ _ e]
      simp only [setThr_arrays, setThr_hdr, hhdr m' hne, G.toSt, St.view, St.contents] at a b c d ⊢
      refine ⟨a, b, c, d, ?_⟩
      rcases f with f | f
      · exact Or.inl f
      · right
        intro t'' x hx
        obtain ⟨t3, h3⟩ := hsn t'' x hx
        exact f t3 x h3

end Moq.Conc

namespace Moq.Conc
open Moq Moq.Seq

/-- bodies: guarded, and every `append` compiled as its three steps -/
def BodiesOK (bodies : List (List MI)) : Prop :=
  ∀ b ∈ bodies, guarded [] b = true ∧ wfCode none b = true

theorem step_heapInv (grow : Nat → Nat) (bodies : List (List MI)) (hb : BodiesOK bodies)
    (g g' : G) (linv : LockInv g) (inv : HeapInv g) (st : Step grow bodies g g') : HeapInv g' := by
  have tl : ∀ t mi rest, (g.thr t).code = mi :: rest → (∀ m, mi ≠ .rdHdr m) → phaseOf (mi :: rest) = none →
      wfCode none rest = true := by
    intro t mi rest hc hne hp
    have htri := inv.tri t
    rw [hc, hp] at htri
    cases mi <;> simp [wfCode, phaseOf] at htri hp
    case rdHdr m => exact absurd rfl (hne m)
    all_goals exact htri
  cases st with
  | start t b r hc hmem => exact heapInv_local g t _ inv rfl (hb b hmem).2
  | loc t rest hc => exact heapInv_local g t _ inv rfl (tl t _ rest hc (by intro m; simp) rfl)
  | stay t rest hc => exact heapInv_local g t _ inv rfl (tl t _ rest hc (by intro m; simp) rfl)
  | exit t rest hc => exact heapInv_local g t _ inv rfl rfl
  | lock t m rest hc hfree => exact heapInv_local g t _ inv rfl (tl t _ rest hc (by intro m; simp) rfl)
  | unlock t m rest hc => exact heapInv_local g t _ inv rfl (tl t _ rest hc (by intro m; simp) rfl)
  | rlock t m rest hc hnw => exact heapInv_local g t _ inv rfl (tl t _ rest hc (by intro m; simp) rfl)
  | runlock t m rest hc => exact heapInv_local g t _ inv rfl (tl t _ rest hc (by intro m; simp) rfl)
  | rdHdr t m rest hc => exact heapInv_rdHdr g t m rest inv hc
  | wrCell t m rest hc => exact heapInv_wrCell grow g t m rest linv inv hc
  | wrHdr t m rest hc => exact heapInv_wrHdr g t m rest linv inv hc
  | rdSnap t m rest hc => exact heapInv_rdSnap g t m rest linv inv hc
  | retSnap t rest hc => exact heapInv_local g t _ inv rfl rfl
  | clear t m rest hc => exact heapInv_clear g t m rest linv inv hc
  | invoke t m rest hc => exact heapInv_local g t _ inv rfl rfl

theorem reach_inv (grow : Nat → Nat) (bodies : List (List MI)) (hb : BodiesOK bodies)
    (g : G) (r : Reach grow bodies g) : LockInv g ∧ HeapInv g := by
  induction r with
  | init => exact ⟨lockInv_init, heapInv_init⟩
  | step g g' _ st ih =>
    exact ⟨step_lockInv grow bodies (fun b hm => (hb b hm).1) g g' ih.1 st,
           step_heapInv grow bodies hb g g' ih.1 ih.2 st⟩

end Moq.Conc
