import MoqModel.Gen
/-
  Preds: Boolean property predicates on the model's *output* (the allocation `Alloc` and the
  template data).  They are what the theorems conclude, what the driver prints for every
  generated input, and – being executable – what the search uses to find counterexamples on
  the model before replaying them on the real moq.
-/
namespace Moq

def goKeywords : List Str :=
  [s%"break", s%"default", s%"func", s%"interface", s%"select", s%"case", s%"defer", s%"go",
   s%"map", s%"struct", s%"chan", s%"else", s%"goto", s%"package", s%"switch", s%"const",
   s%"fallthrough", s%"if", s%"range", s%"type", s%"continue", s%"for", s%"import", s%"return",
   s%"var"]

def basicTypeNames : List Str :=
  [s%"string", s%"bool", s%"byte", s%"rune", s%"uintptr", s%"int", s%"int8", s%"int16", s%"int32",
   s%"int64", s%"uint", s%"uint8", s%"uint16", s%"uint32", s%"uint64", s%"float32", s%"float64",
   s%"complex64", s%"complex128"]

/-- a usable Go identifier: ASCII identifier syntax, not a keyword, not blank -/
def validName (n : Str) : Bool := Str.isIdent n && !(n ∈ goKeywords) && n ≠ s%"_"

def nodupB [DecidableEq α] : List α → Bool
  | [] => true
  | x :: xs => !(x ∈ xs) && nodupB xs

mutual
/-- identifiers a rendered type needs resolved in the scope where it is written: import
    qualifiers, unqualified (predeclared / destination-package) type names, type parameters -/
def tyIdents (q : PkgRef → Str) : Ty → List Str
  | .basic n => [n]
  | .named p o targs _ => (if Ty.pkgPrefix q p = [] then [o] else [q p]) ++ tyIdentsList q targs
  | .alias p o targs _ => (if Ty.pkgPrefix q p = [] then [o] else [q p]) ++ tyIdentsList q targs
  | .ptr e => tyIdents q e
  | .slice e => tyIdents q e
  | .array _ e => tyIdents q e
  | .map k v => tyIdents q k ++ tyIdents q v
  | .chan _ e => tyIdents q e
  | .sig _ pt _ rt _ => tyIdentsList q pt ++ tyIdentsList q rt
  | .struct _ ft _ _ => tyIdentsList q ft
  | .iface _ ms em _ => tyIdentsList q ms ++ tyIdentsList q em
  | .tparam n => [n]
  | .union _ ts => tyIdentsList q ts

def tyIdentsList (q : PkgRef → Str) : List Ty → List Str
  | [] => []
  | t :: ts => tyIdents q t ++ tyIdentsList q ts
end

/-- identifiers the generated method body refers to besides the types -/
def bodyIdents : List Str := [s%"callInfo", s%"nil", s%"append", s%"panic"]

/-- C12 on one method: receiver, parameters and (with `-stub`) results are valid, pairwise
    distinct, and capture nothing the signature or body still has to resolve. -/
def methodNamesOK (r : Registry) (stub : Bool) (m : MethodAlloc) : Bool :=
  let ps := m.vars.take m.nparams
  let rs := m.vars.drop m.nparams
  let locals := s%"mock" :: (ps.map (·.name) ++ (if stub then rs.map (·.name) else []))
  let needs := (m.vars.flatMap fun v => tyIdents (varQualifier r v) v.ty) ++ bodyIdents
  nodupB locals && (locals.all validName) && locals.all (fun n => !(n ∈ needs))

/-- C12, last sentence: distinct parameters give distinct record fields -/
def methodFieldsOK (m : MethodAlloc) : Bool :=
  nodupB ((m.vars.take m.nparams).map fun v => exported v.name)

def Alloc.namesOK (a : Alloc) (stub : Bool) : Bool :=
  a.mocks.all fun mk => mk.methods.all fun m => methodNamesOK a.reg stub m && methodFieldsOK m

/-- C11: qualifiers valid and unique, each path once -/
def Alloc.importsOK (a : Alloc) : Bool :=
  let qs := a.reg.imports.map Pkg.qualifier
  nodupB qs && qs.all validName && nodupB (a.reg.imports.map (·.path)) &&
  a.reg.imports.all (fun p => p.alias ≠ s%"." ∧ p.alias ≠ s%"_")

/-- `strictly sorted by path` (C11/C14) -/
def sortedByPath : List ImportD → Bool
  | [] => true
  | [_] => true
  | a :: b :: rest => Str.lt a.path b.path && sortedByPath (b :: rest)

end Moq
