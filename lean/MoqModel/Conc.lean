import MoqModel.HeapLemmas
/-
  Conc: interleaving semantics of the generated program.

  Any number of goroutines run generated functions concurrently, one micro-instruction at a
  time: lock operations, the three memory steps of `append` (read the slice header, store the
  record / reallocate, write the header back), the accessor's header read, the reset's header
  write.  User code is not modelled as a program: a goroutine that is in user code may at any
  moment start any generated function with any arguments, or inspect a slice it was handed –
  so every user program, including re-entrant configured functions, is covered.

  `sync.RWMutex` is the abstract lock: `Lock` is enabled when nobody holds the mutex, `RLock`
  when no writer holds it (writer preference affects fairness, not safety; not modelled).
-/
namespace Moq.Conc
open Moq Moq.Seq

inductive Mode | w | r
deriving DecidableEq, Repr

inductive MI
  | loc                   -- local computation
  | mayExit               -- local; may end the function (nil check: panic, or stub return)
  | lock (m : Str)
  | unlock (m : Str)
  | rlock (m : Str)
  | runlock (m : Str)
  | rdHdr (m : Str)       -- append 1/3: h := mock.calls.m
  | wrCell (m : Str)      -- append 2/3: store the record at h.len, or allocate and copy
  | wrHdr (m : Str)       -- append 3/3: mock.calls.m = h'
  | rdSnap (m : Str)      -- accessor: calls = mock.calls.m
  | retSnap               -- accessor: return calls
  | clear (m : Str)       -- reset: mock.calls.m = nil
  | invoke (m : Str)      -- enter the configured function (user code)
deriving DecidableEq, Repr

/-- micro-instructions of one IR statement -/
def expand : Stmt → List MI
  | .nilPanic _ _ => [.mayExit]
  | .mkInfo _ => [.loc]
  | .lock m => [.lock m]
  | .unlock m => [.unlock m]
  | .rlock m => [.rlock m]
  | .runlock m => [.runlock m]
  | .appendInfo m => [.rdHdr m, .wrCell m, .wrHdr m]
  | .stubReturn _ _ => [.mayExit]
  | .invoke m _ _ => [.invoke m]
  | .declCalls _ => [.loc]
  | .readCalls m => [.rdSnap m]
  | .returnCalls => [.retSnap]
  | .clearCalls m => [.clear m]

def compile (body : List Stmt) : List MI := body.flatMap expand

abbrev Held := List (Str × Mode)

/-- lock discipline of a function body, checked syntactically: shared memory is touched only
    under the right lock in the right mode, at most one lock is held at a time, none is held
    when the function ends, may end early, or enters user code (which must be its last act) -/
def guarded : Held → List MI → Bool
  | held, [] => held.isEmpty
  | held, .loc :: r => guarded held r
  | held, .mayExit :: r => held.isEmpty && guarded held r
  | held, .lock m :: r => held.isEmpty && guarded [(m, .w)] r
  | held, .unlock m :: r => held == [(m, .w)] && guarded [] r
  | held, .rlock m :: r => held.isEmpty && guarded [(m, .r)] r
  | held, .runlock m :: r => held == [(m, .r)] && guarded [] r
  | held, .rdHdr m :: r => held == [(m, .w)] && guarded held r
  | held, .wrCell m :: r => held == [(m, .w)] && guarded held r
  | held, .wrHdr m :: r => held == [(m, .w)] && guarded held r
  | held, .rdSnap m :: r => (held == [(m, .r)] || held == [(m, .w)]) && guarded held r
  | held, .retSnap :: r => held.isEmpty && r.isEmpty
  | held, .clear m :: r => held == [(m, .w)] && guarded held r
  | held, .invoke _ :: r => held.isEmpty && r.isEmpty

abbrev Tid := Nat

structure Thread where
  code : List MI := []        -- what is left of the generated function; `[]` = in user code
  held : Held := []           -- mutexes this goroutine holds
  info : Rec := []            -- callInfo
  h : Hdr := Hdr.nil          -- header read by rdHdr
  h' : Hdr := Hdr.nil         -- header computed by wrCell
  /-- slices handed to this goroutine's user code (including the one in flight): method, header,
      and – ghost – the records it denoted and the reset epoch of the method when it was taken -/
  snaps : List (Str × Hdr × List Rec × Nat) := []

structure G where
  hdr : Str → Hdr
  arrays : Str → List (List Rec)
  thr : Tid → Thread
  log : Str → List Rec        -- ghost: records committed since the last reset of each method
  epoch : Str → Nat           -- ghost: number of resets of each method so far

def G.init : G := { hdr := fun _ => Hdr.nil, arrays := fun _ => [[]], thr := fun _ => {}, log := fun _ => [], epoch := fun _ => 0 }

/-- the records a slice header denotes in the current memory -/
def G.contents (g : G) (m : Str) (h : Hdr) : List Rec := ((g.arrays m).getD h.arr []).take h.len

def setThr (g : G) (t : Tid) (th : Thread) : G := { g with thr := fun x => if x = t then th else g.thr x }

/-- Go's `append`, memory part: where the record goes, and the header to publish afterwards -/
def cellStep (grow : Nat → Nat) (as : List (List Rec)) (h : Hdr) (r : Rec) : List (List Rec) × Hdr :=
  if h.len < h.cap then (as.modify h.arr (fun cells => cells.set h.len r), { h with len := h.len + 1 })
  else
    let ncap := max (grow h.cap) (h.len + 1)
    (as ++ [((as.getD h.arr []).take h.len ++ [r]) ++ List.replicate (ncap - (h.len + 1)) []],
     ⟨as.length, h.len + 1, ncap⟩)

/-- the accessor's read: remember the header (and, ghost, what it denotes and the epoch) -/
def takeSnap (g : G) (th : Thread) (rest : List MI) (m : Str) : Thread :=
  { th with code := rest, h := g.hdr m,
            snaps := (m, g.hdr m, g.contents m (g.hdr m), g.epoch m) :: th.snaps }

def lockFree (g : G) (m : Str) : Prop := ∀ t md, (m, md) ∉ (g.thr t).held
def noWriter (g : G) (m : Str) : Prop := ∀ t, (m, Mode.w) ∉ (g.thr t).held

/-- one step of one goroutine.  `bodies` are the compiled generated functions of the mock. -/
inductive Step (grow : Nat → Nat) (bodies : List (List MI)) : G → G → Prop
  /-- user code calls a generated function (any of them, with any arguments) -/
  | start (g : G) (t : Tid) (b : List MI) (r : Rec) :
      (g.thr t).code = [] → b ∈ bodies →
      Step grow bodies g (setThr g t { g.thr t with code := b, info := r })
  | loc (g : G) (t : Tid) (rest : List MI) :
      (g.thr t).code = .loc :: rest → Step grow bodies g (setThr g t { g.thr t with code := rest })
  | stay (g : G) (t : Tid) (rest : List MI) :
      (g.thr t).code = .mayExit :: rest → Step grow bodies g (setThr g t { g.thr t with code := rest })
  | exit (g : G) (t : Tid) (rest : List MI) :
      (g.thr t).code = .mayExit :: rest → Step grow bodies g (setThr g t { g.thr t with code := [] })
  | lock (g : G) (t : Tid) (m : Str) (rest : List MI) :
      (g.thr t).code = .lock m :: rest → lockFree g m →
      Step grow bodies g (setThr g t { g.thr t with code := rest, held := [(m, .w)] })
  | unlock (g : G) (t : Tid) (m : Str) (rest : List MI) :
      (g.thr t).code = .unlock m :: rest →
      Step grow bodies g (setThr g t { g.thr t with code := rest, held := [] })
  | rlock (g : G) (t : Tid) (m : Str) (rest : List MI) :
      (g.thr t).code = .rlock m :: rest → noWriter g m →
      Step grow bodies g (setThr g t { g.thr t with code := rest, held := [(m, .r)] })
  | runlock (g : G) (t : Tid) (m : Str) (rest : List MI) :
      (g.thr t).code = .runlock m :: rest →
      Step grow bodies g (setThr g t { g.thr t with code := rest, held := [] })
  | rdHdr (g : G) (t : Tid) (m : Str) (rest : List MI) :
      (g.thr t).code = .rdHdr m :: rest →
      Step grow bodies g (setThr g t { g.thr t with code := rest, h := g.hdr m })
  | wrCell (g : G) (t : Tid) (m : Str) (rest : List MI) :
      (g.thr t).code = .wrCell m :: rest →
      Step grow bodies g
        (setThr { g with arrays := upd g.arrays m (cellStep grow (g.arrays m) (g.thr t).h (g.thr t).info).1 } t
          { g.thr t with code := rest, h' := (cellStep grow (g.arrays m) (g.thr t).h (g.thr t).info).2 })
  | wrHdr (g : G) (t : Tid) (m : Str) (rest : List MI) :
      (g.thr t).code = .wrHdr m :: rest →
      Step grow bodies g
        (setThr { g with hdr := upd g.hdr m (g.thr t).h', log := upd g.log m (g.log m ++ [(g.thr t).info]) } t
          { g.thr t with code := rest })
  | rdSnap (g : G) (t : Tid) (m : Str) (rest : List MI) :
      (g.thr t).code = .rdSnap m :: rest →
      Step grow bodies g (setThr g t (takeSnap g (g.thr t) rest m))
  | retSnap (g : G) (t : Tid) (rest : List MI) :
      (g.thr t).code = .retSnap :: rest → Step grow bodies g (setThr g t { g.thr t with code := [] })
  | clear (g : G) (t : Tid) (m : Str) (rest : List MI) :
      (g.thr t).code = .clear m :: rest →
      Step grow bodies g
        (setThr { g with hdr := upd g.hdr m Hdr.nil, log := upd g.log m [], epoch := upd g.epoch m (g.epoch m + 1) } t
          { g.thr t with code := rest })
  | invoke (g : G) (t : Tid) (m : Str) (rest : List MI) :
      (g.thr t).code = .invoke m :: rest → Step grow bodies g (setThr g t { g.thr t with code := [] })

inductive Reach (grow : Nat → Nat) (bodies : List (List MI)) : G → Prop
  | init : Reach grow bodies G.init
  | step (g g' : G) : Reach grow bodies g → Step grow bodies g g' → Reach grow bodies g'

end Moq.Conc
