import MoqModel.Gen
/-
  GoFile: the *structured* model of moq's output – header, import block, per mock the
  self-check line, the struct, and per method three functions whose bodies are sequences of
  IR statements (`Stmt`).  `genFile` is the hand-written counterpart of `moqTemplate`;
  `printFile` lays it out exactly as the template does.  The tie to the code is checked, not
  assumed: on every generated input the driver compares `printFile (genFile d)` with the
  interpreter run on the regenerated template, and the harness compares both with the real
  moq's `-fmt noop` bytes.
-/
namespace Moq

/-- statements of generated method bodies -/
inductive Stmt
  /-- `if mock.MFunc == nil { panic(msg) }` -/
  | nilPanic (m : Str) (msg : Str)
  /-- `callInfo := struct{ F T … }{ F: p, … }` – (field, type, parameter) -/
  | mkInfo (fields : List (Str × Str × Str))
  | lock (m : Str)
  | unlock (m : Str)
  | rlock (m : Str)
  | runlock (m : Str)
  /-- `mock.calls.M = append(mock.calls.M, callInfo)` -/
  | appendInfo (m : Str)
  /-- `if mock.MFunc == nil { var ( r T … ); return r, … }` (bare `return` when no results) -/
  | stubReturn (m : Str) (vars : List (Str × Str))
  /-- `[return] mock.MFunc(a, b, c...)` – (argument, spread) -/
  | invoke (m : Str) (args : List (Str × Bool)) (returns : Bool)
  /-- `var calls []struct{ F T … }` -/
  | declCalls (fields : List (Str × Str))
  /-- `calls = mock.calls.M` -/
  | readCalls (m : Str)
  | returnCalls
  /-- `mock.calls.M = nil` -/
  | clearCalls (m : Str)
deriving DecidableEq, Repr, Inhabited

structure MethodF where
  name : Str
  params : List ParamD
  returns : List ParamD
  argList : Str
  retTypes : Str
  body : List Stmt
  callsBody : List Stmt
  resetBody : Option (List Stmt)
deriving DecidableEq, Repr, Inhabited

structure MockF where
  ifaceName : Str
  mockName : Str
  tparams : List TParamD
  /-- the self-check declaration `var _ I[...] = &Mock[...]{}` when emitted: the type
      arguments chosen for each type parameter -/
  ensure : Option (List Str)
  methods : List MethodF
  resetAll : Option (List Stmt)
deriving DecidableEq, Repr, Inhabited

structure GoFile where
  pkgName : Str
  srcQual : Str
  syncQual : Str
  imports : List ImportD
  mocks : List MockF
deriving DecidableEq, Repr, Inhabited

/-- the record fields of a method: (exported name, type) -/
def recFields (ps : List ParamD) : List (Str × Str) := ps.map fun p => (exported p.name, p.typeStr)

def panicMsg (mockName ifaceName m : Str) : Str :=
  mockName ++ s%"." ++ m ++ s%"Func: method is nil but " ++ ifaceName ++ s%"." ++ m ++
    s%" was just called"

/-- body of the mocked method `M` -/
def genBody (stub : Bool) (mockName ifaceName : Str) (m : MethodD) : List Stmt :=
  (if !stub then [Stmt.nilPanic m.name (panicMsg mockName ifaceName m.name)] else []) ++
  [.mkInfo (m.params.map fun p => (exported p.name, p.typeStr, p.name)),
   .lock m.name, .appendInfo m.name, .unlock m.name] ++
  (if stub then [Stmt.stubReturn m.name (m.returns.map fun r => (r.name, r.typeStr))] else []) ++
  [.invoke m.name (m.params.map fun p => (p.name, p.variadic)) (!m.returns.isEmpty)]

def genCallsBody (m : MethodD) : List Stmt :=
  [.declCalls (recFields m.params), .rlock m.name, .readCalls m.name, .runlock m.name, .returnCalls]

def genResetBody (m : Str) : List Stmt := [.lock m, .clearCalls m, .unlock m]

def genMethodF (d : Data) (mk : MockD) (m : MethodD) : Option MethodF :=
  m.argList.map fun al =>
  { name := m.name, params := m.params, returns := m.returns, argList := al
    retTypes := m.returnArgTypeList
    body := genBody d.stub mk.mockName mk.ifaceName m
    callsBody := genCallsBody m
    resetBody := if d.resets then some (genResetBody m.name) else none }

/-- the type argument the self-check line uses for a type parameter -/
def TParamD.typeArg (t : TParamD) : Str :=
  match t.constraint with
  | some c => c
  | none => t.typeStr

def genMockF (d : Data) (mk : MockD) : Option MockF :=
  (mk.methods.mapM (genMethodF d mk)).map fun ms =>
  { ifaceName := mk.ifaceName, mockName := mk.mockName, tparams := mk.tparams
    ensure := if d.skip then none
              else some (mk.tparams.map TParamD.typeArg)
    methods := ms
    resetAll := if d.resets then some (mk.methods.flatMap fun m => genResetBody m.name) else none }

/-- template func `SyncPkgQualifier` -/
def syncQualifier (imports : List ImportD) : Str :=
  match imports.find? (·.path = s%"sync") with
  | some i => i.qualifier
  | none => s%"sync"

def genFile (d : Data) : Option GoFile :=
  (d.mocks.mapM (genMockF d)).map fun ms =>
  { pkgName := d.pkgName, srcQual := d.srcPkgQualifier, syncQual := syncQualifier d.imports
    imports := d.imports, mocks := ms }

/- ------------------------------- printing ------------------------------- -/

def importStatement (i : ImportD) : Str :=
  if i.alias = [] then s%"\"" ++ i.path ++ s%"\"" else i.alias ++ s%" \"" ++ i.path ++ s%"\""

def printFields (indent : Str) (fs : List (Str × Str)) : Str :=
  (fs.map fun (f, t) => s%"\n" ++ indent ++ f ++ s%" " ++ t).flatten

def printStmt : Stmt → Str
  | .nilPanic m msg => s%"\n\tif mock." ++ m ++ s%"Func == nil {\n\t\tpanic(\"" ++ msg ++ s%"\")\n\t}"
  | .mkInfo fs =>
    s%"\n\tcallInfo := struct {" ++ printFields s%"\t\t" (fs.map fun (f, t, _) => (f, t)) ++ s%"\n\t}{" ++
      (fs.map fun (f, _, p) => s%"\n\t\t" ++ f ++ s%": " ++ p ++ s%",").flatten ++ s%"\n\t}"
  | .lock m => s%"\n\tmock.lock" ++ m ++ s%".Lock()"
  | .unlock m => s%"\n\tmock.lock" ++ m ++ s%".Unlock()"
  | .rlock m => s%"\n\tmock.lock" ++ m ++ s%".RLock()"
  | .runlock m => s%"\n\tmock.lock" ++ m ++ s%".RUnlock()"
  | .appendInfo m => s%"\n\tmock.calls." ++ m ++ s%" = append(mock.calls." ++ m ++ s%", callInfo)"
  | .stubReturn m [] => s%"\n\tif mock." ++ m ++ s%"Func == nil {\n\t\treturn\n\t}"
  | .stubReturn m vs =>
    s%"\n\tif mock." ++ m ++ s%"Func == nil {\n\t\tvar (" ++ printFields s%"\t\t\t" vs ++
      s%"\n\t\t)\n\t\treturn " ++ commaJoin (vs.map (·.1)) ++ s%"\n\t}"
  | .invoke m args ret =>
    s%"\n\t" ++ (if ret then s%"return " else []) ++ s%"mock." ++ m ++ s%"Func(" ++
      commaJoin (args.map fun (a, sp) => if sp then a ++ s%"..." else a) ++ s%")"
  | .declCalls fs => s%"\n\tvar calls []struct {" ++ printFields s%"\t\t" fs ++ s%"\n\t}"
  | .readCalls m => s%"\n\tcalls = mock.calls." ++ m
  | .returnCalls => s%"\n\treturn calls"
  | .clearCalls m => s%"\n\tmock.calls." ++ m ++ s%" = nil"

def printStmts (l : List Stmt) : Str := (l.map printStmt).flatten

def tparamUse (tps : List TParamD) : Str :=
  if tps.isEmpty then [] else s%"[" ++ commaJoin (tps.map fun t => t.name) ++ s%"]"

def tparamDecl (tps : List TParamD) : Str :=
  if tps.isEmpty then []
  else s%"[" ++ commaJoin (tps.map fun t => t.name ++ s%" " ++ t.typeStr) ++ s%"]"

def recv (mk : MockF) : Str := s%"func (mock *" ++ mk.mockName ++ tparamUse mk.tparams ++ s%") "

def printMethod (f : GoFile) (mk : MockF) (m : MethodF) : Str :=
  s%"\n// " ++ m.name ++ s%" calls " ++ m.name ++ s%"Func.\n" ++ recv mk ++ m.name ++ s%"(" ++
    m.argList ++ s%") " ++ m.retTypes ++ s%" {" ++ printStmts m.body ++
  s%"\n}\n\n// " ++ m.name ++ s%"Calls gets all the calls that were made to " ++ m.name ++
    s%".\n// Check the length with:\n//\n//\tlen(mocked" ++ mk.ifaceName ++ s%"." ++ m.name ++
    s%"Calls())\n" ++ recv mk ++ m.name ++ s%"Calls() []struct {" ++
    printFields s%"\t\t" (recFields m.params) ++ s%"\n\t} {" ++ printStmts m.callsBody ++ s%"\n}" ++
  (match m.resetBody with
   | some b =>
     s%"\n// Reset" ++ m.name ++ s%"Calls reset all the calls that were made to " ++ m.name ++
       s%".\n" ++ recv mk ++ s%"Reset" ++ m.name ++ s%"Calls() {" ++ printStmts b ++ s%"\n}\n"
   | none => []) ++
  s%"\n"

/-- the statements of `ResetCalls`, three per method, each group followed by the template's
    trailing newline-tab -/
def printResetAll : List Stmt → Str
  | a :: b :: c :: rest => printStmt a ++ printStmt b ++ printStmt c ++ s%"\n\t" ++ printResetAll rest
  | _ => []

def printMock (f : GoFile) (mk : MockF) : Str :=
  let qi := f.srcQual ++ mk.ifaceName
  (match mk.ensure with
   | some targs =>
     let inst := if mk.tparams.isEmpty then [] else s%"[" ++ commaJoin targs ++ s%"]"
     s%"// Ensure, that " ++ mk.mockName ++ s%" does implement " ++ qi ++
       s%".\n// If this is not the case, regenerate this file with moq.\nvar _ " ++ qi ++ inst ++
       s%" = &" ++ mk.mockName ++ inst ++ s%"{}"
   | none => []) ++
  s%"\n\n// " ++ mk.mockName ++ s%" is a mock implementation of " ++ qi ++
    s%".\n//\n//\tfunc TestSomethingThatUses" ++ mk.ifaceName ++
    s%"(t *testing.T) {\n//\n//\t\t// make and configure a mocked " ++ qi ++ s%"\n//\t\tmocked" ++
    mk.ifaceName ++ s%" := &" ++ mk.mockName ++ s%"{" ++
  (mk.methods.map fun m =>
    s%"\n//\t\t\t" ++ m.name ++ s%"Func: func(" ++ m.argList ++ s%") " ++ m.retTypes ++
      s%" {\n//\t\t\t\tpanic(\"mock out the " ++ m.name ++ s%" method\")\n//\t\t\t},").flatten ++
  s%"\n//\t\t}\n//\n//\t\t// use mocked" ++ mk.ifaceName ++ s%" in code that requires " ++ qi ++
    s%"\n//\t\t// and then make assertions.\n//\n//\t}\ntype " ++ mk.mockName ++
    tparamDecl mk.tparams ++ s%" struct {" ++
  (mk.methods.map fun m =>
    s%"\n\t// " ++ m.name ++ s%"Func mocks the " ++ m.name ++ s%" method.\n\t" ++ m.name ++
      s%"Func func(" ++ m.argList ++ s%") " ++ m.retTypes ++ s%"\n").flatten ++
  s%"\n\t// calls tracks calls to the methods.\n\tcalls struct {" ++
  (mk.methods.map fun m =>
    s%"\n\t\t// " ++ m.name ++ s%" holds details about calls to the " ++ m.name ++
      s%" method.\n\t\t" ++ m.name ++ s%" []struct {" ++
      (m.params.map fun p =>
        s%"\n\t\t\t// " ++ exported p.name ++ s%" is the " ++ p.name ++ s%" argument value.\n\t\t\t" ++
          exported p.name ++ s%" " ++ p.typeStr).flatten ++
      s%"\n\t\t}").flatten ++
  s%"\n\t}" ++
  (mk.methods.map fun m => s%"\n\tlock" ++ m.name ++ s%" " ++ f.syncQual ++ s%".RWMutex").flatten ++
  s%"\n}\n" ++
  (mk.methods.map (printMethod f mk)).flatten ++
  (match mk.resetAll with
   | some b =>
     s%"\n// ResetCalls reset all the calls that were made to all mocked methods.\n" ++ recv mk ++
       s%"ResetCalls() {" ++ printResetAll b ++ s%"}\n"
   | none => [])

def printFile (f : GoFile) : Str :=
  s%"// Code generated by moq; DO NOT EDIT.\n// github.com/matryer/moq\n\npackage " ++ f.pkgName ++
    s%"\n\nimport (" ++ (f.imports.map fun i => s%"\n\t" ++ importStatement i).flatten ++
    s%"\n)\n\n" ++ (f.mocks.map (printMock f)).flatten

end Moq
