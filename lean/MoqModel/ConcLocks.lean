import MoqModel.Conc
/-
  ConcLocks: the lock-discipline invariant of the interleaving semantics, for *every* set of
  function bodies that pass the syntactic check `guarded`, every number of goroutines and every
  schedule: mutual exclusion, and each goroutine's code is guarded by what it holds.
-/
namespace Moq.Conc
open Moq Moq.Seq

@[simp] theorem setThr_same (g : G) (t : Tid) (th : Thread) : (setThr g t th).thr t = th := by simp [setThr]
theorem setThr_other (g : G) (t x : Tid) (th : Thread) (h : x ≠ t) : (setThr g t th).thr x = g.thr x := by
  simp [setThr, h]
@[simp] theorem setThr_hdr (g : G) (t : Tid) (th : Thread) : (setThr g t th).hdr = g.hdr := rfl
@[simp] theorem setThr_arrays (g : G) (t : Tid) (th : Thread) : (setThr g t th).arrays = g.arrays := rfl
@[simp] theorem setThr_log (g : G) (t : Tid) (th : Thread) : (setThr g t th).log = g.log := rfl

structure LockInv (g : G) : Prop where
  /-- what is left of each goroutine's function is guarded by what it holds -/
  guard : ∀ t, guarded (g.thr t).held (g.thr t).code = true
  /-- a mutex held for writing is held by nobody else -/
  excl : ∀ t t' m md, t ≠ t' → (m, Mode.w) ∈ (g.thr t).held → (m, md) ∉ (g.thr t').held

theorem lockInv_init : LockInv G.init :=
  ⟨fun _ => rfl, fun _ _ _ _ _ h => by simp [G.init] at h⟩

/-- a step of goroutine `t` that leaves its `held` alone and continues with a guarded rest -/
theorem lockInv_same_held (g : G) (t : Tid) (th : Thread) (g0 : G)
    (hthr : g0.thr = g.thr) (inv : LockInv g) (hh : th.held = (g.thr t).held)
    (hg : guarded th.held th.code = true) : LockInv (setThr g0 t th) := by
  constructor
  · intro x
    by_cases hx : x = t
    · subst hx; simpa using hg
    · rw [setThr_other _ _ _ _ hx, hthr]; exact inv.guard x
  · intro a b m md hab ha
    have ha' : (m, Mode.w) ∈ (g.thr a).held := by
      by_cases hx : a = t
      · subst hx; simpa [hh] using ha
      · rwa [setThr_other _ _ _ _ hx, hthr] at ha
    have := inv.excl a b m md hab ha'
    by_cases hy : b = t
    · subst hy; simpa [hh] using this
    · rwa [setThr_other _ _ _ _ hy, hthr]

theorem guarded_empty_code {held : Held} (h : guarded held [] = true) : held = [] := by
  simpa [guarded] using h

/-- **the lock discipline is an invariant of every schedule** -/
theorem step_lockInv (grow : Nat → Nat) (bodies : List (List MI)) (hb : ∀ b ∈ bodies, guarded [] b = true)
    (g g' : G) (inv : LockInv g) (st : Step grow bodies g g') : LockInv g' := by
  cases st with
  | start t b r hc hmem =>
    have hheld : (g.thr t).held = [] := guarded_empty_code (by have := inv.guard t; rwa [hc] at this)
    exact lockInv_same_held g t _ g rfl inv rfl (by simpa [hheld] using hb b hmem)
  | loc t rest hc =>
    have := inv.guard t; rw [hc] at this
    exact lockInv_same_held g t _ g rfl inv rfl (by simpa [guarded] using this)
  | stay t rest hc =>
    have := inv.guard t; rw [hc] at this
    simp [guarded] at this
    exact lockInv_same_held g t _ g rfl inv rfl (by simpa using this.2)
  | exit t rest hc =>
    have := inv.guard t; rw [hc] at this
    simp [guarded] at this
    exact lockInv_same_held g t _ g rfl inv rfl (by simp [guarded, this.1])
  | lock t m rest hc hfree =>
    have hg := inv.guard t; rw [hc] at hg
    simp [guarded] at hg
    constructor
    · intro x
      by_cases hx : x = t
      · subst hx; simpa using hg.2
      · rw [setThr_other _ _ _ _ hx]; exact inv.guard x
    · intro a b m' md hab ha
      by_cases hx : a = t
      · subst hx
        simp at ha
        have hb' : b ≠ a := fun e => hab e.symm
        rw [setThr_other _ _ _ _ hb', ha]
        exact hfree b md
      · rw [setThr_other _ _ _ _ hx] at ha
        by_cases hy : b = t
        · subst hy
          simp
          intro e _
          subst e
          exact hfree a Mode.w ha
        · rw [setThr_other _ _ _ _ hy]; exact inv.excl a b m' md hab ha
  | unlock t m rest hc =>
    have hg := inv.guard t; rw [hc] at hg
    simp [guarded] at hg
    constructor
    · intro x
      by_cases hx : x = t
      · subst hx; simpa using hg.2
      · rw [setThr_other _ _ _ _ hx]; exact inv.guard x
    · intro a b m' md hab ha
      by_cases hx : a = t
      · subst hx; simp at ha
      · rw [setThr_other _ _ _ _ hx] at ha
        by_cases hy : b = t
        · subst hy; simp
        · rw [setThr_other _ _ _ _ hy]; exact inv.excl a b m' md hab ha
  | rlock t m rest hc hnw =>
    have hg := inv.guard t; rw [hc] at hg
    simp [guarded] at hg
    constructor
    · intro x
      by_cases hx : x = t
      · subst hx; simpa using hg.2
      · rw [setThr_other _ _ _ _ hx]; exact inv.guard x
    · intro a b m' md hab ha
      by_cases hx : a = t
      · subst hx; simp at ha
      · rw [setThr_other _ _ _ _ hx] at ha
        by_cases hy : b = t
        · subst hy
          simp
          intro e _
          subst e
          exact hnw a ha
        · rw [setThr_other _ _ _ _ hy]; exact inv.excl a b m' md hab ha
  | runlock t m rest hc =>
    have hg := inv.guard t; rw [hc] at hg
    simp [guarded] at hg
    constructor
    · intro x
      by_cases hx : x = t
      · subst hx; simpa using hg.2
      · rw [setThr_other _ _ _ _ hx]; exact inv.guard x
    · intro a b m' md hab ha
      by_cases hx : a = t
      · subst hx; simp at ha
      · rw [setThr_other _ _ _ _ hx] at ha
        by_cases hy : b = t
        · subst hy; simp
        · rw [setThr_other _ _ _ _ hy]; exact inv.excl a b m' md hab ha
  | rdHdr t m rest hc =>
    have := inv.guard t; rw [hc] at this
    simp [guarded] at this
    exact lockInv_same_held g t _ g rfl inv rfl (by simpa [this.1] using this.2)
  | wrCell t m rest hc =>
    have := inv.guard t; rw [hc] at this
    simp [guarded] at this
    exact lockInv_same_held g t _ _ rfl inv rfl (by simpa [this.1] using this.2)
  | wrHdr t m rest hc =>
    have := inv.guard t; rw [hc] at this
    simp [guarded] at this
    exact lockInv_same_held g t _ _ rfl inv rfl (by simpa [this.1] using this.2)
  | rdSnap t m rest hc =>
    have := inv.guard t; rw [hc] at this
    simp [guarded] at this
    exact lockInv_same_held g t _ g rfl inv rfl (by simpa [takeSnap] using this.2)
  | retSnap t rest hc =>
    have := inv.guard t; rw [hc] at this
    simp [guarded] at this
    exact lockInv_same_held g t _ g rfl inv rfl (by simp [guarded, this.1])
  | clear t m rest hc =>
    have := inv.guard t; rw [hc] at this
    simp [guarded] at this
    exact lockInv_same_held g t _ _ rfl inv rfl (by simpa [this.1] using this.2)
  | invoke t m rest hc =>
    have := inv.guard t; rw [hc] at this
    simp [guarded] at this
    exact lockInv_same_held g t _ g rfl inv rfl (by simp [guarded, this.1])

theorem reach_lockInv (grow : Nat → Nat) (bodies : List (List MI)) (hb : ∀ b ∈ bodies, guarded [] b = true)
    (g : G) (r : Reach grow bodies g) : LockInv g := by
  induction r with
  | init => exact lockInv_init
  | step g g' _ st ih => exact step_lockInv grow bodies hb g g' ih st

end Moq.Conc
