import MoqModel.GoFile
/-
  Seq: sequential semantics of the generated program.

  A mock is the IR produced by `genFile` (`MethodF.body`, `.callsBody`, `.resetBody`,
  `MockF.resetAll`).  Values are identity tokens (`Nat`).  `mock.calls.M` is a slice header over
  a heap of backing arrays with Go's `append` (write in place when `len < cap`, otherwise
  reallocate and copy), one `sync.RWMutex` per method.  User code – the configured function
  fields – is a finite behaviour: a list of operations it performs on the same mock (it may
  re-enter), then a return or a panic.
-/
namespace Moq.Seq
open Moq

abbrev V := Nat
abbrev Rec := List (Str × V)     -- one call record: (field name, value) in field order

structure Hdr where
  arr : Nat
  len : Nat
  cap : Nat
deriving DecidableEq, Repr, Inhabited

/-- the nil slice; array 0 of every method is the empty array -/
def Hdr.nil : Hdr := ⟨0, 0, 0⟩

/-- operations user code can perform on a mock -/
inductive UOp
  | call (m : Str) (args : List V)
  | calls (m : Str)
  | resetOne (m : Str)
  | resetAll
deriving DecidableEq, Repr, Inhabited

/-- what a configured function does -/
structure Beh where
  ops : List UOp
  panics : Option V          -- `some v` = panic(v) after `ops`
  results : List V
deriving DecidableEq, Repr, Inhabited

inductive Outcome
  | ret (vs : List V)
  | panicUser (v : V)
  | panicNil (msg : Str)
  | deadlock               -- blocked for ever on a lock the same goroutine holds
  | fatal (what : Str)     -- unlock of an unlocked mutex, malformed IR
  | outOfFuel
deriving DecidableEq, Repr, Inhabited

inductive Ev
  /-- the configured function of `m` was entered with these argument values (`spread` = the
      last one forwarded with `...`) -/
  | invoked (m : Str) (args : List V) (spread : Bool)
  | recorded (m : Str) (r : Rec)
  | snapshot (m : Str) (h : Hdr) (contents : List Rec)
  | cleared (m : Str)
deriving DecidableEq, Repr, Inhabited

structure St where
  hdr : Str → Hdr
  arrays : Str → List (List Rec)      -- per method: backing arrays, index 0 = the empty array
  wlocked : Str → Bool
  rlocked : Str → Nat

def St.init : St :=
  { hdr := fun _ => Hdr.nil, arrays := fun _ => [[]], wlocked := fun _ => false, rlocked := fun _ => 0 }

def upd {β} (f : Str → β) (k : Str) (v : β) : Str → β := fun x => if x = k then v else f x

def St.contents (s : St) (m : Str) (h : Hdr) : List Rec := ((s.arrays m).getD h.arr []).take h.len

/-- Go's `append(s, x)` on `mock.calls.m`; `grow` is the runtime's capacity policy. -/
def appendRec (grow : Nat → Nat) (s : St) (m : Str) (r : Rec) : St :=
  let h := s.hdr m
  let as := s.arrays m
  if h.len < h.cap then
    { s with arrays := upd s.arrays m (as.modify h.arr (fun cells => cells.set h.len r)),
             hdr := upd s.hdr m { h with len := h.len + 1 } }
  else
    let ncap := max (grow h.cap) (h.len + 1)
    let cells := ((as.getD h.arr []).take h.len ++ [r]) ++ List.replicate (ncap - (h.len + 1)) []
    { s with arrays := upd s.arrays m (as ++ [cells]),
             hdr := upd s.hdr m ⟨as.length, h.len + 1, ncap⟩ }

structure Cfg where
  funcs : Str → Option Beh
  grow : Nat → Nat
  file : MockF
  /-- a configured function performs its operations only below this nesting depth (keeps
      self-recursive callbacks finite; the compiled harness counts the same way) -/
  maxDepth : Nat := 3

/-- local variables of a generated method: parameters by name, `callInfo`, `calls` -/
structure Env where
  params : List (Str × V)
  info : Rec := []
  calls : Hdr := Hdr.nil
  callsOf : Str := []

def Env.lookup (e : Env) (n : Str) : Option V := (e.params.find? (·.1 = n)).map (·.2)

/-- all named parameters, in order; `none` if one is undefined -/
def lookupAll (e : Env) : List Str → Option (List V)
  | [] => some []
  | n :: ns =>
    match e.lookup n, lookupAll e ns with
    | some v, some vs => some (v :: vs)
    | _, _ => none

def findMethod (f : MockF) (m : Str) : Option MethodF := f.methods.find? (·.name = m)

/-- how user code is entered: given the behaviour of the configured function and the state at
    entry, the state, events and outcome of running it -/
abbrev Callback := Beh → St → St × List Ev × Outcome

/-- run the statements of one generated function; `cb` runs a configured function -/
def execStmts (c : Cfg) (cb : Callback) : List Stmt → Env → St → St × List Ev × Outcome
  | [], _, s => (s, [], .ret [])
  | st :: rest, e, s =>
    match st with
    | .nilPanic m msg =>
      if (c.funcs m).isNone then (s, [], .panicNil msg) else execStmts c cb rest e s
    | .mkInfo fs =>
      match lookupAll e (fs.map (·.2.2)) with
      | none => (s, [], .fatal s%"undefined parameter")
      | some vs => execStmts c cb rest { e with info := (fs.map (·.1)).zip vs } s
    | .lock m =>
      if s.wlocked m || s.rlocked m > 0 then (s, [], .deadlock)
      else execStmts c cb rest e { s with wlocked := upd s.wlocked m true }
    | .unlock m =>
      if !s.wlocked m then (s, [], .fatal s%"sync: Unlock of unlocked RWMutex")
      else execStmts c cb rest e { s with wlocked := upd s.wlocked m false }
    | .rlock m =>
      if s.wlocked m then (s, [], .deadlock)
      else execStmts c cb rest e { s with rlocked := upd s.rlocked m (s.rlocked m + 1) }
    | .runlock m =>
      if s.rlocked m = 0 then (s, [], .fatal s%"sync: RUnlock of unlocked RWMutex")
      else execStmts c cb rest e { s with rlocked := upd s.rlocked m (s.rlocked m - 1) }
    | .appendInfo m =>
      let s' := appendRec c.grow s m e.info
      let (s'', evs, o) := execStmts c cb rest e s'
      (s'', .recorded m e.info :: evs, o)
    | .stubReturn m vars =>
      if (c.funcs m).isNone then (s, [], .ret (vars.map fun _ => 0)) else execStmts c cb rest e s
    | .invoke m args _ =>
      match c.funcs m with
      | none => (s, [], .panicNil s%"invalid memory address or nil pointer dereference")
      | some b =>
        match lookupAll e (args.map (·.1)) with
        | none => (s, [], .fatal s%"undefined argument")
        | some vs =>
          let spread := (args.getLast?.map (·.2)).getD false
          let (s', evs, o) := cb b s
          (s', .invoked m vs spread :: evs, o)
    | .declCalls _ => execStmts c cb rest e s
    | .readCalls m => execStmts c cb rest { e with calls := s.hdr m, callsOf := m } s
    | .returnCalls => (s, [.snapshot e.callsOf e.calls (s.contents e.callsOf e.calls)], .ret [])
    | .clearCalls m =>
      let (s', evs, o) := execStmts c cb rest e { s with hdr := upd s.hdr m Hdr.nil }
      (s', .cleared m :: evs, o)

/-- the generated function an operation of user code calls, with its arguments bound -/
def opBody (f : MockF) : UOp → Option (List Stmt × Env)
  | .call m args => (findMethod f m).map fun mf => (mf.body, { params := (mf.params.map (·.name)).zip args })
  | .calls m => (findMethod f m).map fun mf => (mf.callsBody, { params := [] })
  | .resetOne m => ((findMethod f m).bind (·.resetBody)).map fun b => (b, { params := [] })
  | .resetAll => f.resetAll.map fun b => (b, { params := [] })

/-- outcome of a configured function once its own operations are done -/
def finish (b : Beh) : St × List Ev × Outcome → St × List Ev × Outcome
  | (s, evs, .ret _) => (s, evs, match b.panics with | some v => .panicUser v | none => .ret b.results)
  | bad => bad

mutual
/-- one operation of user code at nesting depth `d` -/
def runOp (c : Cfg) (d : Nat) : Nat → UOp → St → St × List Ev × Outcome
  | 0, _, s => (s, [], .outOfFuel)
  | fuel + 1, op, s =>
    match opBody c.file op with
    | none => (s, [], .fatal s%"no such method")
    | some (body, env) =>
      execStmts c (fun b s' => finish b (runOps c (d + 1) fuel (if d < c.maxDepth then b.ops else []) s')) body env s

/-- a sequence of operations; stops at the first one that does not return normally -/
def runOps (c : Cfg) (d : Nat) : Nat → List UOp → St → St × List Ev × Outcome
  | 0, _, s => (s, [], .outOfFuel)
  | _ + 1, [], s => (s, [], .ret [])
  | fuel + 1, op :: ops, s =>
    let (s1, e1, o1) := runOp c d fuel op s
    match o1 with
    | .ret _ =>
      let (s2, e2, o2) := runOps c d fuel ops s1
      (s2, e1 ++ e2, o2)
    | bad => (s1, e1, bad)
end

end Moq.Seq
