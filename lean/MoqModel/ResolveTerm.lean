import MoqModel.ResolveFrame
import MoqModel.ResolveShallow
/-
  ResolveTerm: `resolveImportConflict` returns – for every registry, every map-iteration order,
  conflicts cascading to any depth – whenever the unique names of the packages involved are
  *separated* (`Sep`, a decidable condition on the set of import paths: clauses A, X, Q, D of
  WF.imports).  Without separation it need not: finding F-01 (`x/foo` and `x/go-foo` have the same
  unique name at every level; the Go code recurses until the stack is exhausted).

  The bound is explicit: `D + 2` units of fuel (= nested calls), where `D` is the level from
  which unique names no longer grow (the longest path).
-/
namespace Moq

/-- separation of the candidate names of a set `V` of import paths; `q0` gives the qualifier a
    package arrives with (its name, or the alias the source files use for it) -/
structure Sep (V : List Str) (q0 : Str → Str) (D : Nat) : Prop where
  /-- from level `D` on the unique names no longer change (every path has at most `D+1` elements) -/
  flat : ∀ x ∈ V, ∀ l, D ≤ l → uniqueName x l = uniqueName x D
  /-- A: full sanitised paths pairwise distinct -/
  full : ∀ x ∈ V, ∀ y ∈ V, x ≠ y → uniqueName x D ≠ uniqueName y D
  /-- X: candidates of different packages at different levels differ -/
  cross : ∀ x ∈ V, ∀ y ∈ V, x ≠ y → ∀ l l', l ≠ l' → uniqueName x l ≠ uniqueName y l'
  /-- Q: a candidate of level ≥ 1 is nobody else's initial qualifier -/
  init : ∀ x ∈ V, ∀ y ∈ V, x ≠ y → ∀ l, 1 ≤ l → q0 x ≠ uniqueName y l
  /-- D (part): candidates are not empty (an empty alias would fall back to the package name) -/
  ne : ∀ x ∈ V, ∀ l, uniqueName x l ≠ []

/-- every package of the state is in `V` and is called by its initial qualifier or by one of its
    own unique names -/
def ShapeV (V : List Str) (q0 : Str → Str) (s : RS) : Prop :=
  ∀ c ∈ s.imps ++ [s.pend], c.path ∈ V ∧ (c.qualifier = q0 c.path ∨ ∃ l, c.qualifier = uniqueName c.path l)

theorem aliasStep_shape {V : List Str} {q0 : Str → Str} {D lvl : Nat} (hs : Sep V q0 D) {p p' : Pkg}
    (hp : p.path ∈ V ∧ (p.qualifier = q0 p.path ∨ ∃ l, p.qualifier = uniqueName p.path l))
    (st : AliasStep lvl p p') :
    p'.path ∈ V ∧ (p'.qualifier = q0 p'.path ∨ ∃ l, p'.qualifier = uniqueName p'.path l) := by
  obtain ⟨e1, e2, e3⟩ := st
  refine ⟨by rw [e1]; exact hp.1, ?_⟩
  rcases e3 with ea | ⟨l, _, ea⟩
  · have : p'.qualifier = p.qualifier := by unfold Pkg.qualifier; rw [ea, e2]
    rw [this, e1]; exact hp.2
  · right
    refine ⟨l, ?_⟩
    have hne : uniqueName p.path l ≠ [] := hs.ne _ hp.1 l
    unfold Pkg.qualifier
    rw [ea, e1]
    simp [hne]

theorem listStep_forall {lvl : Nat} {P : Pkg → Prop} (hP : ∀ p p', P p → AliasStep lvl p p' → P p') :
    ∀ {a b : List Pkg}, ListStep lvl a b → (∀ p ∈ a, P p) → ∀ q ∈ b, P q := by
  intro a b st ha q hq
  obtain ⟨p, hp, hs⟩ := ListStep.mem st q hq
  exact hP p q (ha p hp) hs

/-- a step of the resolver (`RSStep`) keeps the shape -/
theorem rsStep_shape {V : List Str} {q0 : Str → Str} {D lvl : Nat} (hs : Sep V q0 D) {s s' : RS}
    (h : ShapeV V q0 s) (st : RSStep lvl s s') : ShapeV V q0 s' := by
  intro c hc
  rcases List.mem_append.mp hc with hc | hc
  · exact listStep_forall (fun p p' hp stp => aliasStep_shape hs hp stp) st.2
      (fun p hp => h p (List.mem_append_left _ hp)) c hc
  · simp only [List.mem_singleton] at hc
    subst hc
    exact aliasStep_shape hs (h s.pend (by simp)) st.1

/-- paths of the state (the pending import included) -/
def RS.paths (s : RS) : List Str := s.imps.map (·.path) ++ [s.pend.path]

theorem rsStep_paths {lvl : Nat} {s s' : RS} (st : RSStep lvl s s') : s'.paths = s.paths := by
  unfold RS.paths
  have h1 : s'.pend.path = s.pend.path := st.1.1
  have h2 : ∀ {a b : List Pkg}, ListStep lvl a b → b.map (·.path) = a.map (·.path) := by
    intro a
    induction a with
    | nil => intro b hb; cases b with | nil => rfl | cons _ _ => simp [ListStep] at hb
    | cons p ps ih =>
      intro b hb
      cases b with
      | nil => simp [ListStep] at hb
      | cons q qs => simp [List.map_cons, hb.1.1, ih hb.2]
  rw [h1, h2 st.2]

/-- the order oracle only permutes: what it lists was in the map -/
def Ord.sound (o : Ord) : Prop := ∀ l c, c ∈ o.pk l → c ∈ l

theorem Ord.id_sound : Ord.id.sound := fun _ _ h => h
theorem Ord.rev_sound : Ord.rev.sound := fun _ _ h => by simpa [Ord.rev] using h

/-- above the longest path no name is taken by anybody else: the resolver assigns both names at
    once, with one unit of fuel -/
theorem resolve_top {V : List Str} {q0 : Str → Str} {D : Nat} (hs : Sep V q0 D) (o : Ord) (ho : o.sound)
    (deeper : RS → Str → Str → Option RS) (lvl : Nat) (hl : D ≤ lvl) (hl1 : 1 ≤ lvl) (skip : Option Str)
    (s : RS) (h : ShapeV V q0 s) (p : Str) (hp : p ∈ V) :
    resolveStep o deeper lvl skip s p = some (s.setAlias p (uniqueName p lvl)) := by
  unfold resolveStep
  cases hsr : searchIn (o.pk s.all) (uniqueName p lvl) with
  | none => rfl
  | some c =>
    have hc := searchIn_some_mem _ _ _ hsr
    have hcm : c ∈ s.all := ho _ _ hc.1
    have hcs := h c hcm
    have : c.path = p := by
      apply Classical.byContradiction
      intro hne
      rcases hcs.2 with e | ⟨l, e⟩
      · exact hs.init c.path hcs.1 p hp hne lvl hl1 (by rw [← e, hc.2])
      · by_cases hll : l = lvl
        · subst hll
          have e1 := hs.flat c.path hcs.1 l hl
          have e2 := hs.flat p hp l hl
          exact hs.full c.path hcs.1 p hp hne (by rw [← e1, ← e2, ← e, hc.2])
        · exact hs.cross c.path hcs.1 p hp hne l lvl hll (by rw [← e, hc.2])
    simp [this]

/-- **termination**: with `k + 1` units of fuel a call at level `lvl` returns, provided
    `lvl + k` is above the longest path (and at least 1) -/
theorem resolve_terminates {V : List Str} {q0 : Str → Str} {D : Nat} (hs : Sep V q0 D) (o : Ord) (ho : o.sound) :
    ∀ (k lvl : Nat) (s : RS) (a b : Str), D ≤ lvl + k → 1 ≤ lvl + k → ShapeV V q0 s →
      a ∈ s.paths → b ∈ s.paths → a ≠ b →
      ∃ s', resolve o (k + 1) s a b lvl = some s' := by
  intro k
  induction k with
  | zero =>
    intro lvl s a b hD h1 hsh ha hb hab
    have haV : a ∈ V := by
      unfold RS.paths at ha
      rcases List.mem_append.mp ha with h | h
      · obtain ⟨c, hc, e⟩ := List.mem_map.mp h; rw [← e]; exact (hsh c (List.mem_append_left _ hc)).1
      · simp at h; rw [h]; exact (hsh s.pend (by simp)).1
    have hbV : b ∈ V := by
      unfold RS.paths at hb
      rcases List.mem_append.mp hb with h | h
      · obtain ⟨c, hc, e⟩ := List.mem_map.mp h; rw [← e]; exact (hsh c (List.mem_append_left _ hc)).1
      · simp at h; rw [h]; exact (hsh s.pend (by simp)).1
    have hne : uniqueName a lvl ≠ uniqueName b lvl := by
      rw [hs.flat a haV lvl (by omega), hs.flat b hbV lvl (by omega)]
      exact hs.full a haV b hbV hab
    rw [resolve]
    simp only [hne, if_false]
    rw [resolve_top hs o ho _ lvl (by omega) (by omega) (some b) s hsh a haV]
    simp only [Option.bind_some]
    have hsh1 : ShapeV V q0 (s.setAlias a (uniqueName a lvl)) := rsStep_shape hs hsh (setAlias_step s a lvl)
    rw [resolve_top hs o ho _ lvl (by omega) (by omega) none _ hsh1 b hbV]
    exact ⟨_, rfl⟩
  | succ k ih =>
    intro lvl s a b hD h1 hsh ha hb hab
    rw [resolve]
    split
    · exact ih (lvl + 1) s a b (by omega) (by omega) hsh ha hb hab
    · -- one iteration of the loop from any state of the right shape
      have step : ∀ (skip : Option Str) (s0 : RS) (p : Str), ShapeV V q0 s0 → p ∈ s0.paths →
          ∃ s1, resolveStep o (fun s p q => resolve o (k + 1) s p q (lvl + 1)) lvl skip s0 p = some s1 ∧
                ShapeV V q0 s1 ∧ s1.paths = s0.paths := by
        intro skip s0 p hsh0 hp0
        unfold resolveStep
        cases hsr : searchIn (o.pk s0.all) (uniqueName p lvl) with
        | none =>
          exact ⟨_, rfl, rsStep_shape hs hsh0 (setAlias_step s0 p lvl), rsStep_paths (setAlias_step s0 p lvl)⟩
        | some c =>
          simp only []
          split
          · exact ⟨_, rfl, rsStep_shape hs hsh0 (setAlias_step s0 p lvl), rsStep_paths (setAlias_step s0 p lvl)⟩
          · rename_i hcond
            have hc := searchIn_some_mem _ _ _ hsr
            have hcm : c ∈ s0.all := ho _ _ hc.1
            have hcp : c.path ∈ s0.paths := by
              unfold RS.all at hcm
              unfold RS.paths
              rcases List.mem_append.mp hcm with hh | hh
              · exact List.mem_append_left _ (List.mem_map.mpr ⟨c, hh, rfl⟩)
              · simp only [List.mem_singleton] at hh; subst hh; simp
            have hne : p ≠ c.path := fun e => hcond (Or.inl e.symm)
            obtain ⟨s1, h1'⟩ := ih (lvl + 1) s0 p c.path (by omega) (by omega) hsh0 hp0 hcp hne
            have fr := resolve_frame o (k + 1) s0 s1 p c.path (lvl + 1) h1'
            exact ⟨s1, h1', rsStep_shape hs hsh0 fr, rsStep_paths fr⟩
      obtain ⟨s1, e1, sh1, p1⟩ := step (some b) s a hsh ha
      obtain ⟨s2, e2, _, _⟩ := step none s1 b sh1 (by rw [p1]; exact hb)
      exact ⟨s2, by rw [e1]; simpa using e2⟩

end Moq

namespace Moq

/-- every registered import is in `V` and is called by its initial qualifier or one of its own
    unique names -/
def RegShape (V : List Str) (q0 : Str → Str) (r : Registry) : Prop :=
  ∀ c ∈ r.imports, c.path ∈ V ∧ (c.qualifier = q0 c.path ∨ ∃ l, c.qualifier = uniqueName c.path l)

/-- **`AddImport` returns** (with `D + 2` units of fuel, i.e. at most `D + 2` nested calls of
    `resolveImportConflict`) for every registry of separated packages and every map order, and the
    registry it returns is again of that kind – so the statement chains along a whole run -/
theorem addImport_terminates {V : List Str} {q0 : Str → Str} {D : Nat} (hs : Sep V q0 D) (o : Ord) (ho : o.sound)
    (r : Registry) (p : PkgRef) (hr : RegShape V q0 r)
    (hpV : stripVendorPath p.path ∈ V)
    (hq0 : q0 (stripVendorPath p.path) =
             Pkg.qualifier ⟨stripVendorPath p.path, p.name, aliasOf r.aliases (stripVendorPath p.path)⟩) :
    ∃ r' res, addImport o (D + 2) r p = some (r', res) ∧ RegShape V q0 r' := by
  unfold addImport
  simp only []
  split
  · exact ⟨r, none, rfl, hr⟩
  · split
    · exact ⟨r, _, rfl, hr⟩
    · rename_i hlk
      split
      · rename_i c hsr
        have hc := searchIn_some_mem _ _ _ hsr
        have hcm : c ∈ r.imports := ho _ _ hc.1
        let s : RS := ⟨⟨stripVendorPath p.path, p.name, aliasOf r.aliases (stripVendorPath p.path)⟩, r.imports⟩
        have hsh : ShapeV V q0 s := by
          intro x hx
          rcases List.mem_append.mp hx with hx | hx
          · exact hr x hx
          · simp only [List.mem_singleton] at hx
            subst hx
            exact ⟨hpV, Or.inl hq0.symm⟩
        have hne : stripVendorPath p.path ≠ c.path := by
          intro e
          exact lookup_none_notin r _ hlk (List.mem_map.mpr ⟨c, hcm, e.symm⟩)
        obtain ⟨s', hres⟩ := resolve_terminates hs o ho (D + 1) 0 s (stripVendorPath p.path) c.path
          (by omega) (by omega) hsh (by simp [RS.paths, s])
          (List.mem_append_left _ (List.mem_map.mpr ⟨c, hcm, rfl⟩)) hne
        have hfr := resolve_frame o (D + 2) s s' _ _ 0 hres
        have hsh' := rsStep_shape hs hsh hfr
        refine ⟨{ r with imports := s'.imps ++ [s'.pend] }, some (stripVendorPath p.path), ?_, hsh'⟩
        show Option.map _ (resolve o (D + 2) s (stripVendorPath p.path) c.path 0) = _
        rw [hres]; rfl
      · refine ⟨_, _, rfl, ?_⟩
        intro x hx
        simp only [List.mem_append, List.mem_singleton] at hx
        rcases hx with hx | hx
        · exact hr x hx
        · subst hx
          exact ⟨hpV, Or.inl hq0.symm⟩

end Moq

namespace Moq

theorem uniqueName_flat (path : Str) (D l : Nat) (hlen : (Str.splitOnChar '/' path).length ≤ D + 1) (hl : D ≤ l) :
    uniqueName path l = uniqueName path D := by
  unfold uniqueName
  simp only []
  have h1 : ((Str.splitOnChar '/' path).reverse.take (l + 1)) = (Str.splitOnChar '/' path).reverse :=
    List.take_of_length_le (by simp; omega)
  have h2 : ((Str.splitOnChar '/' path).reverse.take (D + 1)) = (Str.splitOnChar '/' path).reverse :=
    List.take_of_length_le (by simp; omega)
  rw [h1, h2]

/-- the decidable form of `Sep`: levels are only looked at up to `D` -/
def sepB (V : List Str) (q0 : Str → Str) (D : Nat) : Bool :=
  let lv := List.range (D + 1)
  V.all (fun x => decide ((Str.splitOnChar '/' x).length ≤ D + 1)) &&
  V.all (fun x => V.all fun y => x = y || decide (uniqueName x D ≠ uniqueName y D)) &&
  V.all (fun x => V.all fun y => x = y ||
    lv.all fun l => lv.all fun l' => l = l' || decide (uniqueName x l ≠ uniqueName y l')) &&
  V.all (fun x => V.all fun y => x = y ||
    lv.all fun l => decide (q0 x ≠ uniqueName y (if l = 0 then (if D = 0 then 0 else 1) else l))) &&
  V.all (fun x => lv.all fun l => decide (uniqueName x l ≠ []))

theorem sepB_sound (V : List Str) (q0 : Str → Str) (D : Nat) (h : sepB V q0 D = true) : Sep V q0 D := by
  unfold sepB at h
  simp only [Bool.and_eq_true, List.all_eq_true, decide_eq_true_eq, Bool.or_eq_true, List.mem_range] at h
  obtain ⟨⟨⟨⟨hlen, hfull⟩, hcross⟩, hinit⟩, hne⟩ := h
  have flat : ∀ x ∈ V, ∀ l, D ≤ l → uniqueName x l = uniqueName x D :=
    fun x hx l hl => uniqueName_flat x D l (hlen x hx) hl
  -- every level behaves like `min l D`
  have clamp : ∀ x ∈ V, ∀ l, uniqueName x l = uniqueName x (min l D) := by
    intro x hx l
    by_cases hl : D ≤ l
    · rw [flat x hx l hl, Nat.min_eq_right hl]
    · rw [Nat.min_eq_left (by omega)]
  refine ⟨flat, ?_, ?_, ?_, ?_⟩
  · intro x hx y hy hxy
    rcases hfull x hx y hy with e | e
    · exact absurd e hxy
    · exact e
  · intro x hx y hy hxy l l' hll
    rw [clamp x hx l, clamp y hy l']
    by_cases hm : min l D = min l' D
    · -- both at or above D: the full names differ
      have h1 : min l D = D := by omega
      have h2 : min l' D = D := by omega
      rw [h1, h2]
      rcases hfull x hx y hy with e | e
      · exact absurd e hxy
      · exact e
    · rcases hcross x hx y hy with e | e
      · exact absurd e hxy
      · rcases e (min l D) (by omega) (min l' D) (by omega) with e2 | e2
        · exact absurd e2 hm
        · exact e2
  · intro x hx y hy hxy l hl
    rw [clamp y hy l]
    rcases hinit x hx y hy with e | e
    · exact absurd e hxy
    · by_cases hD : D = 0
      · have := e 0 (by omega)
        simpa [hD] using this
      · by_cases hlD : l < D
        · have := e (min l D) (by omega)
          have hm : min l D = l := Nat.min_eq_left (by omega)
          rw [hm] at this ⊢
          have hl0 : ¬ l = 0 := by omega
          simpa [hl0] using this
        · have hm : min l D = D := Nat.min_eq_right (by omega)
          rw [hm]
          have := e D (by omega)
          simpa [hD] using this
  · intro x hx l
    rw [clamp x hx l]
    exact hne x hx (min l D) (by omega)

end Moq
