import MoqModel.Scope
/-
  Gen: pkg/moq/moq.go (`New`, `Mock`, `methodData`, `typeParams`, `explicitConstraintType`,
  `mockPkgName`, `parseInterfaceName`) and the string builders of
  internal/template/template_data.go, up to the template data (`Data`).
-/
namespace Moq
open Generated

structure TParamIn where
  name : Str
  constraint : Ty
  /-- embedded types of the constraint's underlying interface (what
      `explicitConstraintType` iterates over) -/
  embeds : List Ty
deriving Repr, Inhabited

structure MethodIn where
  name : Str
  pnames : List Str
  ptys : List Ty
  rnames : List Str
  rtys : List Ty
  variadic : Bool
deriving Repr, Inhabited

/-- what `Scope().Lookup(name)` finds -/
inductive Obj
  | notIface (typeStr : Str)
  | iface (methods : List MethodIn) (generic : Bool) (tparams : List TParamIn) (isTypeName : Bool) (typeStr : Str)
deriving Repr, Inhabited

structure Input where
  srcName : Str
  srcPath : Str
  /-- every named import spec `name "path"` of the package's files, in file order -/
  fileImports : List (Str × Str)
  scope : List (Str × Obj)
  pkgFlag : Str
  probe : Option Str
  fmt : Str
  stub : Bool
  skip : Bool
  resets : Bool
  args : List Str
deriving Repr, Inhabited

inductive Err
  | noArgs
  | notFound (name : Str)
  | notIface (name typeStr : Str)
  | fail (f : Fail)
deriving DecidableEq, Repr

def Err.message : Err → Str
  | .noArgs => s%"must specify one interface"
  | .notFound n => s%"interface not found: " ++ n
  | .notIface n t => n ++ s%" (" ++ t ++ s%") is not an interface"
  | .fail .diverge => s%"<stack overflow>"
  | .fail .nilDeref => s%"<nil pointer dereference>"
  | .fail .sliceBounds => s%"<slice bounds out of range>"

/-- split at the first `:` (`strings.SplitN(s, ":", 2)`) -/
def splitAtColon : Str → Str × Option Str
  | [] => ([], none)
  | c :: cs =>
    if c = ':' then ([], some cs)
    else ((c :: (splitAtColon cs).1), (splitAtColon cs).2)

/-- moq.go `parseInterfaceName`: `strings.SplitN(namePair, ":", 2)`. -/
def parseInterfaceName (np : Str) : Str × Str :=
  match splitAtColon np with
  | (a, none) => (a, a ++ s%"Mock")
  | (a, some b) => (a, b)

/- ---------- phase 1: allocation (threads the registry) ---------- -/

structure MethodAlloc where
  name : Str
  vars : List Var          -- final scope: params then results
  nparams : Nat
  variadic : Bool
deriving Repr, Inhabited

structure MockAlloc where
  ifaceName : Str
  mockName : Str
  methods : List MethodAlloc
  tparams : List Var
  tparamsIn : List TParamIn
deriving Repr, Inhabited

def addVars (o : Ord) (fuel : Nat) (suffix : Str) :
    List (Str × Ty) → Registry → Scope → Except Fail (Registry × Scope)
  | [], r, sc => .ok (r, sc)
  | (n, t) :: rest, r, sc =>
    match addVar o fuel r sc n t suffix with
    | .error f => .error f
    | .ok (r1, sc1) => addVars o fuel suffix rest r1 sc1

/-- moq.go `methodData`. -/
def methodAlloc (o : Ord) (fuel : Nat) (r : Registry) (m : MethodIn) :
    Except Fail (Registry × MethodAlloc) := do
  let (r1, sc1) ← addVars o fuel [] (m.pnames.zip m.ptys) r {}
  let (r2, sc2) ← addVars o fuel outSuffix (m.rnames.zip m.rtys) r1 sc1
  pure (r2, { name := m.name, vars := sc2.vars, nparams := m.ptys.length, variadic := m.variadic })

def methodsAlloc (o : Ord) (fuel : Nat) : Registry → List MethodIn →
    Except Fail (Registry × List MethodAlloc)
  | r, [] => .ok (r, [])
  | r, m :: ms => do
    let (r1, a) ← methodAlloc o fuel r m
    let (r2, as) ← methodsAlloc o fuel r1 ms
    pure (r2, a :: as)

/-- moq.go `typeParams`: one scope for all type parameters, each registered as a variable
    typed by its constraint. -/
def tparamsAlloc (o : Ord) (fuel : Nat) (r : Registry) (tps : List TParamIn) :
    Except Fail (Registry × List Var) := do
  let (r1, sc) ← addVars o fuel [] (tps.map fun t => (t.name, t.constraint)) r {}
  pure (r1, sc.vars)

def mocksAlloc (o : Ord) (fuel : Nat) (scope : List (Str × Obj)) :
    Registry → List Str → Except Err (Registry × List MockAlloc)
  | r, [] => .ok (r, [])
  | r, np :: nps =>
    let (name, mockName) := parseInterfaceName np
    match scope.find? (·.1 = name) with
    | none => .error (.notFound name)
    | some (_, .notIface ts) => .error (.notIface name ts)
    | some (_, .iface _ _ _ false ts) => .error (.notIface name ts)    -- a variable/constant of interface type
    | some (_, .iface ms generic tps true _) =>
      match methodsAlloc o fuel r ms with
      | .error f => .error (.fail f)
      | .ok (r1, mas) =>
        match (if generic then tparamsAlloc o fuel r1 tps else .ok (r1, [])) with
        | .error f => .error (.fail f)
        | .ok (r2, tvs) =>
          match mocksAlloc o fuel scope r2 nps with
          | .error e => .error e
          | .ok (r3, rest) =>
            .ok (r3, { ifaceName := name, mockName := mockName, methods := mas,
                       tparams := tvs, tparamsIn := tps } :: rest)

/- ---------- phase 2: rendering against the final registry ---------- -/

/-- var.go `packageQualifier`. -/
def varQualifier (r : Registry) (v : Var) (p : PkgRef) : Str :=
  let path := stripVendorPath p.path
  if r.moqPkgPath ≠ [] ∧ r.moqPkgPath = path then []
  else if path ∈ v.imports then r.qualOf path else []

def Var.typeStr (r : Registry) (v : Var) : Str := Ty.typeString (varQualifier r v) v.ty

structure ParamD where
  name : Str
  typeStr : Str
  variadic : Bool
deriving DecidableEq, Repr, Inhabited

/-- template_data.go `MethodArg`; `none` = `TypeString()[2:]` out of range. -/
def ParamD.methodArg (p : ParamD) : Option Str :=
  if p.variadic then
    if p.typeStr.length < 2 then none
    else some (p.name ++ s%" ..." ++ p.typeStr.drop 2)
  else some (p.name ++ s%" " ++ p.typeStr)

def ParamD.callName (p : ParamD) : Str := if p.variadic then p.name ++ s%"..." else p.name

structure MethodD where
  name : Str
  params : List ParamD
  returns : List ParamD
deriving DecidableEq, Repr, Inhabited

def commaJoin (l : List Str) : Str := Str.join s%", " l

def MethodD.argList (m : MethodD) : Option Str := (m.params.mapM ParamD.methodArg).map commaJoin
def MethodD.argCallList (m : MethodD) : Str := commaJoin (m.params.map ParamD.callName)
def MethodD.returnArgTypeList (m : MethodD) : Str :=
  let s := commaJoin (m.returns.map (·.typeStr))
  if m.returns.length > 1 then s%"(" ++ s ++ s%")" else s
def MethodD.returnArgNameList (m : MethodD) : Str := commaJoin (m.returns.map (·.name))

structure TParamD where
  name : Str
  typeStr : Str
  constraint : Option Str     -- `Constraint.String()` when non-nil
deriving DecidableEq, Repr, Inhabited

structure MockD where
  ifaceName : Str
  mockName : Str
  tparams : List TParamD
  methods : List MethodD
deriving DecidableEq, Repr, Inhabited

structure ImportD where
  path : Str
  alias : Str
  qualifier : Str
deriving DecidableEq, Repr, Inhabited

structure Data where
  pkgName : Str
  srcPkgQualifier : Str
  imports : List ImportD
  mocks : List MockD
  stub : Bool
  skip : Bool
  resets : Bool
deriving DecidableEq, Repr, Inhabited

/-- moq.go `explicitConstraintType` followed by `.String()` (nil qualifier = full paths). -/
def explicitConstraint (embeds : List Ty) : Option Str :=
  match embeds.findSome? (fun t =>
    match t with
    | .basic _ => some (some t)
    | .union _ (u :: _) => some (some u)
    | .union _ [] => some none            -- `Term(0)` on an empty union: cannot be built by go/types
    | _ => none) with
  | some (some t) => some (Ty.typeString (fun p => p.path) t)
  | _ => none

def renderMethod (r : Registry) (m : MethodAlloc) : MethodD :=
  let ps := m.vars.take m.nparams
  let rs := m.vars.drop m.nparams
  { name := m.name
    params := ps.mapIdx fun i v =>
      { name := v.name, typeStr := v.typeStr r,
        variadic := m.variadic && i + 1 = m.nparams && v.ty.isSlice }
    returns := rs.map fun v => { name := v.name, typeStr := v.typeStr r, variadic := false } }

def renderMock (r : Registry) (m : MockAlloc) : MockD :=
  { ifaceName := m.ifaceName, mockName := m.mockName
    tparams := (m.tparams.zip m.tparamsIn).map fun (v, tin) =>
      { name := v.name, typeStr := v.typeStr r, constraint := explicitConstraint tin.embeds }
    methods := m.methods.map (renderMethod r) }

/-- registry.go `parseImportsAliases`: named imports other than `.` and `_`. -/
def harvestAliases (fileImports : List (Str × Str)) : List (Str × Str) :=
  fileImports.filter fun (_, n) => n ≠ s%"." ∧ n ≠ s%"_"

def initRegistry (inp : Input) : Registry :=
  { srcName := inp.srcName, srcPath := inp.srcPath
    moqPkgPath := findPkgPath inp.pkgFlag inp.srcPath inp.probe
    aliases := harvestAliases inp.fileImports, imports := [] }

def mockPkgName (inp : Input) : Str := if inp.pkgFlag ≠ [] then inp.pkgFlag else inp.srcName

/-- everything `Mocker.Mock` computes before the template runs -/
structure Alloc where
  reg : Registry              -- final registry
  mocks : List MockAlloc
  srcPkgQualifier : Str
deriving Repr, Inhabited

/-- `if data.MocksSomeMethod() { AddImport(sync) }` -/
def addSync (o : Ord) (fuel : Nat) (r : Registry) (mocks : List MockAlloc) : Option Registry :=
  if mocks.any (fun m => !m.methods.isEmpty) then
    (addImport o fuel r ⟨s%"sync", s%"sync"⟩).map (·.1)
  else some r

/-- the source-package qualifier of the self-check line, importing the source package unless
    `-skip-ensure` (moq.go: `if m.registry.SrcPkgName() != m.mockPkgName() { … }`) -/
def addSrc (o : Ord) (fuel : Nat) (inp : Input) (r : Registry) : Option (Registry × Str) :=
  if inp.srcName ≠ mockPkgName inp then
    if !inp.skip then
      (addImport o fuel r ⟨inp.srcPath, inp.srcName⟩).map fun (r', res) =>
        (r', (match res with | some p => r'.qualOf p | none => []) ++ s%".")
    else some (r, inp.srcName ++ s%".")
  else some (r, [])

/-- `moq.New` + `Mocker.Mock` up to (not including) rendering. -/
def genAlloc (o : Ord) (fuel : Nat) (inp : Input) : Except Err Alloc :=
  if inp.args.isEmpty then .error .noArgs
  else
    match mocksAlloc o fuel inp.scope (initRegistry inp) inp.args with
    | .error e => .error e
    | .ok (r1, mocks) =>
      match addSync o fuel r1 mocks with
      | none => .error (.fail .diverge)
      | some r2 =>
        match addSrc o fuel inp r2 with
        | none => .error (.fail .diverge)
        | some (r3, q) => .ok { reg := r3, mocks := mocks, srcPkgQualifier := q }

def Alloc.toData (inp : Input) (a : Alloc) : Data :=
  { pkgName := mockPkgName inp, srcPkgQualifier := a.srcPkgQualifier
    imports := a.reg.sortedImports.map fun p => ⟨p.path, p.alias, p.qualifier⟩
    mocks := a.mocks.map (renderMock a.reg)
    stub := inp.stub, skip := inp.skip, resets := inp.resets }

/-- `moq.New` + `Mocker.Mock` up to the template data. -/
def genData (o : Ord) (fuel : Nat) (inp : Input) : Except Err Data :=
  (genAlloc o fuel inp).map (Alloc.toData inp)

end Moq
