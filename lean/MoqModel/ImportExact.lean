import MoqModel.GenLemmas
/-
  ImportExact: "… and nothing else".  Every path in the registry the import block is printed
  from was handed to `AddImport` by this run: it is mentioned by a type of a method (or of a
  type-parameter constraint) of a *requested* interface, or it is `sync`, or it is the source
  package (for the self-check line).  The lifting lemmas of `GenLemmas` carry an invariant that
  `AddImport` preserves for *every* package; here the invariant depends on which packages are
  handed in, so the same lifting is done once more with that side condition.
-/
namespace Moq

/-- every registered path satisfies `S` -/
def FromS (S : Str → Prop) (r : Registry) : Prop := ∀ c ∈ r.imports, S c.path

variable {S : Str → Prop}

theorem addImport_fromS (o : Ord) (fuel : Nat) (r r' : Registry) (p : PkgRef) (res : Option Str)
    (h : FromS S r) (hp : S (stripVendorPath p.path)) (ha : addImport o fuel r p = some (r', res)) : FromS S r' := by
  intro c hc
  have hmem : c.path ∈ r'.imports.map (·.path) := List.mem_map.mpr ⟨c, hc, rfl⟩
  rcases addImport_paths o fuel r r' p res ha with e | ⟨e, _, _⟩
  · rw [e] at hmem
    obtain ⟨c0, hc0, he⟩ := List.mem_map.mp hmem
    rw [← he]; exact h c0 hc0
  · rw [e] at hmem
    rcases List.mem_append.mp hmem with h1 | h1
    · obtain ⟨c0, hc0, he⟩ := List.mem_map.mp h1
      rw [← he]; exact h c0 hc0
    · simp only [List.mem_singleton] at h1
      rw [h1]; exact hp

theorem populateImports_fromS (o : Ord) (fuel : Nat) :
    ∀ (ps : List PkgRef) (r r' : Registry) (acc acc' : List Str),
      FromS S r → (∀ p ∈ ps, S (stripVendorPath p.path)) →
      ps.foldlM (init := (r, acc)) (fun (st : Registry × List Str) p =>
        (addImport o fuel st.1 p).map fun (r', res) =>
          match res with
          | some path => (r', if path ∈ st.2 then st.2 else st.2 ++ [path])
          | none => (r', st.2)) = some (r', acc') → FromS S r' := by
  intro ps
  induction ps with
  | nil => intro r r' acc acc' h _ hf; simp at hf; rw [← hf.1]; exact h
  | cons p ps ih =>
    intro r r' acc acc' h hps hf
    simp only [List.foldlM_cons] at hf
    cases ha : addImport o fuel r p with
    | none => simp [ha] at hf
    | some rr =>
      rcases rr with ⟨r1, res⟩
      have h1 := addImport_fromS o fuel r r1 p res h (hps p List.mem_cons_self) ha
      simp only [ha, Option.map_some, Option.bind_some] at hf
      have hps' : ∀ q ∈ ps, S (stripVendorPath q.path) := fun q hq => hps q (List.mem_cons_of_mem _ hq)
      cases res with
      | none => exact ih r1 r' _ acc' h1 hps' hf
      | some path => exact ih r1 r' _ acc' h1 hps' hf

theorem addVar_fromS (o : Ord) (fuel : Nat) (r r' : Registry) (sc sc' : Scope)
    (n : Str) (t : Ty) (sfx : Str) (h : FromS S r) (ht : ∀ p ∈ Ty.pkgsOf t, S (stripVendorPath p.path))
    (ha : addVar o fuel r sc n t sfx = .ok (r', sc')) : FromS S r' := by
  unfold addVar at ha
  cases hp : populateImports o fuel r (Ty.pkgsOf t) with
  | none => simp [hp] at ha
  | some rp =>
    rcases rp with ⟨r1, paths⟩
    have h1 : FromS S r1 := by
      unfold populateImports at hp
      exact populateImports_fromS o fuel _ r r1 [] paths h ht hp
    simp only [hp] at ha
    cases hn : nameVar o r1 sc paths n t sfx with
    | error f => simp [hn] at ha
    | ok sc2 => simp [hn] at ha; rw [← ha.1]; exact h1

theorem addVars_fromS (o : Ord) (fuel : Nat) (sfx : Str) :
    ∀ (nts : List (Str × Ty)) (r r' : Registry) (sc sc' : Scope),
      FromS S r → (∀ nt ∈ nts, ∀ p ∈ Ty.pkgsOf nt.2, S (stripVendorPath p.path)) →
      addVars o fuel sfx nts r sc = .ok (r', sc') → FromS S r' := by
  intro nts
  induction nts with
  | nil => intro r r' sc sc' h _ ha; simp [addVars] at ha; rw [← ha.1]; exact h
  | cons nt nts ih =>
    intro r r' sc sc' h hts ha
    rcases nt with ⟨n, t⟩
    simp only [addVars] at ha
    cases hv : addVar o fuel r sc n t sfx with
    | error e => simp [hv] at ha
    | ok rs =>
      rcases rs with ⟨r1, sc1⟩
      simp only [hv] at ha
      exact ih r1 r' sc1 sc'
        (addVar_fromS o fuel r r1 sc sc1 n t sfx h (hts (n, t) List.mem_cons_self) hv)
        (fun x hx => hts x (List.mem_cons_of_mem _ hx)) ha

theorem zip_snd_mem {α β} : ∀ (l1 : List α) (l2 : List β) (x : α × β), x ∈ l1.zip l2 → x.2 ∈ l2
  | [], _, x, h => by simp at h
  | _ :: _, [], x, h => by simp at h
  | a :: as, b :: bs, x, h => by
    simp only [List.zip_cons_cons, List.mem_cons] at h
    rcases h with rfl | h
    · exact List.mem_cons_self
    · exact List.mem_cons_of_mem _ (zip_snd_mem as bs x h)

theorem methodAlloc_fromS (o : Ord) (fuel : Nat) (r r' : Registry) (m : MethodIn) (a : MethodAlloc)
    (h : FromS S r) (hm : ∀ t ∈ m.ptys ++ m.rtys, ∀ p ∈ Ty.pkgsOf t, S (stripVendorPath p.path))
    (ha : methodAlloc o fuel r m = .ok (r', a)) : FromS S r' := by
  simp only [methodAlloc, bind, Except.bind] at ha
  cases h1 : addVars o fuel [] (m.pnames.zip m.ptys) r {} with
  | error e => simp [h1] at ha
  | ok x =>
    rcases x with ⟨r1, sc1⟩
    simp only [h1] at ha
    cases h2 : addVars o fuel Generated.outSuffix (m.rnames.zip m.rtys) r1 sc1 with
    | error e => simp [h2] at ha
    | ok y =>
      rcases y with ⟨r2, sc2⟩
      simp only [h2, pure, Except.pure] at ha
      cases ha
      have p1 := addVars_fromS o fuel [] _ r r1 {} sc1 h
        (fun nt hnt => hm nt.2 (List.mem_append_left _ (zip_snd_mem _ _ nt hnt))) h1
      exact addVars_fromS o fuel _ _ r1 _ sc1 sc2 p1
        (fun nt hnt => hm nt.2 (List.mem_append_right _ (zip_snd_mem _ _ nt hnt))) h2

theorem methodsAlloc_fromS (o : Ord) (fuel : Nat) :
    ∀ (ms : List MethodIn) (r r' : Registry) (as : List MethodAlloc),
      FromS S r → (∀ m ∈ ms, ∀ t ∈ m.ptys ++ m.rtys, ∀ p ∈ Ty.pkgsOf t, S (stripVendorPath p.path)) →
      methodsAlloc o fuel r ms = .ok (r', as) → FromS S r' := by
  intro ms
  induction ms with
  | nil => intro r r' as h _ hm; simp [methodsAlloc] at hm; rw [← hm.1]; exact h
  | cons m ms ih =>
    intro r r' as h hms hm
    simp only [methodsAlloc, bind, Except.bind] at hm
    cases h1 : methodAlloc o fuel r m with
    | error e => simp [h1] at hm
    | ok x =>
      rcases x with ⟨r1, a⟩
      simp only [h1] at hm
      cases h2 : methodsAlloc o fuel r1 ms with
      | error e => simp [h2] at hm
      | ok y =>
        rcases y with ⟨r2, as2⟩
        simp only [h2, pure, Except.pure] at hm
        cases hm
        exact ih r1 _ as2 (methodAlloc_fromS o fuel r r1 m a h (hms m List.mem_cons_self) h1)
          (fun m' hm' => hms m' (List.mem_cons_of_mem _ hm')) h2

theorem tparamsAlloc_fromS (o : Ord) (fuel : Nat) (r r' : Registry) (tps : List TParamIn) (vs : List Var)
    (h : FromS S r) (htp : ∀ t ∈ tps, ∀ p ∈ Ty.pkgsOf t.constraint, S (stripVendorPath p.path))
    (ht : tparamsAlloc o fuel r tps = .ok (r', vs)) : FromS S r' := by
  simp only [tparamsAlloc, bind, Except.bind] at ht
  cases h1 : addVars o fuel [] (tps.map fun t => (t.name, t.constraint)) r {} with
  | error e => simp [h1] at ht
  | ok x =>
    rcases x with ⟨r1, sc⟩
    simp only [h1, pure, Except.pure] at ht
    cases ht
    refine addVars_fromS o fuel _ _ r _ _ sc h ?_ h1
    intro nt hnt
    obtain ⟨t, htm, he⟩ := List.mem_map.mp hnt
    rw [← he]; exact htp t htm

/-- the packages the interface requested by argument `np` mentions -/
def requestedPkgs (scope : List (Str × Obj)) (np : Str) : List PkgRef :=
  match scope.find? (fun x => x.1 = (parseInterfaceName np).1) with
  | some (_, .iface ms generic tps true _) =>
    (ms.flatMap fun m => (m.ptys ++ m.rtys).flatMap Ty.pkgsOf) ++
    (if generic then tps.flatMap (fun t => Ty.pkgsOf t.constraint) else [])
  | _ => []

theorem mocksAlloc_fromS (o : Ord) (fuel : Nat) (scope : List (Str × Obj)) :
    ∀ (args : List Str) (r r' : Registry) (ms : List MockAlloc),
      FromS S r → (∀ np ∈ args, ∀ p ∈ requestedPkgs scope np, S (stripVendorPath p.path)) →
      mocksAlloc o fuel scope r args = .ok (r', ms) → FromS S r' := by
  intro args
  induction args with
  | nil => intro r r' ms h _ hm; simp [mocksAlloc] at hm; rw [← hm.1]; exact h
  | cons np nps ih =>
    intro r r' ms h hreq hm
    have hnp := hreq np List.mem_cons_self
    unfold requestedPkgs at hnp
    unfold mocksAlloc at hm
    rcases hp : parseInterfaceName np with ⟨name, mockName⟩
    simp only [hp] at hm hnp
    cases hs : scope.find? (fun x => x.1 = name) with
    | none => simp [hs] at hm
    | some kv =>
      rcases kv with ⟨k, obj⟩
      cases obj with
      | notIface ts => simp [hs] at hm
      | iface msIn generic tps tn ts =>
        cases tn with
        | false => simp [hs] at hm
        | true =>
        simp only [hs] at hm hnp
        cases hma : methodsAlloc o fuel r msIn with
        | error e => simp [hma] at hm
        | ok rm =>
          rcases rm with ⟨r1, mas⟩
          have p1 := methodsAlloc_fromS o fuel msIn r r1 mas h
            (fun m hm' t ht p hp' => hnp p (List.mem_append_left _
              (List.mem_flatMap.mpr ⟨m, hm', List.mem_flatMap.mpr ⟨t, ht, hp'⟩⟩))) hma
          simp only [hma] at hm
          cases htp : (if generic then tparamsAlloc o fuel r1 tps else .ok (r1, [])) with
          | error e => simp [htp] at hm
          | ok rt =>
            rcases rt with ⟨r2, tvs⟩
            have p2 : FromS S r2 := by
              by_cases hg : generic
              · simp [hg] at htp
                refine tparamsAlloc_fromS o fuel r1 r2 tps tvs p1 ?_ htp
                intro t ht p hp'
                exact hnp p (List.mem_append_right _ (by simp [hg]; exact ⟨t, ht, hp'⟩))
              · simp [hg] at htp; rw [← htp.1]; exact p1
            simp only [htp] at hm
            cases hrest : mocksAlloc o fuel scope r2 nps with
            | error e => simp [hrest] at hm
            | ok rr =>
              rcases rr with ⟨r3, rest⟩
              simp only [hrest] at hm
              cases hm
              exact ih r2 _ rest p2 (fun np' hnp' => hreq np' (List.mem_cons_of_mem _ hnp')) hrest

/-- **nothing else**: every path of the registry the import block is printed from is the
    (vendor-stripped) path of a package mentioned by a method or a type-parameter constraint of a
    requested interface, or `sync`, or the source package -/
theorem genAlloc_imports_requested (o : Ord) (fuel : Nat) (inp : Input) (a : Alloc)
    (h : genAlloc o fuel inp = .ok a) :
    ∀ c ∈ a.reg.imports,
      (∃ np ∈ inp.args, ∃ p ∈ requestedPkgs inp.scope np, c.path = stripVendorPath p.path) ∨
      c.path = stripVendorPath s%"sync" ∨ c.path = stripVendorPath inp.srcPath := by
  let S : Str → Prop := fun path =>
    (∃ np ∈ inp.args, ∃ p ∈ requestedPkgs inp.scope np, path = stripVendorPath p.path) ∨
    path = stripVendorPath s%"sync" ∨ path = stripVendorPath inp.srcPath
  have h0 : FromS S (initRegistry inp) := by intro c hc; simp [initRegistry] at hc
  unfold genAlloc at h
  split at h
  · cases h
  · cases hm : mocksAlloc o fuel inp.scope (initRegistry inp) inp.args with
    | error e => simp [hm] at h
    | ok rm =>
      rcases rm with ⟨r1, mocks⟩
      have p1 : FromS S r1 := mocksAlloc_fromS o fuel inp.scope inp.args _ r1 mocks h0
        (fun np hnp p hp => Or.inl ⟨np, hnp, p, hp, rfl⟩) hm
      simp only [hm] at h
      cases hs : addSync o fuel r1 mocks with
      | none => simp [hs] at h
      | some r2 =>
        have p2 : FromS S r2 := by
          unfold addSync at hs
          split at hs
          · cases ha : addImport o fuel r1 ⟨s%"sync", s%"sync"⟩ with
            | none => simp [ha] at hs
            | some x =>
              rcases x with ⟨rr, res⟩
              simp [ha] at hs; subst hs
              exact addImport_fromS o fuel r1 rr _ res p1 (Or.inr (Or.inl rfl)) ha
          · cases hs; exact p1
        simp only [hs] at h
        cases hq : addSrc o fuel inp r2 with
        | none => simp [hq] at h
        | some rq =>
          rcases rq with ⟨r3, q⟩
          simp only [hq] at h
          cases h
          have p3 : FromS S r3 := by
            unfold addSrc at hq
            split at hq
            · split at hq
              · cases ha : addImport o fuel r2 ⟨inp.srcPath, inp.srcName⟩ with
                | none => simp [ha] at hq
                | some x =>
                  rcases x with ⟨rr, res⟩
                  simp [ha] at hq; rw [← hq.1]
                  exact addImport_fromS o fuel r2 rr _ res p2 (Or.inr (Or.inr rfl)) ha
              · cases hq; exact p2
            · cases hq; exact p2
          exact p3

end Moq
