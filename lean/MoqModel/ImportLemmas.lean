import MoqModel.GenLemmas
/-
  ImportLemmas: what `populateImports` records for a variable, and what the registry then
  knows about those packages.
-/
namespace Moq

/-- the registry knows `path` -/
def Registry.has (r : Registry) (path : Str) : Prop := path ∈ r.imports.map (·.path)

theorem addImport_has_mono (o : Ord) (fuel : Nat) (r r' : Registry) (p : PkgRef) (res : Option Str)
    (h : addImport o fuel r p = some (r', res)) (path : Str) (hp : r.has path) : r'.has path := by
  unfold Registry.has at *
  rcases addImport_paths o fuel r r' p res h with e | ⟨e, _, _⟩
  · rw [e]; exact hp
  · rw [e]; exact List.mem_append_left _ hp

/-- the result of `AddImport`: nil exactly for the destination package, otherwise the stripped
    path, which the registry now knows -/
theorem addImport_result (o : Ord) (fuel : Nat) (r r' : Registry) (p : PkgRef) (res : Option Str)
    (h : addImport o fuel r p = some (r', res)) :
    (stripVendorPath p.path = r.moqPkgPath ∧ res = none) ∨
    (stripVendorPath p.path ≠ r.moqPkgPath ∧ res = some (stripVendorPath p.path) ∧
      r'.has (stripVendorPath p.path)) := by
  have hp := addImport_paths o fuel r r' p res h
  unfold addImport at h
  simp only [] at h
  split at h
  · rename_i he; cases h; exact Or.inl ⟨he, rfl⟩
  · rename_i hne
    right
    split at h
    · rename_i x hl
      cases h
      refine ⟨hne, rfl, ?_⟩
      unfold Registry.has Registry.lookup at *
      have := List.find?_some hl
      simp at this
      exact List.mem_map.mpr ⟨x, List.mem_of_find?_eq_some hl, this⟩
    · rename_i hl
      have hres : res = some (stripVendorPath p.path) := by
        split at h
        · simp only [Option.map_eq_some_iff] at h
          obtain ⟨s, _, heq⟩ := h
          cases heq; rfl
        · cases h; rfl
      refine ⟨hne, hres, ?_⟩
      unfold Registry.has
      rcases hp with e | ⟨e, _, _⟩
      · -- impossible: the path was not there before, and it is there after
        exfalso
        split at h
        · simp only [Option.map_eq_some_iff] at h
          obtain ⟨s, hr, heq⟩ := h
          cases heq
          have rp := resolve_paths o fuel _ s _ _ 0 hr
          have : (s.imps ++ [s.pend]).map (·.path) = r.imports.map (·.path) := e
          simp [rp.1, rp.2] at this
        · cases h; simp at e
      · rw [e]; simp

end Moq
