import MoqModel.RegistryLemmas
import MoqModel.GenLemmas
/-
  ResolveFrame: what `resolveImportConflict` can do to the registry, for *every* call that
  returns – any registry, any map-iteration order, any depth of cascading conflicts:

  * it changes nothing but aliases (`resolve_paths`, `RegistryLemmas`);
  * an alias it writes for a package is `uniqueName` of *that package's own path* at a level not
    below the level of the call (`resolve_frame`).

  Lifted through `AddImport` and the whole run (`genAlloc`): every alias in the final registry is
  the alias harvested from the source files for that path, or a unique name of the package's own
  path (`AliasShape`).  The identifier-validity clause of C11 follows for all runs, cascades
  included, from a decidable condition on the input (WF.imports, clause D).
-/
namespace Moq

/-- `p'` is `p` with, possibly, a new alias: a unique name of its own path at level ≥ `lvl` -/
def AliasStep (lvl : Nat) (p p' : Pkg) : Prop :=
  p'.path = p.path ∧ p'.name = p.name ∧ (p'.alias = p.alias ∨ ∃ l, lvl ≤ l ∧ p'.alias = uniqueName p.path l)

theorem AliasStep.refl (lvl : Nat) (p : Pkg) : AliasStep lvl p p := ⟨rfl, rfl, Or.inl rfl⟩

theorem AliasStep.trans {lvl : Nat} {p p' p'' : Pkg} (h1 : AliasStep lvl p p') (h2 : AliasStep lvl p' p'') :
    AliasStep lvl p p'' := by
  obtain ⟨a1, b1, c1⟩ := h1
  obtain ⟨a2, b2, c2⟩ := h2
  refine ⟨a2.trans a1, b2.trans b1, ?_⟩
  rcases c2 with e | ⟨l, hl, e⟩
  · rcases c1 with e1 | ⟨l, hl, e1⟩
    · exact Or.inl (e.trans e1)
    · exact Or.inr ⟨l, hl, e.trans e1⟩
  · exact Or.inr ⟨l, hl, by rw [e, a1]⟩

theorem AliasStep.mono {lvl : Nat} {p p' : Pkg} (h : AliasStep (lvl + 1) p p') : AliasStep lvl p p' := by
  obtain ⟨a, b, c⟩ := h
  refine ⟨a, b, ?_⟩
  rcases c with e | ⟨l, hl, e⟩
  · exact Or.inl e
  · exact Or.inr ⟨l, by omega, e⟩

def ListStep (lvl : Nat) : List Pkg → List Pkg → Prop
  | [], [] => True
  | p :: ps, q :: qs => AliasStep lvl p q ∧ ListStep lvl ps qs
  | _, _ => False

theorem ListStep.refl (lvl : Nat) : ∀ l : List Pkg, ListStep lvl l l
  | [] => trivial
  | p :: ps => ⟨AliasStep.refl lvl p, ListStep.refl lvl ps⟩

theorem ListStep.trans {lvl : Nat} : ∀ {a b c : List Pkg}, ListStep lvl a b → ListStep lvl b c → ListStep lvl a c
  | [], [], [], _, _ => trivial
  | _ :: _, _ :: _, _ :: _, h1, h2 => ⟨h1.1.trans h2.1, ListStep.trans h1.2 h2.2⟩
  | [], [], _ :: _, _, h2 => by simp [ListStep] at h2
  | [], _ :: _, _, h1, _ => by simp [ListStep] at h1
  | _ :: _, [], _, h1, _ => by simp [ListStep] at h1
  | _ :: _, _ :: _, [], _, h2 => by simp [ListStep] at h2

theorem ListStep.mono {lvl : Nat} : ∀ {a b : List Pkg}, ListStep (lvl + 1) a b → ListStep lvl a b
  | [], [], _ => trivial
  | _ :: _, _ :: _, h => ⟨h.1.mono, ListStep.mono h.2⟩
  | [], _ :: _, h => by simp [ListStep] at h
  | _ :: _, [], h => by simp [ListStep] at h

/-- every element of the new list comes from an element of the old one by an `AliasStep` -/
theorem ListStep.mem {lvl : Nat} : ∀ {a b : List Pkg}, ListStep lvl a b → ∀ q ∈ b, ∃ p ∈ a, AliasStep lvl p q
  | [], [], _, q, hq => by simp at hq
  | p :: ps, q' :: qs, h, q, hq => by
    rcases List.mem_cons.mp hq with rfl | hq
    · exact ⟨p, List.mem_cons_self, h.1⟩
    · obtain ⟨p0, hp0, hs⟩ := ListStep.mem h.2 q hq
      exact ⟨p0, List.mem_cons_of_mem _ hp0, hs⟩
  | [], _ :: _, h, _, _ => by simp [ListStep] at h
  | _ :: _, [], h, _, _ => by simp [ListStep] at h

theorem setAliasIn_step (path : Str) (lvl : Nat) :
    ∀ l : List Pkg, ListStep lvl l (setAliasIn path (uniqueName path lvl) l)
  | [] => trivial
  | p :: ps => by
    simp only [setAliasIn]
    split
    · rename_i hp
      exact ⟨⟨rfl, rfl, Or.inr ⟨lvl, Nat.le_refl _, by simp [hp]⟩⟩, ListStep.refl lvl ps⟩
    · exact ⟨AliasStep.refl lvl p, setAliasIn_step path lvl ps⟩

def RSStep (lvl : Nat) (s s' : RS) : Prop := AliasStep lvl s.pend s'.pend ∧ ListStep lvl s.imps s'.imps

theorem RSStep.refl (lvl : Nat) (s : RS) : RSStep lvl s s := ⟨AliasStep.refl _ _, ListStep.refl _ _⟩
theorem RSStep.trans {lvl : Nat} {a b c : RS} (h1 : RSStep lvl a b) (h2 : RSStep lvl b c) : RSStep lvl a c :=
  ⟨h1.1.trans h2.1, h1.2.trans h2.2⟩
theorem RSStep.mono {lvl : Nat} {a b : RS} (h : RSStep (lvl + 1) a b) : RSStep lvl a b := ⟨h.1.mono, h.2.mono⟩

theorem setAlias_step (s : RS) (path : Str) (lvl : Nat) : RSStep lvl s (s.setAlias path (uniqueName path lvl)) := by
  unfold RS.setAlias
  split
  · rename_i hp
    exact ⟨⟨rfl, rfl, Or.inr ⟨lvl, Nat.le_refl _, by simp [hp]⟩⟩, ListStep.refl _ _⟩
  · exact ⟨AliasStep.refl _ _, setAliasIn_step path lvl s.imps⟩

theorem resolveStep_frame (o : Ord) (deeper : RS → Str → Str → Option RS) (lvl : Nat) (skip : Option Str)
    (hd : ∀ s s' p q, deeper s p q = some s' → RSStep (lvl + 1) s s')
    (s s' : RS) (p : Str) (h : resolveStep o deeper lvl skip s p = some s') : RSStep lvl s s' := by
  unfold resolveStep at h
  split at h
  · split at h
    · cases h; exact setAlias_step _ _ _
    · exact (hd _ _ _ _ h).mono
  · cases h; exact setAlias_step _ _ _

/-- **frame of `resolveImportConflict`**: whenever the call returns, every package keeps its path
    and name, and an alias that changed is a unique name of the package's own path at a level not
    below the call's -/
theorem resolve_frame (o : Ord) :
    ∀ (fuel : Nat) (s s' : RS) (a b : Str) (lvl : Nat), resolve o fuel s a b lvl = some s' → RSStep lvl s s' := by
  intro fuel
  induction fuel with
  | zero => intro s s' a b lvl h; simp [resolve] at h
  | succ n ih =>
    intro s s' a b lvl h
    simp only [resolve] at h
    split at h
    · exact (ih s s' a b (lvl + 1) h).mono
    · have hd : ∀ s s' p q, (fun s p q => resolve o n s p q (lvl + 1)) s p q = some s' → RSStep (lvl + 1) s s' :=
        fun s s' p q hh => ih s s' p q (lvl + 1) hh
      cases h1 : resolveStep o (fun s p q => resolve o n s p q (lvl + 1)) lvl (some b) s a with
      | none => simp [h1] at h
      | some s1 =>
        simp [h1] at h
        exact (resolveStep_frame o _ lvl (some b) hd s s1 a h1).trans (resolveStep_frame o _ lvl none hd s1 s' b h)

/-- every alias in the registry is the one harvested from the source files for that path, or a
    unique name of the package's own path -/
def AliasShape (r : Registry) : Prop :=
  ∀ p ∈ r.imports, p.alias = aliasOf r.aliases p.path ∨ ∃ l, p.alias = uniqueName p.path l

theorem aliasShape_step {r : Registry} {p q : Pkg} (h : p.alias = aliasOf r.aliases p.path ∨ ∃ l, p.alias = uniqueName p.path l)
    (hs : AliasStep 0 p q) : q.alias = aliasOf r.aliases q.path ∨ ∃ l, q.alias = uniqueName q.path l := by
  obtain ⟨hp, _, hc⟩ := hs
  rcases hc with e | ⟨l, _, e⟩
  · rcases h with h | ⟨l, h⟩
    · exact Or.inl (by rw [e, h, hp])
    · exact Or.inr ⟨l, by rw [e, h, hp]⟩
  · exact Or.inr ⟨l, by rw [e, hp]⟩

/-- **`AddImport` preserves the shape of aliases**, however deep the conflicts cascade -/
theorem aliasShape_inv : AddImportInv AliasShape := by
  intro o fuel r r' p res hr h
  unfold addImport at h
  simp only [] at h
  split at h
  · cases h; exact hr
  · split at h
    · cases h; exact hr
    · split at h
      · simp only [Option.map_eq_some_iff] at h
        obtain ⟨s, hres, heq⟩ := h
        cases heq
        have fr := resolve_frame o fuel _ s _ _ 0 hres
        intro q hq
        simp only [List.mem_append, List.mem_singleton] at hq
        rcases hq with hq | hq
        · obtain ⟨p0, hp0, hs⟩ := ListStep.mem fr.2 q hq
          exact aliasShape_step (hr p0 hp0) hs
        · subst hq
          exact aliasShape_step (r := r) (p := ⟨stripVendorPath p.path, p.name, aliasOf r.aliases (stripVendorPath p.path)⟩)
            (Or.inl rfl) fr.1
      · cases h
        intro q hq
        simp only [List.mem_append, List.mem_singleton] at hq
        rcases hq with hq | hq
        · exact hr q hq
        · subst hq; exact Or.inl rfl

theorem aliasShape_init (inp : Input) : AliasShape (initRegistry inp) := by
  intro p hp; simp [initRegistry] at hp

/-- the whole run: every alias of the final registry is a harvested source alias or a unique name
    of its own path -/
theorem genAlloc_aliasShape (o : Ord) (fuel : Nat) (inp : Input) (a : Alloc) (h : genAlloc o fuel inp = .ok a) :
    AliasShape a.reg :=
  genAlloc_inv aliasShape_inv o fuel inp a (aliasShape_init inp) h

end Moq
