import MoqModel.Bridge
/-
  Bridge (part 2): from the total encoders back to `Data.toVal`/`genFile`, and the printer of the
  structured model: `printFile (genFile d)` is the text the regenerated template prints.
-/
namespace Moq
open Tmpl Generated

def ArgsOK (d : Data) : Prop := ∀ mk ∈ d.mocks, ∀ m ∈ mk.methods, m.argList ≠ none

theorem mapM_some {α β} (f : α → Option β) (g : α → β) :
    ∀ l : List α, (∀ x ∈ l, f x = some (g x)) → l.mapM f = some (l.map g)
  | [], _ => rfl
  | x :: xs, h => by
    have h1 := h x List.mem_cons_self
    have h2 := mapM_some f g xs (fun y hy => h y (List.mem_cons_of_mem _ hy))
    simp [List.mapM_cons, h1, h2]

theorem mapM_none {α β} (f : α → Option β) :
    ∀ l : List α, (∃ x ∈ l, f x = none) → l.mapM f = none
  | [], h => by obtain ⟨x, hx, _⟩ := h; simp at hx
  | y :: ys, h => by
    simp only [List.mapM_cons]
    cases hy : f y with
    | none => rfl
    | some b =>
      obtain ⟨x, hx, hn⟩ := h
      rcases List.mem_cons.mp hx with rfl | hx
      · rw [hn] at hy; cases hy
      · have := mapM_none f ys ⟨x, hx, hn⟩
        simp [this]

theorem methodToVal_ok (m : MethodD) (h : m.argList ≠ none) : MethodD.toVal m = some (MethodD.toValT m) := by
  unfold MethodD.toVal MethodD.toValT
  cases ha : m.argList with
  | none => exact absurd ha h
  | some al => simp [methV, Option.getD]

theorem mockToVal_ok (mk : MockD) (h : ∀ m ∈ mk.methods, m.argList ≠ none) : MockD.toVal mk = some (MockD.toValT mk) := by
  unfold MockD.toVal MockD.toValT
  rw [mapM_some MethodD.toVal MethodD.toValT mk.methods (fun m hm => methodToVal_ok m (h m hm))]
  rfl

theorem dataToVal_ok (d : Data) (h : ArgsOK d) : d.toVal = some (Data.toValT d) := by
  unfold Data.toVal Data.toValT
  rw [mapM_some MockD.toVal MockD.toValT d.mocks (fun mk hmk => mockToVal_ok mk (h mk hmk))]
  rfl

theorem renderNoop_ok (d : Data) (h : ArgsOK d) : renderNoop d = some (fileText d) := by
  unfold renderNoop
  rw [dataToVal_ok d h]
  exact exec_tl47 d

/-- total versions of genMethodF / genMockF / genFile -/
def methodFT (d : Data) (mk : MockD) (m : MethodD) : MethodF :=
  { name := m.name, params := m.params, returns := m.returns, argList := alOf m
    retTypes := m.returnArgTypeList
    body := genBody d.stub mk.mockName mk.ifaceName m
    callsBody := genCallsBody m
    resetBody := if d.resets then some (genResetBody m.name) else none }

def mockFT (d : Data) (mk : MockD) : MockF :=
  { ifaceName := mk.ifaceName, mockName := mk.mockName, tparams := mk.tparams
    ensure := if d.skip then none
              else some (mk.tparams.map TParamD.typeArg)
    methods := mk.methods.map (methodFT d mk)
    resetAll := if d.resets then some (mk.methods.flatMap fun m => genResetBody m.name) else none }

def fileFT (d : Data) : GoFile :=
  { pkgName := d.pkgName, srcQual := d.srcPkgQualifier, syncQual := syncQualifier d.imports
    imports := d.imports, mocks := d.mocks.map (mockFT d) }

theorem genMethodF_ok (d : Data) (mk : MockD) (m : MethodD) (h : m.argList ≠ none) :
    genMethodF d mk m = some (methodFT d mk m) := by
  unfold genMethodF methodFT alOf
  cases ha : m.argList with
  | none => exact absurd ha h
  | some al => simp [Option.getD]

theorem genMockF_ok (d : Data) (mk : MockD) (h : ∀ m ∈ mk.methods, m.argList ≠ none) :
    genMockF d mk = some (mockFT d mk) := by
  unfold genMockF mockFT
  rw [mapM_some (genMethodF d mk) (methodFT d mk) mk.methods (fun m hm => genMethodF_ok d mk m (h m hm))]
  rfl

theorem genFile_ok (d : Data) (h : ArgsOK d) : genFile d = some (fileFT d) := by
  unfold genFile fileFT
  rw [mapM_some (genMockF d) (mockFT d) d.mocks (fun mk hmk => genMockF_ok d mk (h mk hmk))]
  rfl

/-! the printer of the structured model prints the same text -/

theorem printFields_rec (indent : Str) (ps : List ParamD) :
    printFields indent (recFields ps) = (ps.map fun p => s%"\n" ++ indent ++ exported p.name ++ s%" " ++ p.typeStr).flatten := by
  simp [printFields, recFields, List.map_map, Function.comp_def]

theorem recvD (d : Data) (mk : MockD) :
    recv (mockFT d mk) = s%"func (mock *" ++ mk.mockName ++ tparamUseD mk ++ s%") " := by
  simp [recv, mockFT, tparamUse, tparamUseD]

theorem callName_eta : (fun x : ParamD => if x.variadic = true then x.name ++ s%"..." else x.name) = ParamD.callName := by
  funext x; simp [ParamD.callName]

set_option maxRecDepth 100000 in
set_option maxHeartbeats 1600000 in
theorem printMethod_eq (d : Data) (mk : MockD) (m : MethodD) :
    printMethod (fileFT d) (mockFT d mk) (methodFT d mk m) = methodText d mk m (alOf m) := by
  have hr := recvD d mk
  unfold printMethod methodText tailText fieldLines panicText resetText
  rw [hr]
  cases hs : d.stub <;> cases hrs : d.resets <;> cases hret : m.returns <;>
    simp [methodFT, mockFT, genBody, genCallsBody, genResetBody, printStmts, printStmt, printFields, recFields,
          panicMsg, stubRetText, MethodD.argCallList, callName_eta, MethodD.returnArgNameList,
          List.map_map, Function.comp_def, hs, hrs, hret, commaJoin]

end Moq
