import MoqModel.Scope
/-
  ScopeLemmas: one step of `AddVar` keeps the variable names of a method scope pairwise
  distinct – for *every* scope, registry and variable – under two explicit, decidable side
  conditions that are exactly the two ways the Go code can go wrong:

  (R) a retro-active rename `v.Name += "MoqParam"` (resolveImportVarConflicts) lands on a name
      that is already there (finding F-22 is the order-dependent variant of it);
  (N) the numbering loop of resolveVarNameConflict, having renamed the old variable to `x1`,
      hands out `x2` *without looking* whether `x2` is taken (finding F-19's mechanism).
-/
namespace Moq
open Generated

def names (vs : List Var) : List Str := vs.map (·.name)

theorem searchVar_some (vs : List Var) (q : Str) (i : Nat) (h : searchVar vs q = some i) :
    ∃ v, vs[i]? = some v ∧ v.name = q := by
  unfold searchVar at h
  have h2 := List.findIdx?_eq_some_iff_getElem.mp h
  obtain ⟨hi, hp, _⟩ := h2
  exact ⟨vs[i], by simp [hi], by simpa using hp⟩

theorem searchVar_none (vs : List Var) (q : Str) (h : searchVar vs q = none) : q ∉ names vs := by
  unfold searchVar at h
  intro hm
  obtain ⟨v, hv, he⟩ := List.mem_map.mp hm
  have := List.findIdx?_eq_none_iff.mp h v hv
  simp [he] at this

/-- renaming the variable at position `i` (currently called `q`) to a name nobody has keeps
    the names distinct; every name afterwards is an old one or the new one; `q` is gone -/
theorem renameAt_nodup (f : Str → Str) :
    ∀ (vs : List Var) (i : Nat) (q : Str), (∃ v, vs[i]? = some v ∧ v.name = q) →
      (names vs).Nodup → f q ∉ names vs →
      (names (renameAt vs i f)).Nodup ∧
      (∀ x, x ∈ names (renameAt vs i f) → (x ∈ names vs ∧ x ≠ q) ∨ x = f q) ∧
      (∀ x, x ∈ names vs → x ≠ q → x ∈ names (renameAt vs i f)) ∧
      (renameAt vs i f).length = vs.length := by
  intro vs
  induction vs with
  | nil => intro i q h; obtain ⟨v, hv, _⟩ := h; simp at hv
  | cons w ws ih =>
    intro i q h hnd hf
    obtain ⟨v, hv, hq⟩ := h
    simp only [names, List.map_cons, List.nodup_cons] at hnd
    cases i with
    | zero =>
      simp at hv; subst hv
      simp only [renameAt, names, List.map_cons]
      refine ⟨?_, ?_, ?_, by simp⟩
      · simp only [List.nodup_cons]
        refine ⟨?_, hnd.2⟩
        intro hm
        exact hf (by simp only [names, List.map_cons]; rw [← hq]; exact List.mem_cons_of_mem _ hm)
      · intro x hx
        rcases List.mem_cons.mp hx with rfl | hx
        · right; rw [hq]
        · left
          refine ⟨List.mem_cons_of_mem _ hx, ?_⟩
          intro e; subst e
          exact hnd.1 (by rw [hq]; exact hx)
      · intro x hx hne
        rcases List.mem_cons.mp hx with rfl | hx
        · exact absurd hq.symm (by intro e; exact hne e.symm)
        · exact List.mem_cons_of_mem _ hx
    | succ j =>
      simp at hv
      have hfw : f q ∉ names ws := fun hm => hf (by simp only [names, List.map_cons]; exact List.mem_cons_of_mem _ hm)
      obtain ⟨i1, i2, i3, i4⟩ := ih j q ⟨v, hv, hq⟩ hnd.2 hfw
      have hwq : w.name ≠ q := by
        intro e
        have : v ∈ ws := List.mem_of_getElem? hv
        exact hnd.1 (List.mem_map.mpr ⟨v, this, by rw [hq, e]⟩)
      simp only [renameAt, names, List.map_cons]
      refine ⟨?_, ?_, ?_, by simp [i4]⟩
      · simp only [List.nodup_cons]
        refine ⟨?_, i1⟩
        intro hm
        rcases i2 _ hm with ⟨h1, _⟩ | h2
        · exact hnd.1 h1
        · exact hf (by simp only [names, List.map_cons]; rw [← h2]; exact List.mem_cons_self)
      · intro x hx
        rcases List.mem_cons.mp hx with rfl | hx
        · left; exact ⟨List.mem_cons_self, hwq⟩
        · rcases i2 x hx with ⟨h1, h2⟩ | h2
          · left; exact ⟨List.mem_cons_of_mem _ h1, h2⟩
          · right; exact h2
      · intro x hx hne
        rcases List.mem_cons.mp hx with rfl | hx
        · exact List.mem_cons_self
        · exact List.mem_cons_of_mem _ (i3 x hx hne)

theorem append_right_inj' {a b s : Str} (h : a ++ s = b ++ s) : a = b := List.append_cancel_right h

/-- **side condition (R)** for the retro-active renames of one `AddVar` -/
def RenamesFresh (vs : List Var) (quals : List Str) : Prop :=
  quals.Nodup ∧ (∀ q ∈ quals, q ++ moqParamSuffix ∉ names vs) ∧
  (∀ q ∈ quals, ∀ q' ∈ quals, q ≠ q' ++ moqParamSuffix)

/-- `resolveImportVarConflicts` keeps the names distinct under (R) -/
theorem resolveImportVarConflicts_nodup :
    ∀ (quals : List Str) (vs : List Var), (names vs).Nodup → RenamesFresh vs quals →
      (names (resolveImportVarConflicts vs quals)).Nodup ∧
      (resolveImportVarConflicts vs quals).length = vs.length ∧
      (∀ x, x ∈ names (resolveImportVarConflicts vs quals) →
        x ∈ names vs ∨ ∃ q ∈ quals, x = q ++ moqParamSuffix) := by
  intro quals
  induction quals with
  | nil => intro vs h _; exact ⟨h, rfl, fun x hx => Or.inl hx⟩
  | cons q qs ih =>
    intro vs hnd hr
    obtain ⟨hqn, hfresh, hsep⟩ := hr
    simp only [List.nodup_cons] at hqn
    unfold resolveImportVarConflicts
    simp only [List.foldl_cons]
    cases hs : searchVar vs q with
    | none =>
      simp only []
      have hr' : RenamesFresh vs qs :=
        ⟨hqn.2, fun q' hq' => hfresh q' (List.mem_cons_of_mem _ hq'),
         fun a ha b hb => hsep a (List.mem_cons_of_mem _ ha) b (List.mem_cons_of_mem _ hb)⟩
      obtain ⟨a1, a2, a3⟩ := ih vs hnd hr'
      refine ⟨a1, a2, ?_⟩
      intro x hx
      rcases a3 x hx with h | ⟨q', hq', e⟩
      · exact Or.inl h
      · exact Or.inr ⟨q', List.mem_cons_of_mem _ hq', e⟩
    | some i =>
      simp only []
      have hv := searchVar_some vs q i hs
      obtain ⟨r1, r2, _, r4⟩ := renameAt_nodup (· ++ moqParamSuffix) vs i q hv hnd (hfresh q List.mem_cons_self)
      have hr' : RenamesFresh (renameAt vs i (· ++ moqParamSuffix)) qs := by
        refine ⟨hqn.2, ?_, fun a ha b hb => hsep a (List.mem_cons_of_mem _ ha) b (List.mem_cons_of_mem _ hb)⟩
        intro q' hq' hm
        rcases r2 _ hm with ⟨h1, _⟩ | h2
        · exact hfresh q' (List.mem_cons_of_mem _ hq') h1
        · have : q' = q := append_right_inj' h2
          exact hqn.1 (this ▸ hq')
      obtain ⟨a1, a2, a3⟩ := ih _ r1 hr'
      refine ⟨a1, a2.trans r4, ?_⟩
      intro x hx
      rcases a3 x hx with h | ⟨q', hq', e⟩
      · rcases r2 x h with ⟨h1, _⟩ | h2
        · exact Or.inl h1
        · exact Or.inr ⟨q, List.mem_cons_self, h2⟩
      · exact Or.inr ⟨q', List.mem_cons_of_mem _ hq', e⟩

/-- what the numbering loop returns: a name that is not taken and the scope as it was; or – only
    when entered with `n = 1` – the old holder of the suggested name renamed to `…1` (which the
    loop has checked to be free) and the *unchecked* `…2` -/
theorem resolveVarNameConflict_spec (sc : Scope) (sug : Str) :
    ∀ (fuel n : Nat) (sc2 : Scope) (nm : Str), 1 ≤ n → resolveVarNameConflict sc sug fuel n = some (sc2, nm) →
      (sc2 = sc ∧ nm ∉ names sc.vars) ∨
      (n = 1 ∧ ∃ i, searchVar sc.vars sug = some i ∧ sug ++ Str.ofNat 1 ∉ names sc.vars ∧
        sc2.vars = renameAt sc.vars i (· ++ s%"1") ∧ nm = sug ++ Str.ofNat 2) := by
  intro fuel
  induction fuel with
  | zero => intro n sc2 nm _ h; simp [resolveVarNameConflict] at h
  | succ f ih =>
    intro n sc2 nm hn h
    simp only [resolveVarNameConflict] at h
    split at h
    · rcases ih (n + 1) sc2 nm (by omega) h with h1 | ⟨h2, _⟩
      · exact Or.inl h1
      · omega
    · rename_i hfree
      have hnone : searchVar sc.vars (sug ++ Str.ofNat n) = none := by
        cases hh : searchVar sc.vars (sug ++ Str.ofNat n) with
        | none => rfl
        | some _ => simp [hh] at hfree
      split at h
      · rename_i hn1
        subst hn1
        split at h
        · cases h
          exact Or.inl ⟨rfl, searchVar_none _ _ hnone⟩
        · rename_i i hi
          cases h
          exact Or.inr ⟨rfl, i, hi, searchVar_none _ _ hnone, rfl, rfl⟩
      · cases h
        exact Or.inl ⟨rfl, searchVar_none _ _ hnone⟩

theorem ofNat_one : Str.ofNat 1 = s%"1" := by decide
theorem ofNat_one_ne_two (s : Str) : s ++ Str.ofNat 1 ≠ s ++ Str.ofNat 2 := by
  intro h
  have := List.append_cancel_left h
  revert this
  decide

/-- **one step of `AddVar` keeps the names of the scope pairwise distinct** – any registry, any
    scope, any variable – under (R) for the retro-active renames and (N): should the numbering
    rename the old holder of the name to `…1`, then `…2` is not taken. -/
theorem nameVar_nodup (o : Ord) (r1 : Registry) (sc sc' : Scope) (paths : List Str) (vname : Str) (t : Ty)
    (suffix : Str)
    (hnd : (names sc.vars).Nodup)
    (hR : RenamesFresh sc.vars ((o.st paths).map r1.qualOf))
    (hN : ∀ n1, n1 ++ Str.ofNat 1 ∉ names (resolveImportVarConflicts sc.vars ((o.st paths).map r1.qualOf)) →
            n1 ∈ names (resolveImportVarConflicts sc.vars ((o.st paths).map r1.qualOf)) →
            n1 ++ Str.ofNat 2 ∉ names (resolveImportVarConflicts sc.vars ((o.st paths).map r1.qualOf)))
    (h : nameVar o r1 sc paths vname t suffix = .ok sc') :
    (names sc'.vars).Nodup := by
  obtain ⟨v1nd, _, _⟩ := resolveImportVarConflicts_nodup _ sc.vars hnd hR
  unfold nameVar at h
  simp only [] at h
  cases hvn : varName vname t suffix with
  | none => simp [hvn] at h
  | some n0 =>
    simp only [hvn] at h
    generalize hn1 : (if (searchIn (o.pk r1.imports) n0).isSome = true then n0 ++ moqParamSuffix else n0) = n1 at h
    generalize hvs : resolveImportVarConflicts sc.vars ((o.st paths).map r1.qualOf) = vars1 at h v1nd hN
    by_cases hc : ((searchVar vars1 n1).isSome || decide (n1 ∈ sc.conflicted)) = true
    · -- numbering
      simp only [hc, if_true] at h
      cases hr : resolveVarNameConflict { vars := vars1, conflicted := sc.conflicted } n1 (vars1.length + 2) 1 with
      | none => simp [hr] at h
      | some x =>
        rcases x with ⟨sc2, n2⟩
        simp only [hr] at h
        cases h
        simp only [names, List.map_append, List.map_cons, List.map_nil]
        rcases resolveVarNameConflict_spec _ _ _ _ _ _ (Nat.le_refl 1) hr with ⟨e, hfree⟩ | ⟨_, i, hi, h1free, hv2, hn2⟩
        · subst e
          refine List.nodup_append.mpr ⟨v1nd, by simp, ?_⟩
          intro a ha b hb
          simp at hb; subst hb
          intro e; subst e
          exact hfree ha
        · obtain ⟨w, hw, hwn⟩ := searchVar_some _ _ _ hi
          have hin : n1 ∈ names vars1 := List.mem_map.mpr ⟨w, List.mem_of_getElem? hw, hwn⟩
          have h2free := hN _ h1free hin
          have hren := renameAt_nodup (· ++ s%"1") vars1 i n1 ⟨w, hw, hwn⟩ v1nd (by rw [← ofNat_one]; exact h1free)
          obtain ⟨r1', r2', _, _⟩ := hren
          rw [hv2]
          refine List.nodup_append.mpr ⟨r1', by simp, ?_⟩
          intro a ha b hb
          simp at hb; subst hb
          intro e; subst e
          rw [hn2] at ha
          rcases r2' _ ha with ⟨h1, _⟩ | h2
          · exact h2free h1
          · exact ofNat_one_ne_two _ (by rw [ofNat_one]; exact h2.symm)
    · -- the name is free: appended as is
      simp only [hc] at h
      cases h
      simp only [names, List.map_append, List.map_cons, List.map_nil]
      refine List.nodup_append.mpr ⟨v1nd, by simp, ?_⟩
      intro a ha b hb
      simp at hb; subst hb
      intro e; subst e
      simp only [Bool.or_eq_true, decide_eq_true_eq, not_or] at hc
      have : searchVar vars1 a = none := by
        cases hh : searchVar vars1 a with
        | none => rfl
        | some _ => simp [hh] at hc
      exact searchVar_none _ _ this ha

end Moq
