import MoqModel.Str
/-
  GlueIR: a mini abstract syntax for the imperative Go glue of moq (`main.run`,
  `Mocker.Mock`, `Mocker.format`, …).  `extract/glue.go` prints these functions as terms of
  this type on every run (`Generated/Glue.lean`); anything outside the subset makes the
  extraction fail loudly.
-/
namespace Moq.Glue
open Moq

inductive GE
  | id (n : Str)
  | sel (e : GE) (f : Str)
  | call (fn : GE) (args : List GE) (ellipsis : Bool)
  | str (s : Str)
  | int (n : Nat)
  | lit (src : Str)
  | un (op : Str) (e : GE)
  | bin (op : Str) (a b : GE)
  | idx (e i : GE)
  | slice (e lo hi : GE)
  | comp (ty : Str) (elts : List (Str × GE))
  | assert (e : GE) (ty : Str)
deriving Repr, Inhabited

inductive GS
  | assign (define : Bool) (lhs rhs : List GE)
  | opAssign (op : Str) (lhs rhs : List GE)
  | expr (e : GE)
  | ret (es : List GE)
  | ifs (init : List GS) (cond : GE) (thn els : List GS)
  | forRange (k v : Str) (x : GE) (body : List GS)
  | forLoop (init : List GS) (cond : GE) (post : List GS) (body : List GS)
  | varDecl (n : Str) (ty : Str) (vals : List GE)
  | switch (tag : GE) (cases : List (List GE × List GS))
  | block (body : List GS)
  | deferS (e : GE)
  | goS (e : GE)
  | branch (tok : Str)
  | opaque (src : Str)
deriving Repr, Inhabited

end Moq.Glue
