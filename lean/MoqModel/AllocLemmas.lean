import MoqModel.Gen
/-
  AllocLemmas: shape of what `methodData`/`typeParams` allocate – one variable per parameter,
  result and type parameter, in order; renames never add or drop variables.
-/
namespace Moq

theorem renameAt_length (vars : List Var) (i : Nat) (f : Str → Str) : (renameAt vars i f).length = vars.length := by
  induction vars generalizing i with
  | nil => rfl
  | cons v vs ih => cases i <;> simp [renameAt, ih]

theorem renameAt_tys (vars : List Var) (i : Nat) (f : Str → Str) :
    (renameAt vars i f).map (·.ty) = vars.map (·.ty) := by
  induction vars generalizing i with
  | nil => rfl
  | cons v vs ih => cases i <;> simp [renameAt, ih]

theorem resolveImportVarConflicts_tys (vars : List Var) (quals : List Str) :
    (resolveImportVarConflicts vars quals).map (·.ty) = vars.map (·.ty) := by
  unfold resolveImportVarConflicts
  induction quals generalizing vars with
  | nil => rfl
  | cons q qs ih =>
    simp only [List.foldl_cons]
    split
    · rw [ih, renameAt_tys]
    · exact ih vars

theorem resolveVarNameConflict_tys (sc : Scope) (sug : Str) :
    ∀ (fuel n : Nat) (sc' : Scope) (nm : Str), resolveVarNameConflict sc sug fuel n = some (sc', nm) →
      sc'.vars.map (·.ty) = sc.vars.map (·.ty) := by
  intro fuel
  induction fuel with
  | zero => intro n sc' nm h; simp [resolveVarNameConflict] at h
  | succ k ih =>
    intro n sc' nm h
    simp only [resolveVarNameConflict] at h
    split at h
    · exact ih (n + 1) sc' nm h
    · split at h
      · split at h
        · cases h; rfl
        · cases h; simp [renameAt_tys]
      · cases h; rfl

/-- `AddVar` appends exactly one variable, of the given type; the earlier ones keep their types
    and positions (only their names may change) -/
theorem nameVar_tys (o : Ord) (r : Registry) (sc sc' : Scope) (paths : List Str) (n : Str) (t : Ty) (sfx : Str)
    (h : nameVar o r sc paths n t sfx = .ok sc') : sc'.vars.map (·.ty) = sc.vars.map (·.ty) ++ [t] := by
  unfold nameVar at h
  simp only [] at h
  cases hv : varName n t sfx with
  | none => simp [hv] at h
  | some n0 =>
    simp only [hv] at h
    generalize hn1 : (if (searchIn (o.pk r.imports) n0).isSome = true then n0 ++ Generated.moqParamSuffix else n0) = n1 at h
    by_cases hc : ((searchVar (resolveImportVarConflicts sc.vars (List.map r.qualOf (o.st paths))) n1).isSome ||
        decide (n1 ∈ sc.conflicted)) = true
    · simp only [hc, if_true] at h
      cases hr : resolveVarNameConflict
          { vars := resolveImportVarConflicts sc.vars (List.map r.qualOf (o.st paths)), conflicted := sc.conflicted }
          n1 ((resolveImportVarConflicts sc.vars (List.map r.qualOf (o.st paths))).length + 2) 1 with
      | none => simp [hr] at h
      | some x =>
        rcases x with ⟨sc2, n2⟩
        simp only [hr] at h
        cases h
        have := resolveVarNameConflict_tys _ _ _ _ sc2 n2 hr
        simp [this, resolveImportVarConflicts_tys]
    · simp only [hc] at h
      cases h
      simp [resolveImportVarConflicts_tys]

theorem addVar_tys (o : Ord) (fuel : Nat) (r r' : Registry) (sc sc' : Scope) (n : Str) (t : Ty) (sfx : Str)
    (h : addVar o fuel r sc n t sfx = .ok (r', sc')) : sc'.vars.map (·.ty) = sc.vars.map (·.ty) ++ [t] := by
  unfold addVar at h
  cases hp : populateImports o fuel r (Ty.pkgsOf t) with
  | none => simp [hp] at h
  | some rp =>
    rcases rp with ⟨r1, paths⟩
    simp only [hp] at h
    cases hn : nameVar o r1 sc paths n t sfx with
    | error f => simp [hn] at h
    | ok sc2 =>
      simp [hn] at h
      rw [← h.2]
      exact nameVar_tys o _ sc _ _ n t sfx hn

theorem addVars_tys (o : Ord) (fuel : Nat) (sfx : Str) :
    ∀ (nts : List (Str × Ty)) (r r' : Registry) (sc sc' : Scope),
      addVars o fuel sfx nts r sc = .ok (r', sc') → sc'.vars.map (·.ty) = sc.vars.map (·.ty) ++ nts.map (·.2) := by
  intro nts
  induction nts with
  | nil => intro r r' sc sc' h; simp [addVars] at h; rw [← h.2]; simp
  | cons nt nts ih =>
    intro r r' sc sc' h
    rcases nt with ⟨n, t⟩
    simp only [addVars] at h
    cases hv : addVar o fuel r sc n t sfx with
    | error e => simp [hv] at h
    | ok rs =>
      rcases rs with ⟨r1, sc1⟩
      simp only [hv] at h
      rw [ih r1 r' sc1 sc' h, addVar_tys o fuel r r1 sc sc1 n t sfx hv]
      simp

/-- `methodData`: the scope holds one variable per parameter then one per result, typed exactly
    like the interface's signature, in order -/
theorem methodAlloc_shape (o : Ord) (fuel : Nat) (r r' : Registry) (m : MethodIn) (a : MethodAlloc)
    (hlp : m.pnames.length = m.ptys.length) (hlr : m.rnames.length = m.rtys.length)
    (h : methodAlloc o fuel r m = .ok (r', a)) :
    a.name = m.name ∧ a.nparams = m.ptys.length ∧ a.variadic = m.variadic ∧
    a.vars.map (·.ty) = m.ptys ++ m.rtys := by
  simp only [methodAlloc, bind, Except.bind] at h
  cases h1 : addVars o fuel [] (m.pnames.zip m.ptys) r {} with
  | error e => simp [h1] at h
  | ok x =>
    rcases x with ⟨r1, sc1⟩
    simp only [h1] at h
    cases h2 : addVars o fuel Generated.outSuffix (m.rnames.zip m.rtys) r1 sc1 with
    | error e => simp [h2] at h
    | ok y =>
      rcases y with ⟨r2, sc2⟩
      simp only [h2, pure, Except.pure] at h
      cases h
      refine ⟨rfl, rfl, rfl, ?_⟩
      have t1 := addVars_tys o fuel _ _ r r1 {} sc1 h1
      have t2 := addVars_tys o fuel _ _ r1 _ sc1 sc2 h2
      simp only [] at t2
      rw [t2, t1]
      simp [List.map_snd_zip, hlp, hlr, Nat.le_of_eq]

/-- what go/types says of a method, as far as the generated signature is concerned -/
def MethodIn.sigView (m : MethodIn) : Str × Nat × Bool × List Ty := (m.name, m.ptys.length, m.variadic, m.ptys ++ m.rtys)
def MethodAlloc.sigView (a : MethodAlloc) : Str × Nat × Bool × List Ty :=
  (a.name, a.nparams, a.variadic, a.vars.map (·.ty))

theorem methodsAlloc_shape (o : Ord) (fuel : Nat) :
    ∀ (ms : List MethodIn) (r r' : Registry) (as : List MethodAlloc),
      (∀ m ∈ ms, m.pnames.length = m.ptys.length ∧ m.rnames.length = m.rtys.length) →
      methodsAlloc o fuel r ms = .ok (r', as) →
      as.map MethodAlloc.sigView = ms.map MethodIn.sigView := by
  intro ms
  induction ms with
  | nil => intro r r' as _ h; simp [methodsAlloc] at h; rw [h.2]; rfl
  | cons m ms ih =>
    intro r r' as hl h
    simp only [methodsAlloc, bind, Except.bind] at h
    cases h1 : methodAlloc o fuel r m with
    | error e => simp [h1] at h
    | ok x =>
      rcases x with ⟨r1, a⟩
      simp only [h1] at h
      cases h2 : methodsAlloc o fuel r1 ms with
      | error e => simp [h2] at h
      | ok y =>
        rcases y with ⟨r2, as2⟩
        simp only [h2, pure, Except.pure] at h
        cases h
        have hm := hl m List.mem_cons_self
        have s1 := methodAlloc_shape o fuel r r1 m a hm.1 hm.2 h1
        have s2 := ih r1 _ as2 (fun m' hm' => hl m' (List.mem_cons_of_mem _ hm')) h2
        simp only [List.map_cons, s2]
        simp [MethodAlloc.sigView, MethodIn.sigView, s1.1, s1.2.1, s1.2.2.1, s1.2.2.2]

end Moq
