import MoqModel.Gen
/-
  Sexp: the line protocol between the Go harness and the Lean driver.  Parsing code is
  `partial`; no theorem mentions it.  A parse failure is reported, never defaulted.
-/
namespace Moq

inductive Sexp
  | atom (s : Str)          -- bare word
  | str (s : Str)           -- quoted string
  | list (l : List Sexp)
deriving Repr, Inhabited

namespace Sexp

partial def parseString : Str → Str → Option (Str × Str)
  | acc, [] => none
  | acc, '"' :: rest => some (acc.reverse, rest)
  | acc, '\\' :: 'n' :: rest => parseString ('\n' :: acc) rest
  | acc, '\\' :: 't' :: rest => parseString ('\t' :: acc) rest
  | acc, '\\' :: c :: rest => parseString (c :: acc) rest
  | acc, c :: rest => parseString (c :: acc) rest

mutual
partial def parse : Str → Option (Sexp × Str)
  | [] => none
  | ' ' :: rest => parse rest
  | '(' :: rest => (parseList [] rest).map fun (l, r) => (.list l, r)
  | ')' :: _ => none
  | '"' :: rest => (parseString [] rest).map fun (s, r) => (.str s, r)
  | cs =>
    let (w, r) := cs.span (fun c => c ≠ ' ' ∧ c ≠ '(' ∧ c ≠ ')' ∧ c ≠ '"')
    some (.atom w, r)

partial def parseList (acc : List Sexp) : Str → Option (List Sexp × Str)
  | [] => none
  | ' ' :: rest => parseList acc rest
  | ')' :: rest => some (acc.reverse, rest)
  | cs => (parse cs).bind fun (x, r) => parseList (x :: acc) r
end

def getStr : Sexp → Option Str
  | .str s => some s
  | _ => none

def getBool : Sexp → Option Bool
  | .atom a => if a = s%"true" then some true else if a = s%"false" then some false else none
  | _ => none

def getNat : Sexp → Option Nat
  | .atom a => (String.ofList a).toNat?
  | _ => none

/-- `(tag a b c)` → `some [a, b, c]` when the head is the atom `tag` -/
def tagged (tag : Str) : Sexp → Option (List Sexp)
  | .list (.atom t :: rest) => if t = tag then some rest else none
  | _ => none

def head? : Sexp → Option Str
  | .list (.atom t :: _) => some t
  | _ => none

mutual
partial def toTy (x : Sexp) : Option Ty :=
  match x with
  | .list [.atom t, a] =>
    if t = s%"basic" then (getStr a).map .basic
    else if t = s%"ptr" then (toTy a).map .ptr
    else if t = s%"slice" then (toTy a).map .slice
    else if t = s%"tparam" then (getStr a).map .tparam
    else toTyN x
  | _ => toTyN x

partial def toTyN (x : Sexp) : Option Ty :=
  match x with
  | .list (.atom t :: rest) =>
    if t = s%"named" ∨ t = s%"alias" then
      match rest with
      | p :: n :: o :: u :: targs => do
        let p ← getStr p; let n ← getStr n; let o ← getStr o; let u ← getBool u
        let ts ← targs.mapM toTy
        pure (if t = s%"named" then .named ⟨p, n⟩ o ts u else .alias ⟨p, n⟩ o ts u)
      | _ => none
    else if t = s%"array" then
      match rest with
      | [n, e] => do pure (.array (← getNat n) (← toTy e))
      | _ => none
    else if t = s%"map" then
      match rest with
      | [k, v] => do pure (.map (← toTy k) (← toTy v))
      | _ => none
    else if t = s%"chan" then
      match rest with
      | [.atom d, e] => do
        let d ← (if d = s%"both" then some ChanDir.both else if d = s%"send" then some .send
                 else if d = s%"recv" then some .recv else none)
        pure (.chan d (← toTy e))
      | _ => none
    else if t = s%"sig" then
      match rest with
      | [v, ps, rs] => do
        let v ← getBool v
        let ps ← (← tagged s%"params" ps).mapM toNamed
        let rs ← (← tagged s%"results" rs).mapM toNamed
        pure (.sig (ps.map (·.1)) (ps.map (·.2)) (rs.map (·.1)) (rs.map (·.2)) v)
      | _ => none
    else if t = s%"struct" then do
      let fs ← rest.mapM fun f =>
        match f with
        | .list [.atom _, n, e, tg, ty] => do
          pure ((← getStr n), (← getBool e), (← getStr tg), (← toTy ty))
        | _ => none
      pure (.struct (fs.map (·.1)) (fs.map (·.2.2.2)) (fs.map (·.2.1)) (fs.map (·.2.2.1)))
    else if t = s%"iface" then
      match rest with
      | [impl, ms, es] => do
        let impl ← getBool impl
        let ms ← (← tagged s%"methods" ms).mapM toNamed
        let es ← (← tagged s%"embeds" es).mapM toTy
        pure (.iface (ms.map (·.1)) (ms.map (·.2)) es impl)
      | _ => none
    else if t = s%"union" then do
      let ts ← rest.mapM fun f =>
        match f with
        | .list [tl, ty] => do pure ((← getBool tl), (← toTy ty))
        | _ => none
      pure (.union (ts.map (·.1)) (ts.map (·.2)))
    else none
  | _ => none

partial def toNamed (x : Sexp) : Option (Str × Ty) :=
  match x with
  | .list [n, t] => do pure ((← getStr n), (← toTy t))
  | _ => none
end

def toMethod (x : Sexp) : Option MethodIn :=
  match x with
  | .list [n, ps, rs, v] => do
    let ps ← (← tagged s%"params" ps).mapM toNamed
    let rs ← (← tagged s%"results" rs).mapM toNamed
    pure { name := (← getStr n), pnames := ps.map (·.1), ptys := ps.map (·.2),
           rnames := rs.map (·.1), rtys := rs.map (·.2), variadic := (← getBool v) }
  | _ => none

def toTParam (x : Sexp) : Option TParamIn :=
  match x with
  | .list [n, c, es] => do
    pure { name := (← getStr n), constraint := (← toTy c),
           embeds := (← (← tagged s%"embeds" es).mapM toTy) }
  | _ => none

def toObj (x : Sexp) : Option Obj :=
  match x with
  | .list [.atom t, a] => if t = s%"notiface" then (getStr a).map .notIface else none
  | .list [.atom t, g, tn, ts, tps, ms] =>
    if t = s%"iface" then do
      pure (.iface (← (← tagged s%"methods" ms).mapM toMethod) (← getBool g)
                   (← (← tagged s%"tparams" tps).mapM toTParam) (← getBool tn) (← getStr ts))
    else none
  | _ => none

def field (tag : Str) (fs : List Sexp) : Option (List Sexp) := fs.findSome? (tagged tag)

/-- `(case ID (src NAME PATH) (fileimports …) (scope …) (pkg F) (probe …) (fmt F) (flags …) (args …))` -/
def toCase (x : Sexp) : Option (Str × Input) :=
  match x with
  | .list (.atom c :: id :: fs) =>
    if c ≠ s%"case" then none else do
    let id ← getStr id
    let [sn, sp] ← field s%"src" fs | none
    let als ← (← field s%"fileimports" fs).mapM fun a =>
      match a with
      | .list [p, al] => do pure ((← getStr p), (← getStr al))
      | _ => none
    let sc ← (← field s%"scope" fs).mapM fun a =>
      match a with
      | .list [n, o] => do pure ((← getStr n), (← toObj o))
      | _ => none
    let [pk] ← field s%"pkg" fs | none
    let pr ← field s%"probe" fs
    let probe ← (match pr with
                 | [] => some none
                 | [p] => (getStr p).map some
                 | _ => none)
    let [fm] ← field s%"fmt" fs | none
    let [st, sk, rs] ← field s%"flags" fs | none
    let args ← (← field s%"args" fs).mapM getStr
    pure (id, { srcName := (← getStr sn), srcPath := (← getStr sp), fileImports := als, scope := sc,
                pkgFlag := (← getStr pk), probe := probe, fmt := (← getStr fm),
                stub := (← getBool st), skip := (← getBool sk), resets := (← getBool rs),
                args := args })
  | _ => none

end Sexp
end Moq
