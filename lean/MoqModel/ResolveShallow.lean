import MoqModel.RegistryLemmas
/-
  ResolveShallow: `resolveImportConflict` when the first level at which the two packages'
  unique names differ already gives two free names – the ordinary conflict (`x/foo` meets
  `y/foo`).  No recursion "deeper" happens; the result is computed in closed form.
-/
namespace Moq

/-- equal unique names: the resolver only climbs -/
theorem resolve_climb (o : Ord) (s : RS) (a b : Str) :
    ∀ (k fuel lvl : Nat), (∀ l, l < k → uniqueName a (lvl + l) = uniqueName b (lvl + l)) →
      resolve o (fuel + k) s a b lvl = resolve o fuel s a b (lvl + k) := by
  intro k
  induction k with
  | zero => intro fuel lvl _; rfl
  | succ k ih =>
    intro fuel lvl h
    have h0 : uniqueName a lvl = uniqueName b lvl := by simpa using h 0 (Nat.succ_pos k)
    have : fuel + (k + 1) = (fuel + k) + 1 := by omega
    rw [this, resolve]
    simp only [h0, if_true]
    rw [ih fuel (lvl + 1) (fun l hl => by
      have := h (l + 1) (by omega)
      simpa [Nat.add_assoc, Nat.add_comm 1 l] using this)]
    congr 1
    omega

theorem searchIn_some_mem (l : List Pkg) (q : Str) (c : Pkg) (h : searchIn l q = some c) :
    c ∈ l ∧ c.qualifier = q := by
  unfold searchIn at h
  exact ⟨List.mem_of_find?_eq_some h, by simpa using List.find?_some h⟩

/-- `searchImport` over the registry with the import being added in it (last) -/
theorem searchIn_all (s : RS) (n : Str) :
    searchIn s.all n =
      match searchIn s.imps n with
      | some c => some c
      | none => if s.pend.qualifier = n then some s.pend else none := by
  unfold searchIn RS.all
  rw [List.find?_append]
  cases h : s.imps.find? (fun x => decide (x.qualifier = n)) with
  | some c => simp
  | none =>
    by_cases hq : s.pend.qualifier = n <;> simp [List.find?_cons, hq]

/-- the closed form of one shallow resolution -/
theorem resolve_shallow (fuel : Nat) (pend : Pkg) (imps : List Pkg) (b : Str) (lvl : Nat)
    (hab : pend.path ≠ b)
    (hd : uniqueName pend.path lvl ≠ uniqueName b lvl)
    (hna : uniqueName pend.path lvl ≠ [])
    (hfa : ∀ x ∈ imps, x.qualifier = uniqueName pend.path lvl → x.path = b)
    (hfb : ∀ x ∈ imps, x.qualifier = uniqueName b lvl → x.path = b) :
    resolve Ord.id (fuel + 1) ⟨pend, imps⟩ pend.path b lvl =
      some ⟨{ pend with alias := uniqueName pend.path lvl }, setAliasIn b (uniqueName b lvl) imps⟩ := by
  rw [resolve]
  simp only [hd, if_false]
  have step1 : resolveStep Ord.id (fun s p q => resolve Ord.id fuel s p q (lvl + 1)) lvl (some b) ⟨pend, imps⟩ pend.path
      = some ⟨{ pend with alias := uniqueName pend.path lvl }, imps⟩ := by
    unfold resolveStep
    simp only [Ord.id]
    rw [searchIn_all]
    cases hs : searchIn imps (uniqueName pend.path lvl) with
    | none =>
      simp only []
      by_cases hq : pend.qualifier = uniqueName pend.path lvl <;> simp [hq, RS.setAlias]
    | some c =>
      have hc := searchIn_some_mem _ _ _ hs
      have : c.path = b := hfa c hc.1 hc.2
      simp [this, RS.setAlias]
  rw [step1]
  simp only [Option.bind_some]
  unfold resolveStep
  simp only [Ord.id]
  rw [searchIn_all]
  have hne : ¬ pend.path = b := hab
  have hpq : ¬ Pkg.qualifier { pend with alias := uniqueName pend.path lvl } = uniqueName b lvl := by
    simp [Pkg.qualifier, hna, hd]
  cases hs : searchIn imps (uniqueName b lvl) with
  | none => simp [RS.setAlias, hne, hpq]
  | some c =>
    have hc := searchIn_some_mem _ _ _ hs
    have : c.path = b := hfb c hc.1 hc.2
    simp [this, RS.setAlias, hne]

/-- renaming the one package with path `b` to a name nobody else has keeps qualifiers distinct -/
theorem setAliasIn_nodup (b nb : Str) (hnb : nb ≠ []) :
    ∀ (l : List Pkg), (l.map (·.path)).Nodup → (l.map Pkg.qualifier).Nodup →
      (∀ x ∈ l, x.qualifier = nb → x.path = b) →
      ((setAliasIn b nb l).map Pkg.qualifier).Nodup ∧
      (∀ y ∈ setAliasIn b nb l, (y.path = b ∧ y.qualifier = nb) ∨ (y.path ≠ b ∧ y ∈ l)) := by
  intro l
  induction l with
  | nil => intro _ _ _; simp [setAliasIn]
  | cons p ps ih =>
    intro hp hq hf
    simp only [List.map_cons, List.nodup_cons] at hp hq
    by_cases hpb : p.path = b
    · -- p is renamed; nothing else has path b, the tail is untouched
      have htail : setAliasIn b nb (p :: ps) = { p with alias := nb } :: ps := by simp [setAliasIn, hpb]
      rw [htail]
      have hqn : Pkg.qualifier { p with alias := nb } = nb := by simp [Pkg.qualifier, hnb]
      refine ⟨?_, ?_⟩
      · simp only [List.map_cons, List.nodup_cons, hqn]
        refine ⟨?_, hq.2⟩
        intro hm
        obtain ⟨x, hx, hxe⟩ := List.mem_map.mp hm
        have : x.path = b := hf x (List.mem_cons_of_mem _ hx) hxe
        exact hp.1 (List.mem_map.mpr ⟨x, hx, by rw [this, hpb]⟩)
      · intro y hy
        rcases List.mem_cons.mp hy with rfl | hy
        · exact Or.inl ⟨hpb, hqn⟩
        · right
          refine ⟨?_, List.mem_cons_of_mem _ hy⟩
          intro hyb
          exact hp.1 (List.mem_map.mpr ⟨y, hy, by rw [hyb, hpb]⟩)
    · have htail : setAliasIn b nb (p :: ps) = p :: setAliasIn b nb ps := by simp [setAliasIn, hpb]
      rw [htail]
      have ih' := ih hp.2 hq.2 (fun x hx => hf x (List.mem_cons_of_mem _ hx))
      refine ⟨?_, ?_⟩
      · simp only [List.map_cons, List.nodup_cons]
        refine ⟨?_, ih'.1⟩
        intro hm
        obtain ⟨y, hy, hye⟩ := List.mem_map.mp hm
        rcases ih'.2 y hy with ⟨hyb, hyq⟩ | ⟨_, hyl⟩
        · -- y is the renamed one: p would have qualifier nb, so path b
          have : p.path = b := hf p List.mem_cons_self (by rw [← hye, hyq])
          exact hpb this
        · exact hq.1 (List.mem_map.mpr ⟨y, hyl, hye⟩)
      · intro y hy
        rcases List.mem_cons.mp hy with rfl | hy
        · exact Or.inr ⟨hpb, List.mem_cons_self⟩
        · rcases ih'.2 y hy with h1 | ⟨h1, h2⟩
          · exact Or.inl h1
          · exact Or.inr ⟨h1, List.mem_cons_of_mem _ h2⟩

end Moq

namespace Moq

theorem resolveStep_mono (o : Ord) (d1 d2 : RS → Str → Str → Option RS) (lvl : Nat) (skip : Option Str)
    (s : RS) (p : Str) (x : RS)
    (hd : ∀ s p q y, d1 s p q = some y → d2 s p q = some y)
    (h : resolveStep o d1 lvl skip s p = some x) : resolveStep o d2 lvl skip s p = some x := by
  unfold resolveStep at h ⊢
  cases hc : searchIn (o.pk s.all) (uniqueName p lvl) with
  | none => rw [hc] at h; exact h
  | some c =>
    rw [hc] at h
    simp only [] at h ⊢
    by_cases hcond : c.path = p ∨ skip = some c.path
    · rw [if_pos hcond] at h ⊢; exact h
    · rw [if_neg hcond] at h ⊢; exact hd _ _ _ _ h

/-- fuel is only a bound on the recursion depth: once `resolveImportConflict` returns with some
    fuel, it returns the same with more – "out of fuel" faithfully stands for "does not return" -/
theorem resolve_fuel_mono (o : Ord) :
    ∀ (fuel : Nat) (s : RS) (a b : Str) (lvl : Nat) (x : RS),
      resolve o fuel s a b lvl = some x → resolve o (fuel + 1) s a b lvl = some x := by
  intro fuel
  induction fuel with
  | zero => intro s a b lvl x h; simp [resolve] at h
  | succ k ih =>
    intro s a b lvl x h
    rw [resolve] at h
    rw [resolve]
    split at h
    · rename_i he; simp only [he, if_true]; exact ih _ _ _ _ _ h
    · rename_i he
      simp only [he, if_false]
      cases h1 : resolveStep o (fun s p q => resolve o k s p q (lvl + 1)) lvl (some b) s a with
      | none => simp [h1] at h
      | some s1 =>
        simp only [h1, Option.bind_some] at h
        have m1 := resolveStep_mono o _ (fun s p q => resolve o (k + 1) s p q (lvl + 1)) lvl (some b) s a s1
          (fun s p q y hy => ih s p q (lvl + 1) y hy) h1
        have m2 := resolveStep_mono o _ (fun s p q => resolve o (k + 1) s p q (lvl + 1)) lvl none s1 b x
          (fun s p q y hy => ih s p q (lvl + 1) y hy) h
        simp only [m1, Option.bind_some]
        exact m2

theorem addImport_fuel_mono (o : Ord) (fuel : Nat) (r : Registry) (p : PkgRef) (x : Registry × Option Str)
    (h : addImport o fuel r p = some x) : addImport o (fuel + 1) r p = some x := by
  unfold addImport at h ⊢
  simp only [] at h ⊢
  split
  · rename_i hc; simp only [hc, if_true] at h; exact h
  · rename_i hc
    simp only [hc, if_false] at h
    split
    · rename_i q hq; simp only [hq] at h; exact h
    · rename_i hq
      simp only [hq] at h
      split
      · rename_i c hcs
        simp only [hcs] at h
        simp only [Option.map_eq_some_iff] at h ⊢
        obtain ⟨s, hs, hx⟩ := h
        exact ⟨s, resolve_fuel_mono o fuel _ _ _ _ s hs, hx⟩
      · rename_i hcs; simp only [hcs] at h; exact h

end Moq

namespace Moq

/-- closed form of `AddImport` for the ordinary conflict -/
theorem addImport_shallow (k fuel : Nat) (r : Registry) (p : PkgRef) (c : Pkg)
    (hdst : stripVendorPath p.path ≠ r.moqPkgPath) (hnew : r.lookup (stripVendorPath p.path) = none)
    (hc : searchIn r.imports (Pkg.qualifier ⟨stripVendorPath p.path, p.name,
            aliasOf r.aliases (stripVendorPath p.path)⟩) = some c)
    (heq : ∀ l, l < k → uniqueName (stripVendorPath p.path) l = uniqueName c.path l)
    (hd : uniqueName (stripVendorPath p.path) k ≠ uniqueName c.path k)
    (hna : uniqueName (stripVendorPath p.path) k ≠ [])
    (hfa : ∀ x ∈ r.imports, x.qualifier = uniqueName (stripVendorPath p.path) k → x.path = c.path)
    (hfb : ∀ x ∈ r.imports, x.qualifier = uniqueName c.path k → x.path = c.path) :
    addImport Ord.id (fuel + 1 + k) r p =
      some ({ r with imports := setAliasIn c.path (uniqueName c.path k) r.imports ++
                [⟨stripVendorPath p.path, p.name, uniqueName (stripVendorPath p.path) k⟩] },
            some (stripVendorPath p.path)) := by
  unfold addImport
  simp only [hdst, if_false, hnew]
  have hcs : searchIn (Ord.id.pk r.imports) (Pkg.qualifier ⟨stripVendorPath p.path, p.name,
        aliasOf r.aliases (stripVendorPath p.path)⟩) = some c := hc
  simp only [hcs]
  have hcm := searchIn_some_mem _ _ _ hc
  have hne : stripVendorPath p.path ≠ c.path := by
    intro e
    have := List.find?_eq_none.mp hnew c hcm.1
    simp [e] at this
  have hclimb := resolve_climb Ord.id
    ⟨⟨stripVendorPath p.path, p.name, aliasOf r.aliases (stripVendorPath p.path)⟩, r.imports⟩
    (stripVendorPath p.path) c.path k (fuel + 1) 0 (by simpa using heq)
  rw [hclimb]
  have hsh := resolve_shallow fuel
    ⟨stripVendorPath p.path, p.name, aliasOf r.aliases (stripVendorPath p.path)⟩ r.imports c.path (0 + k)
    hne (by simpa using hd) (by simpa using hna) (by simpa using hfa) (by simpa using hfb)
  simp only [] at hsh
  rw [hsh]
  simp

end Moq
