import MoqModel.RegistryLemmas
/-
  ResolveShallow: `resolveImportConflict` when the first level at which the two packages'
  unique names differ already gives two free names – the ordinary conflict (`x/foo` meets
  `y/foo`).  No recursion "deeper" happens; the result is computed in closed form.
-/
namespace Moq

/-- equal unique names: the resolver only climbs -/
theorem resolve_climb (o : Ord) (s : RS) (a b : Str) :
    ∀ (k fuel lvl : Nat), (∀ l, l < k → uniqueName a (lvl + l) = uniqueName b (lvl + l)) →
      resolve o (fuel + k) s a b lvl = resolve o fuel s a b (lvl + k) := by
  intro k
  induction k with
  | zero => intro fuel lvl _; rfl
  | succ k ih =>
    intro fuel lvl h
    have h0 : uniqueName a lvl = uniqueName b lvl := by simpa using h 0 (Nat.succ_pos k)
    have : fuel + (k + 1) = (fuel + k) + 1 := by omega
    rw [this, resolve]
    simp only [h0, if_true]
    rw [ih fuel (lvl + 1) (fun l hl => by
      have := h (l + 1) (by omega)
      simpa [Nat.add_assoc, Nat.add_comm 1 l] using this)]
    congr 1
    omega

theorem searchIn_some_mem (l : List Pkg) (q : Str) (c : Pkg) (h : searchIn l q = some c) :
    c ∈ l ∧ c.qualifier = q := by
  unfold searchIn at h
  exact ⟨List.mem_of_find?_eq_some h, by simpa using List.find?_some h⟩

/-- the closed form of one shallow resolution -/
theorem resolve_shallow (fuel : Nat) (pend : Pkg) (imps : List Pkg) (b : Str) (lvl : Nat)
    (hab : pend.path ≠ b)
    (hd : uniqueName pend.path lvl ≠ uniqueName b lvl)
    (hfa : ∀ x ∈ imps, x.qualifier = uniqueName pend.path lvl → x.path = b)
    (hfb : ∀ x ∈ imps, x.qualifier = uniqueName b lvl → x.path = b) :
    resolve Ord.id (fuel + 1) ⟨pend, imps⟩ pend.path b lvl =
      some ⟨{ pend with alias := uniqueName pend.path lvl }, setAliasIn b (uniqueName b lvl) imps⟩ := by
  rw [resolve]
  simp only [hd, if_false]
  have step1 : resolveStep Ord.id (fun s p q => resolve Ord.id fuel s p q (lvl + 1)) lvl (some b) ⟨pend, imps⟩ pend.path
      = some ⟨{ pend with alias := uniqueName pend.path lvl }, imps⟩ := by
    unfold resolveStep
    simp only [Ord.id]
    cases hs : searchIn imps (uniqueName pend.path lvl) with
    | none => simp [RS.setAlias]
    | some c =>
      have hc := searchIn_some_mem _ _ _ hs
      have : c.path = b := hfa c hc.1 hc.2
      simp [this, RS.setAlias]
  rw [step1]
  simp only [Option.bind_some]
  unfold resolveStep
  simp only [Ord.id]
  have hne : ¬ pend.path = b := hab
  cases hs : searchIn imps (uniqueName b lvl) with
  | none => simp [RS.setAlias, hne]
  | some c =>
    have hc := searchIn_some_mem _ _ _ hs
    have : c.path = b := hfb c hc.1 hc.2
    simp [this, RS.setAlias, hne]

/-- renaming the one package with path `b` to a name nobody else has keeps qualifiers distinct -/
theorem setAliasIn_nodup (b nb : Str) (hnb : nb ≠ []) :
    ∀ (l : List Pkg), (l.map (·.path)).Nodup → (l.map Pkg.qualifier).Nodup →
      (∀ x ∈ l, x.qualifier = nb → x.path = b) →
      ((setAliasIn b nb l).map Pkg.qualifier).Nodup ∧
      (∀ y ∈ setAliasIn b nb l, (y.path = b ∧ y.qualifier = nb) ∨ (y.path ≠ b ∧ y ∈ l)) := by
  intro l
  induction l with
  | nil => intro _ _ _; simp [setAliasIn]
  | cons p ps ih =>
    intro hp hq hf
    simp only [List.map_cons, List.nodup_cons] at hp hq
    by_cases hpb : p.path = b
    · -- p is renamed; nothing else has path b, the tail is untouched
      have htail : setAliasIn b nb (p :: ps) = { p with alias := nb } :: ps := by simp [setAliasIn, hpb]
      rw [htail]
      have hqn : Pkg.qualifier { p with alias := nb } = nb := by simp [Pkg.qualifier, hnb]
      refine ⟨?_, ?_⟩
      · simp only [List.map_cons, List.nodup_cons, hqn]
        refine ⟨?_, hq.2⟩
        intro hm
        obtain ⟨x, hx, hxe⟩ := List.mem_map.mp hm
        have : x.path = b := hf x (List.mem_cons_of_mem _ hx) hxe
        exact hp.1 (List.mem_map.mpr ⟨x, hx, by rw [this, hpb]⟩)
      · intro y hy
        rcases List.mem_cons.mp hy with rfl | hy
        · exact Or.inl ⟨hpb, hqn⟩
        · right
          refine ⟨?_, List.mem_cons_of_mem _ hy⟩
          intro hyb
          exact hp.1 (List.mem_map.mpr ⟨y, hy, by rw [hyb, hpb]⟩)
    · have htail : setAliasIn b nb (p :: ps) = p :: setAliasIn b nb ps := by simp [setAliasIn, hpb]
      rw [htail]
      have ih' := ih hp.2 hq.2 (fun x hx => hf x (List.mem_cons_of_mem _ hx))
      refine ⟨?_, ?_⟩
      · simp only [List.map_cons, List.nodup_cons]
        refine ⟨?_, ih'.1⟩
        intro hm
        obtain ⟨y, hy, hye⟩ := List.mem_map.mp hm
        rcases ih'.2 y hy with ⟨hyb, hyq⟩ | ⟨_, hyl⟩
        · -- y is the renamed one: p would have qualifier nb, so path b
          have : p.path = b := hf p List.mem_cons_self (by rw [← hye, hyq])
          exact hpb this
        · exact hq.1 (List.mem_map.mpr ⟨y, hyl, hye⟩)
      · intro y hy
        rcases List.mem_cons.mp hy with rfl | hy
        · exact Or.inr ⟨hpb, List.mem_cons_self⟩
        · rcases ih'.2 y hy with h1 | ⟨h1, h2⟩
          · exact Or.inl h1
          · exact Or.inr ⟨h1, List.mem_cons_of_mem _ h2⟩

end Moq
