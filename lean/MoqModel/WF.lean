import MoqModel.Preds
/-
  WF: the decidable well-formedness predicates over the *input facts* (never over the model's
  output) that delimit the domain on which the property theorems are stated and on which the
  checks assert the properties of the real moq.  Each clause exists because the unchanged moq
  misbehaves without it (DESIGN.md §7/§8 name the finding behind every clause).
-/
namespace Moq
open Generated

/-- the interfaces the run will mock: (interface name, mock name, object) per argument -/
def requested (inp : Input) : List (Str × Str × Option Obj) :=
  inp.args.map fun np =>
    let (n, mk) := parseInterfaceName np
    (n, mk, (inp.scope.find? (·.1 = n)).map (·.2))

structure ReqIface where
  name : Str
  mockName : Str
  methods : List MethodIn
  generic : Bool
  tparams : List TParamIn
  isTypeName : Bool
deriving Repr, Inhabited

def reqIfaces (inp : Input) : List ReqIface :=
  (requested inp).filterMap fun (n, mk, o) =>
    match o with
    | some (.iface ms g tps tn _) => some ⟨n, mk, ms, g, tps, tn⟩
    | _ => none

def allLookupsOK (inp : Input) : Bool :=
  !inp.args.isEmpty && (requested inp).all fun (_, _, o) =>
    match o with
    | some (.iface _ _ _ true _) => true
    | _ => false

def dstPath (inp : Input) : Str := findPkgPath inp.pkgFlag inp.srcPath inp.probe

def MethodIn.allTys (m : MethodIn) : List Ty := m.ptys ++ m.rtys

/-- every package `AddImport` can be called with during the run, as (stripped path, name),
    once each, the destination package removed -/
def runPkgs (inp : Input) : List (Str × Str) :=
  let fromIfaces := (reqIfaces inp).flatMap fun i =>
    (i.methods.flatMap fun m => m.allTys.flatMap Ty.pkgsOf) ++
    (if i.generic then i.tparams.flatMap (fun t => Ty.pkgsOf t.constraint) else [])
  let sync : List PkgRef :=
    if (reqIfaces inp).any (fun i => !i.methods.isEmpty) then [⟨s%"sync", s%"sync"⟩] else []
  let src : List PkgRef :=
    if inp.srcName ≠ mockPkgName inp ∧ !inp.skip then [⟨inp.srcPath, inp.srcName⟩] else []
  let all := (fromIfaces ++ sync ++ src).map fun p => (stripVendorPath p.path, p.name)
  (all.filter (·.1 ≠ dstPath inp)).eraseDups

def pathDepth (path : Str) : Nat := (Str.splitOnChar '/' path).length - 1

/-- the qualifier a package starts with: its harvested alias or its name -/
def q0 (inp : Input) (p : Str × Str) : Str :=
  let a := aliasOf (harvestAliases inp.fileImports) p.1
  if a ≠ [] then a else p.2

/-- `uniqueName p l` for `l = 0 … maxDepth` -/
def candsOf (maxD : Nat) (path : Str) : List Str := (List.range (maxD + 1)).map (uniqueName path)

/-- all names conflict resolution may hand out, plus the initial qualifiers -/
def allCands (inp : Input) : List Str :=
  let P := runPkgs inp
  let maxD := (P.map (pathDepth ·.1)).foldl max 0
  (P.map (q0 inp) ++ P.flatMap (fun p => candsOf maxD p.1)).eraseDups

/-- clauses A, Q, D of WF.imports -/
def WF.importsCore (inp : Input) : Bool :=
  let P := runPkgs inp
  let maxD := (P.map (pathDepth ·.1)).foldl max 0
  let lv := List.range (maxD + 1)
  -- A: full sanitised paths pairwise distinct
  nodupB (P.map fun p => uniqueName p.1 maxD) &&
  -- Q: a candidate of level ≥ 1 is nobody else's initial qualifier (levels beyond a path's depth
  -- repeat its last candidate: a one-component path such as `sync` has level-0 candidates only)
  (P.all fun p => P.all fun q => p.1 = q.1 ||
    lv.all fun l => l = 0 || l > pathDepth q.1 || uniqueName q.1 l ≠ q0 inp p) &&
  -- D: everything that can become a qualifier is a usable identifier
  (allCands inp).all validName

/-- clauses X and T of WF.imports: static conditions under which conflict resolution is known
    to end with pairwise distinct qualifiers.  The checks use the exact, per-input reflected
    checker `Alloc.importsOK` instead (`WF.dyn`); X and T remain as the documented static
    approximation. -/
def WF.importsSep (inp : Input) : Bool :=
  let P := runPkgs inp
  let maxD := (P.map (pathDepth ·.1)).foldl max 0
  let lv := List.range (maxD + 1)
  -- X: candidates of different packages at different levels differ.  Levels beyond a path's depth
  -- repeat its last candidate and *are* counted: the standard `os`, pushed to level 1 by a nested
  -- conflict, is still `os` there and can meet the level-0 name of `z/os` (an attempt to relax this
  -- was refuted by the fast sweep: two imports called os)
  (P.all fun p => P.all fun q => p.1 = q.1 ||
    lv.all fun l => lv.all fun l' => l = l' || uniqueName p.1 l ≠ uniqueName q.1 l') &&
  -- T: ties are prefix-closed: two packages whose candidates differ at one level differ at every
  -- higher level (F-25: `p/ab/c` and `q/a/bc` differ at level 0 and are both `abc` at level 1;
  -- the pending import is invisible to `searchImport`, so both can be given `abc`)
  (P.all fun p => P.all fun q => p.1 = q.1 ||
    lv.all fun l => uniqueName p.1 (l + 1) ≠ uniqueName q.1 (l + 1) || uniqueName p.1 l = uniqueName q.1 l)

def WF.imports (inp : Input) : Bool := WF.importsCore inp && WF.importsSep inp

/-- `x ∈ V(b)`: `b` followed by any mix of `MoqParam` and decimal digits -/
def inVAux (suffix : Str) : Nat → Str → Bool
  | _, [] => true
  | 0, _ => false
  | fuel + 1, c :: cs =>
    if Str.isDigit c then inVAux suffix fuel cs
    else if Str.hasPrefix (c :: cs) suffix ∧ suffix ≠ [] then inVAux suffix fuel ((c :: cs).drop suffix.length)
    else false

def inV (b x : Str) : Bool :=
  Str.hasPrefix x b && inVAux moqParamSuffix x.length (x.drop b.length)

/-- base name of a variable: the user-written name, else the type-derived default -/
def baseName (name : Str) (t : Ty) (suffix : Str) : Option Str := varName name t suffix

def MethodIn.bases (m : MethodIn) : Option (List Str) :=
  ((m.pnames.zip m.ptys).mapM fun (n, t) => baseName n t []).bind fun ps =>
  ((m.rnames.zip m.rtys).mapM fun (n, t) => baseName n t outSuffix).map fun rs => ps ++ rs

/-- unqualified identifiers the types of a method render to in destination `dst` -/
def unqualIdents (dst : Str) (tys : List Ty) : List Str :=
  (tys.flatMap fun t =>
    tyIdents (fun p => if dst ≠ [] ∧ stripVendorPath p.path = dst then [] else s%"?") t).filter (· ≠ s%"?")

def dupsOf (l : List Str) : List Str := l.filter fun x => (l.filter (· = x)).length > 1

/-- WF.names on one scope (a method, or the type-parameter list of a mock) -/
def scopeNamesOK (cands : List Str) (reservedHere : List Str) (bases : List Str) : Bool :=
  let B := bases.eraseDups
  -- (1) no base name is something the body/signature must still resolve
  (B.all fun b => validName b && !(b ∈ [s%"mock", s%"callInfo", s%"nil", s%"append", s%"panic"]) &&
                  !(b ∈ reservedHere)) &&
  -- (2) different base names are not suffix-variants of each other
  (B.all fun b => B.all fun b' => b = b' || !(inV b b')) &&
  -- (3,4) a qualifier (initial or assignable) may equal a base name, nothing more
  (cands.all fun c => B.all fun b => c = b || !(inV b c)) &&
  -- (5) a base name occurring twice is not a possible qualifier
  ((dupsOf bases).all fun b => !(b ∈ cands)) &&
  -- (6) Exported is injective on the base names and their generated variants
  nodupB (B.map exported) &&
  (B.all fun b => !(Str.upper b ∈ initialisms) || exported b = b || true)

/-- the names conflict resolution can still hand out to a package this method mentions, after
    the method's scope is closed (F-24: nothing renames the method's variables then) -/
def lateQuals (inp : Input) (m : MethodIn) : List Str :=
  (m.allTys.flatMap Ty.pkgsOf).flatMap fun p =>
    let path := stripVendorPath p.path
    ((List.range (pathDepth path + 1)).map (uniqueName path)).filter (· ≠ q0 inp (path, p.name))

def WF.namesGen (late : Bool) (inp : Input) : Bool :=
  let cands := allCands inp
  let dst := dstPath inp
  (reqIfaces inp).all fun i =>
    let tpNames := if i.generic then i.tparams.map (·.name) else []
    (i.methods.all fun m =>
      match m.bases with
      | none => false
      | some bs => scopeNamesOK cands (unqualIdents dst m.allTys ++ tpNames) bs &&
                   -- (8) no base name is a name a later conflict can give to one of this method's
                   -- packages (static over-approximation of F-24; `WF.dyn` uses the exact checker)
                   (!late || bs.all fun b => !(b ∈ lateQuals inp m))) &&
    -- (7) type parameters: not spelled like any possible qualifier, distinct
    (tpNames.all fun t => !(t ∈ cands)) &&
    scopeNamesOK cands [] tpNames

def WF.names (inp : Input) : Bool := WF.namesGen true inp
def WF.namesCore (inp : Input) : Bool := WF.namesGen false inp

/-- WF.generic: `populateImports` sees every package the constraints mention (it has no case
    for unions).  (The clause "type-parameter names survive `Exported`" was dropped with the
    fix of F-04.) -/
def WF.generic (inp : Input) : Bool :=
  (reqIfaces inp).all fun i => !i.generic ||
    i.tparams.all fun t =>
      (Ty.allPkgs t.constraint).all (fun p => p ∈ Ty.pkgsOf t.constraint) &&
      (t.embeds.all fun e => (Ty.allPkgs e).isEmpty)

def isComparable : Ty → Bool
  | .named p o _ _ => p.path = [] && o = s%"comparable"
  | _ => false

mutual
/-- does the type mention a type parameter -/
def mentionsTParam : Ty → Bool
  | .tparam _ => true
  | .named _ _ targs _ => mentionsTParamL targs
  | .alias _ _ targs _ => mentionsTParamL targs
  | .ptr e => mentionsTParam e
  | .slice e => mentionsTParam e
  | .array _ e => mentionsTParam e
  | .map k v => mentionsTParam k || mentionsTParam v
  | .chan _ e => mentionsTParam e
  | .sig _ pt _ rt _ => mentionsTParamL pt || mentionsTParamL rt
  | .struct _ ft _ _ => mentionsTParamL ft
  | .iface _ ms em _ => mentionsTParamL ms || mentionsTParamL em
  | .union _ ts => mentionsTParamL ts
  | .basic _ => false
def mentionsTParamL : List Ty → Bool
  | [] => false
  | t :: ts => mentionsTParam t || mentionsTParamL ts
end

/-- WF.ensure: the representative type argument picked for the self-check line is valid -/
def WF.ensure (inp : Input) : Bool :=
  inp.skip || (reqIfaces inp).all fun i => !i.generic ||
    i.tparams.all fun t =>
      match t.embeds.findSome? (fun e =>
        match e with
        | .basic _ => some true
        | .union _ (.basic _ :: _) => some true
        | .union _ _ => some false
        | _ => none) with
      | some b => b
      | none => t.embeds.isEmpty && !isComparable t.constraint && !mentionsTParam t.constraint

/-- WF.dest: the destination is the source package (no `-pkg`), its external test package,
    or a package with a different name -/
def WF.dest (inp : Input) : Bool :=
  inp.pkgFlag = [] || inp.pkgFlag ≠ inp.srcName

def isExportedName : Str → Bool
  | [] => false
  | c :: _ => 'A' ≤ c ∧ c ≤ 'Z'

mutual
/-- names of types of package `path` that a type mentions -/
def localTypeNames (path : Str) : Ty → List Str
  | .named p o targs _ => (if stripVendorPath p.path = path then [o] else []) ++ localTypeNamesL path targs
  | .alias p o targs _ => (if stripVendorPath p.path = path then [o] else []) ++ localTypeNamesL path targs
  | .ptr e => localTypeNames path e
  | .slice e => localTypeNames path e
  | .array _ e => localTypeNames path e
  | .map k v => localTypeNames path k ++ localTypeNames path v
  | .chan _ e => localTypeNames path e
  | .sig _ pt _ rt _ => localTypeNamesL path pt ++ localTypeNamesL path rt
  | .struct _ ft _ _ => localTypeNamesL path ft
  | .iface _ ms em _ => localTypeNamesL path ms ++ localTypeNamesL path em
  | .union _ ts => localTypeNamesL path ts
  | _ => []
def localTypeNamesL (path : Str) : List Ty → List Str
  | [] => []
  | t :: ts => localTypeNames path t ++ localTypeNamesL path ts
end

/-- WF.base -/
def WF.base (inp : Input) : Bool :=
  let R := reqIfaces inp
  let inPlace := dstPath inp = stripVendorPath inp.srcPath
  allLookupsOK inp &&
  R.all (·.isTypeName) &&
  -- mock names: valid, distinct, and not already a name of the destination package
  nodupB (R.map (·.mockName)) && R.all (fun i => validName i.mockName) &&
  (!inPlace || R.all fun i => !(inp.scope.any (·.1 = i.mockName))) &&
  -- identifiers are ASCII; method names do not collide with derived members
  R.all (fun i =>
    let ms := i.methods.map (·.name)
    i.methods.all (fun m => Str.isAscii m.name && (m.pnames ++ m.rnames).all Str.isAscii) &&
    -- every member the mock struct ends up with (methods, function fields, accessors, resets,
    -- locks, `calls`) is declared once: F-16 is the recorded finding for this class
    nodupB (ms ++ ms.map (· ++ s%"Calls") ++ ms.map (s%"Reset" ++ · ++ s%"Calls") ++ ms.map (· ++ s%"Func") ++
            ms.map (s%"lock" ++ ·) ++ [s%"ResetCalls", s%"calls"])) &&
  -- generated into another package: everything mentioned must be exported
  (inPlace || R.all fun i =>
    isExportedName i.name &&
    i.methods.all (fun m => isExportedName m.name &&
      (m.allTys.flatMap (localTypeNames (stripVendorPath inp.srcPath))).all isExportedName) &&
    (i.tparams.flatMap (fun t => localTypeNames (stripVendorPath inp.srcPath) t.constraint)).all isExportedName) &&
  -- in place: no package-level name of the source equals a qualifier moq may use
  (!inPlace || (allCands inp).all fun c => !(inp.scope.any (·.1 = c))) &&
  -- the receiver `mock` must not capture a qualifier
  !(s%"mock" ∈ allCands inp) &&
  -- a requested mock name is a declaration of the file: it must not be a qualifier the file
  -- imports a package under (F-27: `moq . I:ctx` with package ctx imported)
  R.all (fun i => !(i.mockName ∈ allCands inp))

def WF.all (inp : Input) : Bool :=
  WF.base inp && WF.imports inp && WF.names inp && WF.generic inp && WF.ensure inp && WF.dest inp

/-- the static clauses the reflected checkers do not see; the checks assert the properties of the
    real moq on the inputs satisfying `WF.core` on which the model's own output passes the
    reflected checkers `Alloc.importsOK` and `Alloc.namesOK` (sound: `c12_checker_sound`, …): exact
    where `WF.importsSep` and clause 8 of `WF.names` over-approximate. -/
def WF.core (inp : Input) : Bool :=
  WF.base inp && WF.importsCore inp && WF.namesCore inp && WF.generic inp && WF.ensure inp && WF.dest inp

end Moq
