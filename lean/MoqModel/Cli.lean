import MoqModel.GlueIR
/-
  Cli: an interpreter for the mini-IR of `main.run` over an abstract world (file system,
  standard output, a fault plan), with the library entry points `moq.New` / `Mocker.Mock` as
  parameters.  The program interpreted is the *regenerated* `Generated.runProg`.
-/
namespace Moq.Cli
open Moq Moq.Glue

inductive ErrV
  | notExist
  | msg (s : Str)
deriving DecidableEq, Repr, Inhabited

inductive Node
  | absent
  | file (bytes : Str)
  | dir
deriving DecidableEq, Repr, Inhabited

abbrev FS := Str → Node

/-- user flags of the CLI -/
structure Flags where
  outFile : Str
  pkgName : Str
  formatter : Str
  stubImpl : Bool
  skipEnsure : Bool
  withResets : Bool
  remove : Bool
  args : List Str
deriving Repr, Inhabited

/-- which fallible file-system calls fail, and how -/
structure Faults where
  remove : Option ErrV := none      -- `os.Remove` fails with this error although the file exists
  mkdir : Option ErrV := none
  write : Option ErrV := none       -- `os.WriteFile` cannot open/create the file
deriving Repr, Inhabited

/-- the library, as far as `run` is concerned: loading reads the file system and either fails
    or yields a mocker, which given the interface arguments either fails (having written
    nothing – that is the theorem about `Mocker.Mock`) or yields the complete output text -/
structure Lib where
  new : FS → Str → Flags → Except Str Nat          -- srcDir, config ↦ error | handle
  mock : Nat → List Str → Except Str Str

inductive FsEff
  | remove (p : Str)
  | mkdirAll (p : Str)
  | writeFile (p : Str) (bytes : Str)
  | load (srcDir : Str)
deriving DecidableEq, Repr, Inhabited

structure World where
  fs : FS
  stdout : Str := []
  buf : Str := []
  effects : List FsEff := []

inductive Val
  | str (s : Str)
  | bool (b : Bool)
  | int (n : Nat)
  | err (e : Option ErrV)         -- `none` = nil
  | strs (l : List Str)
  | bytes (b : Str)
  | stdoutW
  | bufW
  | flags
  | cfg (srcDir : Str)
  | mocker (h : Nat)
  | errNotExist
  | unit
deriving DecidableEq, Repr, Inhabited

/-- lexical environment: a stack of scopes, innermost first -/
abbrev Env := List (List (Str × Val))

def lookup : Env → Str → Option Val
  | [], _ => none
  | sc :: rest, n =>
    match sc.find? (·.1 = n) with
    | some (_, v) => some v
    | none => lookup rest n

/-- `n := v` in the innermost scope -/
def define (env : Env) (n : Str) (v : Val) : Env :=
  match env with
  | [] => [[(n, v)]]
  | sc :: rest => ((n, v) :: sc.filter (·.1 ≠ n)) :: rest

/-- `n = v`: the nearest scope that declares `n` -/
def assignVar : Env → Str → Val → Option Env
  | [], _, _ => none
  | sc :: rest, n, v =>
    if sc.any (·.1 = n) then some (((n, v) :: sc.filter (·.1 ≠ n)) :: rest)
    else (assignVar rest n v).map (sc :: ·)

def push (env : Env) : Env := [] :: env
def pop : Env → Env
  | [] => []
  | _ :: rest => rest

/-- `filepath.Dir` on slash-separated paths -/
def dirOf (p : Str) : Str :=
  match (Str.splitOnChar '/' p).reverse with
  | [] => s%"."
  | [_] => s%"."
  | _ :: rest =>
    let d := Str.join s%"/" rest.reverse
    if d = [] then s%"/" else d

/-- is `a` the directory `d` or one of its ancestors -/
def isAncestorOrSelf (a d : Str) : Bool := a = d || Str.hasPrefix d (a ++ s%"/")

def setNode (fs : FS) (p : Str) (n : Node) : FS := fun q => if q = p then n else fs q

structure Ctx where
  flags : Flags
  faults : Faults
  lib : Lib

def flagField (f : Flags) (n : Str) : Option Val :=
  if n = s%"outFile" then some (.str f.outFile)
  else if n = s%"pkgName" then some (.str f.pkgName)
  else if n = s%"formatter" then some (.str f.formatter)
  else if n = s%"stubImpl" then some (.bool f.stubImpl)
  else if n = s%"skipEnsure" then some (.bool f.skipEnsure)
  else if n = s%"withResets" then some (.bool f.withResets)
  else if n = s%"remove" then some (.bool f.remove)
  else if n = s%"args" then some (.strs f.args)
  else none

/-- dotted name of a function expression: `os.Remove`, `m.Mock`, `len` -/
def fnName : GE → Option Str
  | .id n => some n
  | .sel (.id a) f => some (a ++ s%"." ++ f)
  | _ => none

/-- the vocabulary of calls `run` may make -/
def callFn (c : Ctx) (env : Env) (name : Str) (vs : List Val) (w : World) : Option (List Val × World) :=
  if name = s%"len" then
    match vs with
    | [.strs l] => some ([.int l.length], w)
    | _ => none
  else if name = s%"errors.New" then
    match vs with
    | [.str m] => some ([.err (some (.msg m))], w)
    | _ => none
  else if name = s%"errors.Is" then
    match vs with
    | [.err e, .errNotExist] => some ([.bool (e = some .notExist)], w)
    | _ => none
  else if name = s%"filepath.Dir" then
    match vs with
    | [.str p] => some ([.str (dirOf p)], w)
    | _ => none
  else if name = s%"buf.Bytes" then
    match vs with
    | [] => some ([.bytes w.buf], w)
    | _ => none
  else if name = s%"os.Remove" then
    match vs with
    | [.str p] =>
      let w1 := { w with effects := w.effects ++ [.remove p] }
      match c.faults.remove with
      | some e => some ([.err (some e)], w1)     -- e.g. ENOTDIR, EPERM, ENOTEMPTY – whatever is there
      | none =>
        match w.fs p with
        | .absent => some ([.err (some .notExist)], w1)
        | _ => some ([.err none], { w1 with fs := setNode w.fs p .absent })
    | _ => none
  else if name = s%"os.MkdirAll" then
    match vs with
    | [.str d, _] =>
      let w1 := { w with effects := w.effects ++ [.mkdirAll d] }
      match c.faults.mkdir with
      | some e => some ([.err (some e)], w1)
      | none =>
        some ([.err none], { w1 with fs := fun q => if isAncestorOrSelf q d then .dir else w.fs q })
    | _ => none
  else if name = s%"os.WriteFile" then
    match vs with
    | [.str p, .bytes b, _] =>
      let w1 := { w with effects := w.effects ++ [.writeFile p b] }
      match c.faults.write with
      | some e => some ([.err (some e)], w1)
      | none => some ([.err none], { w1 with fs := setNode w.fs p (.file b) })
    | _ => none
  else if name = s%"moq.New" then
    match vs with
    | [.cfg d] =>
      let w1 := { w with effects := w.effects ++ [.load d] }
      match c.lib.new w.fs d c.flags with
      | .error m => some ([.mocker 0, .err (some (.msg m))], w1)
      | .ok h => some ([.mocker h, .err none], w1)
    | _ => none
  else if name = s%"m.Mock" then
    match lookup env s%"m", vs with
    | some (.mocker h), [wr, .strs args] =>
      match c.lib.mock h args with
      | .error m => some ([.err (some (.msg m))], w)
      | .ok text =>
        match wr with
        | .stdoutW => some ([.err none], { w with stdout := w.stdout ++ text })
        | .bufW => some ([.err none], { w with buf := w.buf ++ text })
        | _ => none
    | _, _ => none
  else none

def isEmptyLit : GE → Bool
  | .lit [] => true
  | _ => false

def isId (n : Str) : GE → Bool
  | .id m => m = n
  | _ => false

/-- `x.f` where `x` is a package or the `flags` parameter -/
def selVal (c : Ctx) (env : Env) (e : GE) (f : Str) : Option Val :=
  match e with
  | .id n =>
    if n = s%"os" ∧ f = s%"Stdout" then some .stdoutW
    else if n = s%"os" ∧ f = s%"ErrNotExist" then some .errNotExist
    else match lookup env n with
      | some .flags => flagField c.flags f
      | _ => none
  | _ => none

/-- the `SrcDir:` element of a `moq.Config{…}` literal, when it is a variable -/
def compSrcDir (env : Env) (elts : List (Str × GE)) : Option Str :=
  match elts.find? (·.1 = s%"SrcDir") with
  | some (_, .id n) =>
    match lookup env n with
    | some (.str d) => some d
    | _ => none
  | _ => none

mutual
/-- expressions: value(s) and the world after evaluating them (calls have effects) -/
def evalE (c : Ctx) (env : Env) (w : World) : GE → Option (List Val × World)
  | .id n =>
    if n = s%"nil" then some ([.err none], w)
    else if n = s%"true" then some ([.bool true], w)
    else if n = s%"false" then some ([.bool false], w)
    else (lookup env n).map fun v => ([v], w)
  | .str s => some ([.str s], w)
  | .int n => some ([.int n], w)
  | .lit _ => some ([.unit], w)      -- other literals (file modes) are opaque
  | .sel e f => (selVal c env e f).map fun v => ([v], w)
  | .un op e =>
    if op = s%"&" then
      if isId s%"buf" e then some ([.bufW], w) else none
    else
      (evalE c env w e).bind fun (vs, w1) =>
        match vs with
        | [.bool b] => if op = s%"!" then some ([.bool (!b)], w1) else none
        | _ => none
  | .bin op a b =>
    (evalE c env w a).bind fun (va, w1) =>
    (evalE c env w1 b).bind fun (vb, w2) =>
      match va, vb with
      | [.int x], [.int y] =>
        if op = s%"<" then some ([.bool (x < y)], w2)
        else if op = s%"==" then some ([.bool (x = y)], w2)
        else if op = s%"!=" then some ([.bool (x ≠ y)], w2) else none
      | [.str x], [.str y] =>
        if op = s%"==" then some ([.bool (x = y)], w2)
        else if op = s%"!=" then some ([.bool (x ≠ y)], w2) else none
      | [.bool x], [.bool y] =>
        if op = s%"&&" then some ([.bool (x && y)], w2)
        else if op = s%"||" then some ([.bool (x || y)], w2) else none
      | [.err x], [.err y] =>
        if op = s%"!=" then some ([.bool (x ≠ y)], w2)
        else if op = s%"==" then some ([.bool (x = y)], w2) else none
      | _, _ => none
  | .idx e i =>
    (evalE c env w e).bind fun (ve, w1) =>
    (evalE c env w1 i).bind fun (vi, w2) =>
      match ve, vi with
      | [.strs l], [.int k] => (l[k]?).map fun s => ([.str s], w2)
      | _, _ => none
  | .slice e lo hi =>
    (evalE c env w e).bind fun (ve, w1) =>
    (evalE c env w1 lo).bind fun (vl, w2) =>
      match ve, vl with
      | [.strs l], [.int k] =>
        if isEmptyLit hi then (if k ≤ l.length then some ([.strs (l.drop k)], w2) else none) else none
      | _, _ => none
  | .comp ty elts =>
    if ty = s%"moq.Config" then (compSrcDir env elts).map fun d => ([.cfg d], w) else none
  | .call fn args _ =>
    (fnName fn).bind fun name =>
    (evalArgs c env w args).bind fun (vs, w1) => callFn c env name vs w1
  | .assert _ _ => none

def evalArgs (c : Ctx) (env : Env) (w : World) : List GE → Option (List Val × World)
  | [] => some ([], w)
  | a :: as =>
    (evalE c env w a).bind fun (v, w1) =>
      match v with
      | [x] => (evalArgs c env w1 as).map fun (vs, w2) => (x :: vs, w2)
      | _ => none
end

inductive Flow
  | next (env : Env) (w : World)
  | ret (vals : List Val) (w : World)

def lhsNames : List GE → Option (List Str)
  | [] => some []
  | .id n :: r => (lhsNames r).map (n :: ·)
  | _ => none

/-- `:=` declares at least the new names in the innermost scope (a name already declared in
    that very scope is assigned); `=` assigns -/
def bindAll (isDef : Bool) (env : Env) : List Str → List Val → Option Env
  | [], [] => some env
  | n :: ns, v :: vs =>
    if isDef then bindAll isDef (define env n v) ns vs
    else (assignVar env n v).bind fun e => bindAll isDef e ns vs
  | _, _ => none

/-- right-hand sides: one multi-valued call, or one value per expression -/
def evalRhs (c : Ctx) (env : Env) (w : World) (rhs : List GE) : Option (List Val × World) :=
  match rhs with
  | [e] => evalE c env w e
  | es => evalArgs c env w es

mutual
def execS (c : Ctx) (env : Env) (w : World) : GS → Option Flow
  | .assign isDef lhs rhs =>
    (lhsNames lhs).bind fun ns =>
    (evalRhs c env w rhs).bind fun (vs, w1) =>
    (bindAll isDef env ns vs).map fun env' => .next env' w1
  | .varDecl n ty vals =>
    match vals with
    | [] =>
      -- `var buf bytes.Buffer`: a fresh, empty buffer; any other `var x T`: the zero value, which
      -- the program must overwrite before it uses it (`.unit` answers no operation)
      if ty = s%"bytes.Buffer" then some (.next (define env n .unit) { w with buf := [] })
      else some (.next (define env n .unit) w)
    | [e] => (evalE c env w e).bind fun (vs, w1) =>
        match vs with
        | [v] => some (.next (define env n v) w1)
        | _ => none
    | _ => none
  | .expr e => (evalE c env w e).map fun (_, w1) => .next env w1
  | .ret es => (evalRhs c env w es).map fun (vs, w1) => .ret vs w1
  | .ifs init cond thn els =>
    -- the if statement opens a scope for its init, each branch another one
    (execL c (push env) w init).bind fun fl =>
      match fl with
      | .ret vs w1 => some (.ret vs w1)
      | .next env1 w1 =>
        (evalE c env1 w1 cond).bind fun (vc, w2) =>
          match vc with
          | [.bool true] =>
            (execL c (push env1) w2 thn).map fun r =>
              match r with
              | .next env2 w3 => .next (pop (pop env2)) w3
              | r => r
          | [.bool false] =>
            (execL c (push env1) w2 els).map fun r =>
              match r with
              | .next env2 w3 => .next (pop (pop env2)) w3
              | r => r
          | _ => none
  | .block body =>
    (execL c (push env) w body).map fun r =>
      match r with
      | .next env1 w1 => .next (pop env1) w1
      | r => r
  | _ => none

def execL (c : Ctx) (env : Env) (w : World) : List GS → Option Flow
  | [] => some (.next env w)
  | s :: rest =>
    (execS c env w s).bind fun fl =>
      match fl with
      | .next env1 w1 => execL c env1 w1 rest
      | r => some r
end

/-- the outcome of `main.run(flags)` -/
structure RunResult where
  world : World
  err : Option ErrV

def run (prog : List GS) (c : Ctx) (fs : FS) : Option RunResult :=
  match execL c [[(s%"flags", .flags)]] { fs := fs } prog with
  | some (.ret [.err e] w) => some ⟨w, e⟩
  | _ => none

end Moq.Cli
