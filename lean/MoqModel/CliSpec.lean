import MoqModel.Cli
import MoqModel.Generated.Glue
/-
  CliSpec: a closed functional form of `main.run`, and the theorem that interpreting the
  *regenerated* program `Generated.runProg` yields exactly it, for every flag value, file
  system, fault plan and library behaviour.  The property theorems (C15, C17, C18) are proved
  about the closed form; `run_eq_spec` is re-checked against the current source on every run.
-/
namespace Moq.Cli
open Moq

def eff (w : World) (e : FsEff) : World := { w with effects := w.effects ++ [e] }

def srcDirOf (c : Ctx) : Str := c.flags.args.getD 0 []
def restArgs (c : Ctx) : List Str := c.flags.args.drop 1

/-- the world once the source package has been loaded (the buffer `buf` is fresh) -/
def loaded (c : Ctx) (w : World) : World := eff { w with buf := [] } (.load (srcDirOf c))

def mkdirW (c : Ctx) (w : World) (text : Str) : World :=
  eff { loaded c w with buf := text } (.mkdirAll (dirOf c.flags.outFile))

def writeW (c : Ctx) (w : World) (text : Str) : World :=
  eff { mkdirW c w text with
        fs := fun q => if isAncestorOrSelf q (dirOf c.flags.outFile) then .dir else w.fs q }
      (.writeFile c.flags.outFile text)

/-- with `-out`: create the directories, then write the file -/
def writeStage (c : Ctx) (w : World) (text : Str) : RunResult :=
  match c.faults.mkdir with
  | some e => ⟨mkdirW c w text, some e⟩
  | none =>
    match c.faults.write with
    | some e => ⟨writeW c w text, some e⟩
    | none => ⟨{ writeW c w text with fs := setNode (writeW c w text).fs c.flags.outFile (.file text) }, none⟩

/-- the part of `run` after the optional removal -/
def afterRemove (c : Ctx) (w : World) : RunResult :=
  match c.lib.new w.fs (srcDirOf c) c.flags with
  | .error m => ⟨loaded c w, some (.msg m)⟩
  | .ok h =>
    match c.lib.mock h (restArgs c) with
    | .error m => ⟨loaded c w, some (.msg m)⟩
    | .ok text =>
      if c.flags.outFile = [] then ⟨{ loaded c w with stdout := w.stdout ++ text }, none⟩
      else writeStage c w text

def runSpec (c : Ctx) (fs : FS) : RunResult :=
  let f := c.flags
  let w0 : World := { fs := fs }
  if f.args.length < 2 then ⟨w0, some (.msg s%"not enough arguments")⟩
  else if f.remove && f.outFile ≠ [] then
    let w1 := eff w0 (.remove f.outFile)
    match c.faults.remove with
    | some .notExist => afterRemove c w1
    | some e => ⟨w1, some e⟩
    | none =>
      match fs f.outFile with
      | .absent => afterRemove c w1
      | _ => afterRemove c { w1 with fs := setNode fs f.outFile .absent }
  else afterRemove c w0

end Moq.Cli

namespace Moq.Cli
open Moq Moq.Glue

theorem execL_append (c : Ctx) (p1 p2 : List GS) (env : Env) (w : World) :
    execL c env w (p1 ++ p2) =
      (execL c env w p1).bind fun fl =>
        match fl with
        | .next env1 w1 => execL c env1 w1 p2
        | r => some r := by
  induction p1 generalizing env w with
  | nil => simp [execL]
  | cons s rest ih =>
    simp only [List.cons_append, execL]
    cases h : execS c env w s with
    | none => simp
    | some fl =>
      cases fl with
      | next env1 w1 => simp [ih]
      | ret vs w1 => simp

/-- the first two statements of `run`: argument check and optional removal -/
def phaseA : List GS := Generated.runProg.take 2
/-- the rest: load, mock, and (with `-out`) create directories and write the file -/
def phaseB : List GS := Generated.runProg.drop 2

theorem prog_split : Generated.runProg = phaseA ++ phaseB := by
  simp [phaseA, phaseB]

def env0 : Env := [[(s%"flags", .flags)]]

def phaseASpec (c : Ctx) (fs : FS) : Flow :=
  let f := c.flags
  let w0 : World := { fs := fs }
  if f.args.length < 2 then .ret [.err (some (.msg s%"not enough arguments"))] w0
  else if f.remove && f.outFile ≠ [] then
    let w1 := eff w0 (.remove f.outFile)
    match c.faults.remove with
    | some .notExist => .next env0 w1
    | some e => .ret [.err (some e)] w1
    | none =>
      match fs f.outFile with
      | .absent => .next env0 w1
      | _ => .next env0 { w1 with fs := setNode fs f.outFile .absent }
  else .next env0 w0

set_option maxRecDepth 8000 in
set_option maxHeartbeats 1600000 in
theorem phaseA_spec (c : Ctx) (fs : FS) :
    execL c env0 { fs := fs } phaseA = some (phaseASpec c fs) := by
  rcases c with ⟨f, faults, lib⟩
  rcases f with ⟨outFile, pkgName, formatter, stub, skip, resets, remove, args⟩
  by_cases hl : args.length < 2
  · simp [phaseA, Generated.runProg, execL, execS, evalE, evalArgs, evalRhs, lookup, push, pop, callFn,
      fnName, selVal, flagField, env0, phaseASpec, hl]
  · cases remove
    · simp [phaseA, Generated.runProg, execL, execS, evalE, evalArgs, evalRhs, lookup, push, pop, callFn,
        fnName, selVal, flagField, env0, phaseASpec, hl]
    · by_cases ho : outFile = []
      · simp [phaseA, Generated.runProg, execL, execS, evalE, evalArgs, evalRhs, lookup, push, pop, callFn,
          fnName, selVal, flagField, env0, phaseASpec, hl, ho]
      · rcases faults with ⟨fr, fm, fw⟩
        cases fr with
        | some e =>
          have hfs : True := trivial
          cases e with
          | notExist => simp [phaseA, Generated.runProg, execL, execS, evalE, evalArgs, evalRhs, lookup, push, pop, callFn,
              fnName, selVal, flagField, env0, phaseASpec, hl, ho, lhsNames, bindAll, define, eff, hfs]
          | msg m => simp [phaseA, Generated.runProg, execL, execS, evalE, evalArgs, evalRhs, lookup, push, pop, callFn,
              fnName, selVal, flagField, env0, phaseASpec, hl, ho, lhsNames, bindAll, define, eff, hfs]
        | none =>
          cases hfs : fs outFile with
          | absent => simp [phaseA, Generated.runProg, execL, execS, evalE, evalArgs, evalRhs, lookup, push, pop, callFn,
              fnName, selVal, flagField, env0, phaseASpec, hl, ho, lhsNames, bindAll, define, eff, hfs]
          | file bytes => simp [phaseA, Generated.runProg, execL, execS, evalE, evalArgs, evalRhs, lookup, push, pop, callFn,
              fnName, selVal, flagField, env0, phaseASpec, hl, ho, lhsNames, bindAll, define, eff, hfs]
          | dir => simp [phaseA, Generated.runProg, execL, execS, evalE, evalArgs, evalRhs, lookup, push, pop, callFn,
              fnName, selVal, flagField, env0, phaseASpec, hl, ho, lhsNames, bindAll, define, eff, hfs]

set_option maxRecDepth 8000 in
set_option maxHeartbeats 3200000 in
theorem phaseB_spec (c : Ctx) (w : World) (hl : ¬ c.flags.args.length < 2) :
    execL c env0 w phaseB = some (.ret [.err (afterRemove c w).err] (afterRemove c w).world) := by
  rcases c with ⟨f, faults, lib⟩
  rcases f with ⟨outFile, pkgName, formatter, stub, skip, resets, remove, args⟩
  rcases faults with ⟨fr, fm, fw⟩
  match args, hl with
  | [], hl => simp at hl
  | [a], hl => simp at hl
  | a :: b :: rest, _ =>
    by_cases ho : outFile = []
    · subst ho
      have ho : True := trivial
      cases hn : lib.new w.fs a ⟨[], pkgName, formatter, stub, skip, resets, remove, a :: b :: rest⟩ with
      | error m =>
        have hm : True := trivial
        simp [phaseB, Generated.runProg, execL, execS, evalE, evalArgs, evalRhs, lookup, push, pop, callFn,
          fnName, selVal, flagField, env0, lhsNames, bindAll, define, assignVar, eff, isId, isEmptyLit, compSrcDir,
          afterRemove, writeStage, writeW, mkdirW, loaded, srcDirOf, restArgs, hn, hm, ho]
      | ok h =>
        cases hm : lib.mock h (b :: rest) with
        | error m => simp [phaseB, Generated.runProg, execL, execS, evalE, evalArgs, evalRhs, lookup, push, pop, callFn,
          fnName, selVal, flagField, env0, lhsNames, bindAll, define, assignVar, eff, isId, isEmptyLit, compSrcDir,
          afterRemove, writeStage, writeW, mkdirW, loaded, srcDirOf, restArgs, hn, hm, ho]
        | ok text => simp [phaseB, Generated.runProg, execL, execS, evalE, evalArgs, evalRhs, lookup, push, pop, callFn,
          fnName, selVal, flagField, env0, lhsNames, bindAll, define, assignVar, eff, isId, isEmptyLit, compSrcDir,
          afterRemove, writeStage, writeW, mkdirW, loaded, srcDirOf, restArgs, hn, hm, ho]
    · cases hn : lib.new w.fs a ⟨outFile, pkgName, formatter, stub, skip, resets, remove, a :: b :: rest⟩ with
      | error m =>
        have hm : True := trivial
        simp [phaseB, Generated.runProg, execL, execS, evalE, evalArgs, evalRhs, lookup, push, pop, callFn,
          fnName, selVal, flagField, env0, lhsNames, bindAll, define, assignVar, eff, isId, isEmptyLit, compSrcDir,
          afterRemove, writeStage, writeW, mkdirW, loaded, srcDirOf, restArgs, hn, hm, ho]
      | ok h =>
        cases hm : lib.mock h (b :: rest) with
        | error m => simp [phaseB, Generated.runProg, execL, execS, evalE, evalArgs, evalRhs, lookup, push, pop, callFn,
          fnName, selVal, flagField, env0, lhsNames, bindAll, define, assignVar, eff, isId, isEmptyLit, compSrcDir,
          afterRemove, writeStage, writeW, mkdirW, loaded, srcDirOf, restArgs, hn, hm, ho]
        | ok text =>
          cases fm with
          | some e => simp [phaseB, Generated.runProg, execL, execS, evalE, evalArgs, evalRhs, lookup, push, pop, callFn,
          fnName, selVal, flagField, env0, lhsNames, bindAll, define, assignVar, eff, isId, isEmptyLit, compSrcDir,
          afterRemove, writeStage, writeW, mkdirW, loaded, srcDirOf, restArgs, hn, hm, ho]
          | none =>
            cases fw with
            | some e => simp [phaseB, Generated.runProg, execL, execS, evalE, evalArgs, evalRhs, lookup, push, pop, callFn,
          fnName, selVal, flagField, env0, lhsNames, bindAll, define, assignVar, eff, isId, isEmptyLit, compSrcDir,
          afterRemove, writeStage, writeW, mkdirW, loaded, srcDirOf, restArgs, hn, hm, ho]
            | none => simp [phaseB, Generated.runProg, execL, execS, evalE, evalArgs, evalRhs, lookup, push, pop, callFn,
          fnName, selVal, flagField, env0, lhsNames, bindAll, define, assignVar, eff, isId, isEmptyLit, compSrcDir,
          afterRemove, writeStage, writeW, mkdirW, loaded, srcDirOf, restArgs, hn, hm, ho]

/-- **the regenerated `main.run` is the closed form `runSpec`**, for every flag value, file
    system, fault plan and library behaviour -/
theorem run_eq_spec (c : Ctx) (fs : FS) : run Generated.runProg c fs = some (runSpec c fs) := by
  unfold run
  have hA := phaseA_spec c fs
  rw [prog_split, show ([[(s%"flags", Val.flags)]] : Env) = env0 from rfl, execL_append, hA]
  unfold phaseASpec runSpec
  simp only [Option.bind_some]
  by_cases hl : c.flags.args.length < 2
  · simp [hl]
  · simp only [hl, if_false]
    by_cases hr : (c.flags.remove && decide (c.flags.outFile ≠ [])) = true
    · simp only [hr, if_true]
      cases hf : c.faults.remove with
      | some e =>
        cases e with
        | notExist => simp [phaseB_spec c _ hl]
        | msg m => simp
      | none =>
        cases hfs : fs c.flags.outFile with
        | absent => simp [phaseB_spec c _ hl]
        | file b => simp [phaseB_spec c _ hl]
        | dir => simp [phaseB_spec c _ hl]
    · simp only [hr]
      simp [phaseB_spec c _ hl]

end Moq.Cli
