/-
  Str: Go strings as lists of characters.

  moq only ever slices, concatenates, splits and compares strings.  Modelling them as
  `List Char` keeps every such operation a structurally recursive function with the usual
  `List` lemmas.  Go strings are byte sequences; for ASCII text (which the well-formedness
  predicates require of identifiers and import paths) bytes and characters coincide, and the
  byte-wise order of UTF-8 equals code-point order, so `Str.lt` is Go's `<` on strings.
-/
namespace Moq

abbrev Str := List Char

open Lean in
/-- `s%"abc"` is the character list `['a','b','c']`. -/
macro:max "s%" s:str : term => do
  let cs := s.getString.toList
  let elems := cs.map (fun c => Syntax.mkCharLit c)
  `(([ $[$(elems.toArray)],* ] : List Char))

namespace Str

def ofString (s : String) : Str := s.toList
def toString (s : Str) : String := String.ofList s

/-- ASCII `strings.ToLower` on one byte. -/
def lowerC (c : Char) : Char :=
  if 'A' ≤ c ∧ c ≤ 'Z' then Char.ofNat (c.toNat + 32) else c

/-- ASCII `strings.ToUpper` on one byte. -/
def upperC (c : Char) : Char :=
  if 'a' ≤ c ∧ c ≤ 'z' then Char.ofNat (c.toNat - 32) else c

def lower (s : Str) : Str := s.map lowerC
def upper (s : Str) : Str := s.map upperC

def isAscii (s : Str) : Bool := s.all (fun c => c.toNat < 128)

def isLetter (c : Char) : Bool :=
  ('a' ≤ c ∧ c ≤ 'z') ∨ ('A' ≤ c ∧ c ≤ 'Z') ∨ c = '_'
def isDigit (c : Char) : Bool := '0' ≤ c ∧ c ≤ '9'

/-- An ASCII Go identifier (letter or `_`, then letters, digits, `_`). -/
def isIdent : Str → Bool
  | [] => false
  | c :: cs => isLetter c && cs.all (fun d => isLetter d || isDigit d)

/-- Split on a single separator character (`strings.Split(s, "/")`). Never returns `[]`. -/
def splitOnChar (sep : Char) : Str → List Str
  | [] => [[]]
  | c :: cs =>
    if c = sep then [] :: splitOnChar sep cs
    else match splitOnChar sep cs with
      | [] => [[c]]          -- unreachable: the result is never empty
      | p :: ps => (c :: p) :: ps

/-- `strings.HasPrefix`. -/
def hasPrefix : Str → Str → Bool
  | _, [] => true
  | [], _ :: _ => false
  | c :: cs, p :: ps => c = p && hasPrefix cs ps

/-- Split on a non-empty separator string (`strings.Split(s, sep)`), leftmost, non-overlapping.
    Fuel-indexed so that the definition is structural; `splitOnStr` supplies enough fuel. -/
def splitOnStrAux (sep : Str) : Nat → Str → List Str
  | _, [] => [[]]
  | 0, s => [s]
  | fuel + 1, c :: cs =>
    if sep ≠ [] ∧ hasPrefix (c :: cs) sep then
      [] :: splitOnStrAux sep fuel ((c :: cs).drop sep.length)
    else match splitOnStrAux sep fuel cs with
      | [] => [[c]]
      | p :: ps => (c :: p) :: ps

def splitOnStr (sep : Str) (s : Str) : List Str := splitOnStrAux sep s.length s

def join (sep : Str) : List Str → Str
  | [] => []
  | [x] => x
  | x :: xs => x ++ sep ++ join sep xs

/-- Lexicographic `<` by code point (= Go's bytewise `<` on UTF-8 strings). -/
def lt : Str → Str → Bool
  | [], [] => false
  | [], _ :: _ => true
  | _ :: _, [] => false
  | a :: as, b :: bs => a.toNat < b.toNat || (a = b && lt as bs)

def le (a b : Str) : Bool := !lt b a

/-- `strings.TrimLeft(s, "/")` for a single cut character. -/
def trimLeftChar (c : Char) : Str → Str
  | [] => []
  | d :: ds => if d = c then trimLeftChar c ds else d :: ds

/-- decimal rendering, `strconv.Itoa` for naturals -/
def ofNat (n : Nat) : Str := (Nat.repr n).toList

end Str

/-- Insertion sort by a strict order given as a Boolean `lt`; stable. -/
def insertBy {α} (lt : α → α → Bool) (x : α) : List α → List α
  | [] => [x]
  | y :: ys => if lt x y then x :: y :: ys else y :: insertBy lt x ys

def sortBy {α} (lt : α → α → Bool) : List α → List α
  | [] => []
  | x :: xs => insertBy lt x (sortBy lt xs)

end Moq
