import MoqModel.GlueIR
/-
  GlueFacts: syntactic analyses over the mini-IR, used to state facts about the regenerated
  glue (`Mocker.Mock`, `Mocker.format`, error constructors) that are decided by `decide`.
-/
namespace Moq.Glue
open Moq

/-- dotted name of a function expression: `w.Write`, `m.tmpl.Execute`, `len` -/
def dotted : GE → Option Str
  | .id n => some n
  | .sel e f => (dotted e).map (· ++ s%"." ++ f)
  | _ => none

mutual
/-- names of all functions called inside an expression, evaluation order (arguments first) -/
def callsE : GE → List Str
  | .call fn args _ => callsL args ++ [(dotted fn).getD s%"?"]
  | .sel e _ => callsE e
  | .un _ e => callsE e
  | .bin _ a b => callsE a ++ callsE b
  | .idx e i => callsE e ++ callsE i
  | .slice e lo hi => callsE e ++ callsE lo ++ callsE hi
  | .comp _ elts => callsP elts
  | .assert e _ => callsE e
  | _ => []
def callsL : List GE → List Str
  | [] => []
  | e :: es => callsE e ++ callsL es
def callsP : List (Str × GE) → List Str
  | [] => []
  | (_, e) :: es => callsE e ++ callsP es
end

/-- what can happen along one path through a function -/
inductive PEv
  | call (name : Str)
  | retNil            -- `return nil` / `return x, nil` (last value is the literal nil)
  | retOther
deriving DecidableEq, Repr

def isNilLit : GE → Bool
  | .id n => n = s%"nil"
  | _ => false

abbrev Path := List PEv × Bool     -- events, and whether the path has returned

/-- continue every open path with the alternatives of the next statement -/
def extend (ps : List Path) (alts : List Path) : List Path :=
  ps.flatMap fun (evs, done) =>
    if done then [(evs, true)] else alts.map fun (e2, d2) => (evs ++ e2, d2)

mutual
/-- all control-flow paths (conditions ignored; a loop body is taken zero times or once) -/
def pathsS : GS → List Path
  | .assign _ _ rhs => [((callsL rhs).map .call, false)]
  | .opAssign _ _ rhs => [((callsL rhs).map .call, false)]
  | .expr e => [((callsE e).map .call, false)]
  | .ret es =>
    [((callsL es).map .call ++ [if (es.getLast?.map isNilLit).getD false then .retNil else .retOther], true)]
  | .ifs init cond thn els =>
    let pre := extend (pathsL init) [((callsE cond).map .call, false)]
    extend pre (pathsL thn ++ pathsL els)
  | .forRange _ _ x body => extend [((callsE x).map .call, false)] (([], false) :: pathsL body)
  | .forLoop init cond post body =>
    extend (extend (pathsL init) [((callsE cond).map .call, false)]) (([], false) :: extend (pathsL body) (pathsL post))
  | .varDecl _ _ vals => [((callsL vals).map .call, false)]
  | .switch tag cases => extend [((callsE tag).map .call, false)] (([], false) :: pathsC cases)
  | .block body => pathsL body
  | .deferS e => [((callsE e).map .call, false)]
  | .goS e => [((callsE e).map .call, false)]
  | .branch _ => [([], false)]
  | .opaque _ => [([.call s%"?"], false)]
def pathsL : List GS → List Path
  | [] => [([], false)]
  | s :: rest => extend (pathsS s) (pathsL rest)
def pathsC : List (List GE × List GS) → List Path
  | [] => []
  | (_, body) :: cs => pathsL body ++ pathsC cs
end

def countCall (name : Str) (p : Path) : Nat := (p.1.filter (· = .call name)).length

/-- every path performs the call at most once; returns `nil` only after performing it exactly
    once as its last call; and, having performed it, nothing else is called -/
def onceAndLast (name : Str) (ps : List Path) : Bool :=
  ps.all fun p =>
    countCall name p ≤ 1 &&
    (!(p.1.getLast? = some .retNil) || countCall name p = 1) &&
    (countCall name p = 0 ||
      ((p.1.dropWhile (· ≠ .call name)).drop 1).all fun e => match e with | .call _ => false | _ => true)

/-- in every path, the first call of `a` (if any) comes before the first call of `b` -/
def before (a b : Str) (ps : List Path) : Bool :=
  ps.all fun p => countCall b p = 0 || (p.1.takeWhile (· ≠ .call b)).contains (.call a)

/-- in no path is `a` called after `b` has been called -/
def notAfter (a b : Str) (ps : List Path) : Bool :=
  ps.all fun p => !((p.1.dropWhile (· ≠ .call b)).contains (.call a))

mutual
def loopCallsS : GS → List Str
  | .forRange _ _ _ body => (pathsL body).flatMap fun p => p.1.filterMap fun e => match e with | .call n => some n | _ => none
  | .forLoop _ _ _ body => (pathsL body).flatMap fun p => p.1.filterMap fun e => match e with | .call n => some n | _ => none
  | .ifs i _ t e => loopCallsL i ++ loopCallsL t ++ loopCallsL e
  | .block b => loopCallsL b
  | .switch _ cs => loopCallsC cs
  | _ => []
def loopCallsL : List GS → List Str
  | [] => []
  | s :: r => loopCallsS s ++ loopCallsL r
def loopCallsC : List (List GE × List GS) → List Str
  | [] => []
  | (_, b) :: cs => loopCallsL b ++ loopCallsC cs
end

mutual
/-- string literals occurring in a function, in order -/
def strsE : GE → List Str
  | .str s => [s]
  | .call fn args _ => strsE fn ++ strsEL args
  | .sel e _ => strsE e
  | .un _ e => strsE e
  | .bin _ a b => strsE a ++ strsE b
  | .idx e i => strsE e ++ strsE i
  | .slice e lo hi => strsE e ++ strsE lo ++ strsE hi
  | .comp _ elts => strsEP elts
  | .assert e _ => strsE e
  | _ => []
def strsEL : List GE → List Str
  | [] => []
  | e :: es => strsE e ++ strsEL es
def strsEP : List (Str × GE) → List Str
  | [] => []
  | (_, e) :: es => strsE e ++ strsEP es
end

mutual
def strsS : GS → List Str
  | .assign _ l r => strsEL l ++ strsEL r
  | .opAssign _ l r => strsEL l ++ strsEL r
  | .expr e => strsE e
  | .ret es => strsEL es
  | .ifs i c t e => strsL i ++ strsE c ++ strsL t ++ strsL e
  | .forRange _ _ x b => strsE x ++ strsL b
  | .forLoop i c p b => strsL i ++ strsE c ++ strsL p ++ strsL b
  | .varDecl _ _ v => strsEL v
  | .switch t cs => strsE t ++ strsC cs
  | .block b => strsL b
  | .deferS e => strsE e
  | .goS e => strsE e
  | _ => []
def strsL : List GS → List Str
  | [] => []
  | s :: r => strsS s ++ strsL r
def strsC : List (List GE × List GS) → List Str
  | [] => []
  | (es, b) :: cs => strsEL es ++ strsL b ++ strsC cs
end

def strLits : List GE → List Str
  | [] => []
  | .str s :: r => s :: strLits r
  | _ :: r => strLits r

def callNames (ps : List Path) : List Str :=
  ps.flatMap fun p => p.1.filterMap fun e => match e with | .call n => some n | _ => none

/-- for the first `switch` of a function: per case its string labels and the functions its body
    calls, then (labels `[]`) the functions called after the switch, i.e. by default -/
def switchTable : List GS → List (List Str × List Str)
  | [] => []
  | .switch _ cases :: rest =>
    cases.map (fun (ls, body) => (strLits ls, callNames (pathsL body))) ++ [([], callNames (pathsL rest))]
  | _ :: rest => switchTable rest

end Moq.Glue
