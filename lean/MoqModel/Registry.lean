import MoqModel.Names
/-
  Registry: internal/registry/registry.go – the import table shared by all mocks of one run.

  * Go's `map[string]*Package` is an association list in insertion order; the three places
    where moq *ranges* over a map take the iteration order from an explicit oracle `Ord`
    (Go randomises it), so that order-independence is a theorem (C14), not an assumption.
  * `resolveImportConflict` can recurse for ever in Go (fatal stack overflow).  Here it takes
    fuel and returns `none` when the fuel runs out.
  * `*Package` pointers shared between the registry and variables become look-ups by
    (vendor-stripped) path – exactly the aliasing the Go code has.
-/
namespace Moq

structure Pkg where
  path : Str      -- vendor-stripped import path (the map key, and `Package.Path()`)
  name : Str      -- declared package name
  alias : Str     -- `""` = none
deriving DecidableEq, Repr, Inhabited

/-- package.go `Qualifier`. -/
def Pkg.qualifier (p : Pkg) : Str := if p.alias ≠ [] then p.alias else p.name

/-- Iteration-order oracle for Go's randomised `range` over maps. -/
structure Ord where
  pk : List Pkg → List Pkg
  st : List Str → List Str

def Ord.id : Ord := ⟨fun l => l, fun l => l⟩
def Ord.rev : Ord := ⟨List.reverse, List.reverse⟩

structure Registry where
  srcName : Str
  srcPath : Str                 -- as reported by go/packages (unstripped)
  moqPkgPath : Str              -- `""` = unknown destination
  aliases : List (Str × Str)    -- harvested from the source files, in harvest order
  imports : List Pkg            -- insertion order
deriving Repr, Inhabited

/-- `r.aliases[path]`: later files overwrite earlier ones, a miss is `""`. -/
def aliasOf (aliases : List (Str × Str)) (path : Str) : Str :=
  match aliases.reverse.find? (·.1 = path) with
  | some (_, a) => a
  | none => []

/-- `searchImport` over the entries in the order the map iteration visits them. -/
def searchIn (l : List Pkg) (name : Str) : Option Pkg := l.find? (·.qualifier = name)

def Registry.lookup (r : Registry) (path : Str) : Option Pkg := r.imports.find? (·.path = path)

/-- qualifier a `Var` obtains for `path` through its `imports` map: the *current* qualifier of
    the shared `*Package`, `""` for a nil entry. -/
def Registry.qualOf (r : Registry) (path : Str) : Str :=
  match r.lookup path with
  | some p => p.qualifier
  | none => []

/-- State of one `AddImport` call while conflicts are resolved: the new package (`pend`) and
    the others.  Since the fix of F-25 the new package is registered *before* its conflict is
    resolved, so `searchImport` ranges over it as well (`RS.all`); it is kept apart here because it
    is the last entry of the registry once `AddImport` returns. -/
structure RS where
  pend : Pkg
  imps : List Pkg
deriving Repr

def setAliasIn (path al : Str) : List Pkg → List Pkg
  | [] => []
  | p :: ps => if p.path = path then { p with alias := al } :: ps else p :: setAliasIn path al ps

/-- what `searchImport` ranges over during conflict resolution: every registered import, the
    one being added included -/
def RS.all (s : RS) : List Pkg := s.imps ++ [s.pend]

def RS.setAlias (s : RS) (path al : Str) : RS :=
  if s.pend.path = path then { s with pend := { s.pend with alias := al } }
  else { s with imps := setAliasIn path al s.imps }

/-- one iteration of the `for _, p := range []*Package{a, b}` loop of
    `resolveImportConflict`: the wanted name is free (or taken by `p` itself, or – for `a` –
    only by `b`, which the same loop renames next: `skip`) ⇒ assign it; taken by another
    package ⇒ resolve that conflict one level deeper (`deeper`) -/
def resolveStep (o : Ord) (deeper : RS → Str → Str → Option RS) (lvl : Nat) (skip : Option Str)
    (s : RS) (p : Str) : Option RS :=
  match searchIn (o.pk s.all) (uniqueName p lvl) with
  | some c =>
    if c.path = p ∨ skip = some c.path then some (s.setAlias p (uniqueName p lvl)) else deeper s p c.path
  | none => some (s.setAlias p (uniqueName p lvl))

/-- registry.go `resolveImportConflict(a, b, lvl)`; packages are named by path.
    `none` = out of fuel = the Go code does not return. -/
def resolve (o : Ord) : Nat → RS → Str → Str → Nat → Option RS
  | 0, _, _, _, _ => none
  | fuel + 1, s, a, b, lvl =>
    if uniqueName a lvl = uniqueName b lvl then resolve o fuel s a b (lvl + 1)
    else
      (resolveStep o (fun s p q => resolve o fuel s p q (lvl + 1)) lvl (some b) s a).bind fun s1 =>
        resolveStep o (fun s p q => resolve o fuel s p q (lvl + 1)) lvl none s1 b

/-- registry.go `AddImport`.  Result: new registry and the stripped path when the returned
    `*Package` is non-nil. -/
def addImport (o : Ord) (fuel : Nat) (r : Registry) (p : PkgRef) : Option (Registry × Option Str) :=
  let path := stripVendorPath p.path
  if path = r.moqPkgPath then some (r, none)
  else match r.lookup path with
    | some _ => some (r, some path)
    | none =>
      let imprt : Pkg := { path := path, name := p.name, alias := aliasOf r.aliases path }
      match searchIn (o.pk r.imports) imprt.qualifier with
      | some c =>
        (resolve o fuel ⟨imprt, r.imports⟩ path c.path 0).map fun s =>
          ({ r with imports := s.imps ++ [s.pend] }, some path)
      | none => some ({ r with imports := r.imports ++ [imprt] }, some path)

/-- registry.go `Imports`: sorted by path. -/
def Registry.sortedImports (r : Registry) : List Pkg :=
  sortBy (fun a b => Str.lt a.path b.path) r.imports

/-- registry.go `findPkgPath`/`pkgInDir`.  `probe` is the name of the package
    `packages.Load` finds in directory `pkgFlag` (relative to the working directory), if any.
    Both probes load the *same* directory and compare the package *name* found there with an
    import *path* – modelled as written. -/
def findPkgPath (pkgFlag srcPath : Str) (probe : Option Str) : Str :=
  if pkgFlag = [] then srcPath
  else
    let inDir (want : Str) : Bool :=
      match probe with
      | some n => n = want || n ++ s%"_test" = want
      | none => false
    if inDir srcPath then srcPath
    else
      let sub := pathJoin [srcPath, pkgFlag]   -- filepath.Join
      if inDir sub then sub else []

end Moq
