import MoqModel.Tmpl
import MoqModel.Generated.Template
/-
  Render: template data → `Val`, and the unformatted (`-fmt noop`) output text, obtained by
  running the interpreter on the *regenerated* parse tree of `moqTemplate`.
-/
namespace Moq
open Tmpl

def strV (s : Str) : Val := .str s

def ParamD.toVal (p : ParamD) : Val :=
  .obj [(s%"Name", strV p.name), (s%"TypeString", strV p.typeStr), (s%"Variadic", .bool p.variadic),
        (s%"CallName", strV p.callName)]

def MethodD.toVal (m : MethodD) : Option Val :=
  m.argList.map fun al =>
  .obj [(s%"Name", strV m.name),
        (s%"Params", .list (m.params.map ParamD.toVal)),
        (s%"Returns", .list (m.returns.map ParamD.toVal)),
        (s%"ArgList", strV al),
        (s%"ArgCallList", strV m.argCallList),
        (s%"ReturnArgTypeList", strV m.returnArgTypeList),
        (s%"ReturnArgNameList", strV m.returnArgNameList)]

def TParamD.toVal (t : TParamD) : Val :=
  .obj [(s%"Name", strV t.name), (s%"TypeString", strV t.typeStr),
        (s%"Constraint", match t.constraint with
                          | some c => .obj [(s%"String", strV c)]
                          | none => .nil)]

def MockD.toVal (m : MockD) : Option Val :=
  (m.methods.mapM MethodD.toVal).map fun ms =>
  .obj [(s%"InterfaceName", strV m.ifaceName), (s%"MockName", strV m.mockName),
        (s%"TypeParams", .list (m.tparams.map TParamD.toVal)),
        (s%"Methods", .list ms)]

def ImportD.toVal (i : ImportD) : Val :=
  .obj [(s%"Path", strV i.path), (s%"Alias", strV i.alias), (s%"Qualifier", strV i.qualifier)]

def Data.toVal (d : Data) : Option Val :=
  (d.mocks.mapM MockD.toVal).map fun ms =>
  .obj [(s%"PkgName", strV d.pkgName), (s%"SrcPkgQualifier", strV d.srcPkgQualifier),
        (s%"Imports", .list (d.imports.map ImportD.toVal)),
        (s%"Mocks", .list ms),
        (s%"StubImpl", .bool d.stub), (s%"SkipEnsure", .bool d.skip), (s%"WithResets", .bool d.resets)]

/-- `Template.Execute`: `none` = a Go panic inside a data method (`MethodArg`'s `[2:]`) or a
    construct outside the interpreted subset. -/
def renderNoop (d : Data) : Option Str :=
  d.toVal.bind fun v => execList [(s%"$", v)] v Generated.moqTemplate

end Moq
