import MoqModel.Str
/-
  GoTypes: the fragment of `go/types` that moq looks at.

  `Ty` is the tree moq walks in `populateImports`, `varNameForType` and (through
  `types.TypeString`) when it renders a parameter type.  `typeString` mirrors
  `go/types/typestring.go` of the Go release moq is built with; `pkgsOf` mirrors
  `MethodScope.populateImports` *including its omissions* (no case for unions, type parameters,
  basic types).  Both are validated byte-for-byte against the real library on every run.
-/
namespace Moq

inductive ChanDir | both | send | recv
deriving DecidableEq, Repr, Inhabited

/-- A `*types.Package`: import path exactly as go/types reports it (`""` for objects of the
    universe scope, whose `Pkg()` is nil) and declared package name. -/
structure PkgRef where
  path : Str
  name : Str
deriving DecidableEq, Repr, Inhabited

inductive Ty where
  | basic (name : Str)
  /-- `*types.Named`; `uslice` records whether its underlying type is a slice (`Var.IsSlice`). -/
  | named (pkg : PkgRef) (obj : Str) (targs : List Ty) (uslice : Bool)
  /-- `*types.Alias` (gotypesalias=1) -/
  | alias (pkg : PkgRef) (obj : Str) (targs : List Ty) (uslice : Bool)
  | ptr (e : Ty)
  | slice (e : Ty)
  | array (n : Nat) (e : Ty)
  | map (k v : Ty)
  | chan (d : ChanDir) (e : Ty)
  | sig (pnames : List Str) (ptys : List Ty) (rnames : List Str) (rtys : List Ty) (variadic : Bool)
  | struct (fnames : List Str) (ftys : List Ty) (fembedded : List Bool) (ftags : List Str)
  | iface (mnames : List Str) (msigs : List Ty) (embeds : List Ty) (implicit : Bool)
  | tparam (name : Str)
  | union (tildes : List Bool) (terms : List Ty)
deriving Repr, Inhabited

namespace Ty

/-- `packagePrefix(pkg, qf)` of go/types: nothing for universe objects, otherwise the
    qualifier followed by a dot unless the qualifier is empty. -/
def pkgPrefix (q : PkgRef → Str) (p : PkgRef) : Str :=
  if p.path = [] then []
  else
    let s := q p
    if s = [] then [] else s ++ s%"."

/-- `strconv.Quote` restricted to what struct tags in the generated corpus contain:
    printable ASCII with `"` and `\` escaped. -/
def quote (s : Str) : Str :=
  s%"\"" ++ s.flatMap (fun c => if c = '"' then s%"\\\"" else if c = '\\' then s%"\\\\" else [c]) ++ s%"\""

def nameSp (ns : List Str) : Str :=
  match ns.head? with
  | some n => if n = [] then [] else n ++ s%" "
  | none => []

def chanWord : ChanDir → Str
  | .both => s%"chan "
  | .send => s%"chan<- "
  | .recv => s%"<-chan "

/-- `chan (<-chan T)` needs parentheses -/
def chanParens : ChanDir → Ty → Bool
  | .both, .chan .recv _ => true
  | _, _ => false

mutual
/-- `types.TypeString(t, q)`. -/
def typeString (q : PkgRef → Str) : Ty → Str
  | .basic n => n
  | .named p o targs _ => pkgPrefix q p ++ o ++ instStr q targs
  | .alias p o targs _ => pkgPrefix q p ++ o ++ instStr q targs
  | .ptr e => s%"*" ++ typeString q e
  | .slice e => s%"[]" ++ typeString q e
  | .array n e => s%"[" ++ Str.ofNat n ++ s%"]" ++ typeString q e
  | .map k v => s%"map[" ++ typeString q k ++ s%"]" ++ typeString q v
  | .chan d e =>
    chanWord d ++ (if chanParens d e then s%"(" else []) ++ typeString q e ++
      (if chanParens d e then s%")" else [])
  | .sig pn pt rn rt v => s%"func(" ++ tupleStr q pn pt v ++ s%")" ++ resultsStr q rn rt
  | .struct fn ft fe tg => s%"struct{" ++ fieldsStr q fn ft fe tg ++ s%"}"
  | .iface mn ms em impl =>
    if impl && mn.isEmpty && ms.isEmpty && em.length == 1 then semiListStr q em
    else
      (if impl then s%"/* implicit */ " else []) ++
      s%"interface{" ++ methodsStr q mn ms ++
        (if ms.isEmpty || em.isEmpty then [] else s%"; ") ++ semiListStr q em ++ s%"}"
  | .tparam n => n
  | .union tl ts => unionStr q tl ts

/-- `[A, B]` after an instantiated generic type; nothing for a non-generic one. -/
def instStr (q : PkgRef → Str) : List Ty → Str
  | [] => []
  | t :: ts => s%"[" ++ typeString q t ++ commaTail q ts ++ s%"]"

def commaTail (q : PkgRef → Str) : List Ty → Str
  | [] => []
  | t :: ts => s%", " ++ typeString q t ++ commaTail q ts

def semiListStr (q : PkgRef → Str) : List Ty → Str
  | [] => []
  | [t] => typeString q t
  | t :: ts => typeString q t ++ s%"; " ++ semiListStr q ts

/-- the result part of a signature: nothing, ` T`, or ` (…)` for several / named results -/
def resultsStr (q : PkgRef → Str) : List Str → List Ty → Str
  | _, [] => []
  | rn, [t] =>
    if rn.headD [] = [] then s%" " ++ typeString q t
    else s%" (" ++ rn.headD [] ++ s%" " ++ typeString q t ++ s%")"
  | rn, t :: ts =>
    s%" (" ++ nameSp rn ++ typeString q t ++ s%", " ++ tupleStr q rn.tail ts false ++ s%")"

/-- elements of a parameter/result tuple, `", "`-separated, names included when present -/
def tupleStr (q : PkgRef → Str) : List Str → List Ty → Bool → Str
  | _, [], _ => []
  | ns, [t], v =>
    nameSp ns ++
      (if v then
        match t with
        | .slice e => s%"..." ++ typeString q e
        | _ => s%"<expected string type>"
       else typeString q t)
  | ns, t :: ts, v => nameSp ns ++ typeString q t ++ s%", " ++ tupleStr q ns.tail ts v

def fieldsStr (q : PkgRef → Str) : List Str → List Ty → List Bool → List Str → Str
  | _, [], _, _ => []
  | fn, t :: ts, fe, tg =>
    (if fe.headD false then [] else fn.headD [] ++ s%" ") ++ typeString q t ++
    (if tg.headD [] = [] then [] else s%" " ++ quote (tg.headD [])) ++
    (if ts.isEmpty then [] else s%"; ") ++ fieldsStr q fn.tail ts fe.tail tg.tail

def methodsStr (q : PkgRef → Str) : List Str → List Ty → Str
  | _, [] => []
  | mn, m :: ms =>
    mn.headD [] ++
      (match m with
       | .sig pn pt rn rt v => s%"(" ++ tupleStr q pn pt v ++ s%")" ++ resultsStr q rn rt
       | _ => s%"<not a signature>") ++
    (if ms.isEmpty then [] else s%"; ") ++ methodsStr q mn.tail ms

def unionStr (q : PkgRef → Str) : List Bool → List Ty → Str
  | _, [] => s%"<empty union>"
  | tl, [t] => (if tl.headD false then s%"~" else []) ++ typeString q t
  | tl, t :: ts => (if tl.headD false then s%"~" else []) ++ typeString q t ++ s%" | " ++
      unionStr q tl.tail ts
end

mutual
/-- Packages met by `MethodScope.populateImports`, in traversal order, duplicates kept.
    No case for `basic`, `tparam` – exactly as in the Go code (the `Union` case was added by the fix of F-08). -/
def pkgsOf : Ty → List PkgRef
  | .basic _ => []
  | .named p _ targs _ => (if p.path = [] then [] else [p]) ++ pkgsOfList targs
  | .alias p _ targs _ => (if p.path = [] then [] else [p]) ++ pkgsOfList targs
  | .ptr e => pkgsOf e
  | .slice e => pkgsOf e
  | .array _ e => pkgsOf e
  | .map k v => pkgsOf k ++ pkgsOf v
  | .chan _ e => pkgsOf e
  | .sig _ pt _ rt _ => pkgsOfList pt ++ pkgsOfList rt
  | .struct _ ft _ _ => pkgsOfList ft
  | .iface _ ms em _ => pkgsOfList ms ++ pkgsOfList em
  | .tparam _ => []
  | .union _ ts => pkgsOfList ts

def pkgsOfList : List Ty → List PkgRef
  | [] => []
  | t :: ts => pkgsOf t ++ pkgsOfList ts
end

mutual
/-- Every package a type mentions (what `populateImports` *should* find): used to state the
    exactness of the import block and to delimit where `pkgsOf` is complete. -/
def allPkgs : Ty → List PkgRef
  | .basic _ => []
  | .named p _ targs _ => (if p.path = [] then [] else [p]) ++ allPkgsList targs
  | .alias p _ targs _ => (if p.path = [] then [] else [p]) ++ allPkgsList targs
  | .ptr e => allPkgs e
  | .slice e => allPkgs e
  | .array _ e => allPkgs e
  | .map k v => allPkgs k ++ allPkgs v
  | .chan _ e => allPkgs e
  | .sig _ pt _ rt _ => allPkgsList pt ++ allPkgsList rt
  | .struct _ ft _ _ => allPkgsList ft
  | .iface _ ms em _ => allPkgsList ms ++ allPkgsList em
  | .tparam _ => []
  | .union _ ts => allPkgsList ts

def allPkgsList : List Ty → List PkgRef
  | [] => []
  | t :: ts => allPkgs t ++ allPkgsList ts
end

/-- `Var.IsSlice`: is the (underlying) type a slice. -/
def isSlice : Ty → Bool
  | .slice _ => true
  | .named _ _ _ u => u
  | .alias _ _ _ u => u
  | _ => false

end Ty
end Moq
