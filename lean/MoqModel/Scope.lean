import MoqModel.Registry
/-
  Scope: internal/registry/method_scope.go – per-method allocation of parameter/result names.
-/
namespace Moq
open Generated

structure Var where
  name : Str
  ty : Ty
  imports : List Str     -- stripped paths whose entry in `Var.imports` is a non-nil *Package
deriving Repr, Inhabited

structure Scope where
  vars : List Var := []
  conflicted : List Str := []
deriving Repr, Inhabited

def searchVar (vars : List Var) (name : Str) : Option Nat := vars.findIdx? (·.name = name)

def renameAt : List Var → Nat → (Str → Str) → List Var
  | [], _, _ => []
  | v :: vs, 0, f => { v with name := f v.name } :: vs
  | v :: vs, n + 1, f => v :: renameAt vs n f

/-- `populateImports`: `AddImport` for every package met, in traversal order; the variable
    remembers the stripped paths with a non-nil result (once each). -/
def populateImports (o : Ord) (fuel : Nat) (r : Registry) (ps : List PkgRef) :
    Option (Registry × List Str) :=
  ps.foldlM (init := (r, [])) fun (r, acc) p =>
    (addImport o fuel r p).map fun (r', res) =>
      match res with
      | some path => (r', if path ∈ acc then acc else acc ++ [path])
      | none => (r', acc)

/-- `resolveImportVarConflicts`: for each new import, the first variable spelled like its
    qualifier gets `MoqParam` appended. `quals` is in map-iteration order. -/
def resolveImportVarConflicts (vars : List Var) (quals : List Str) : List Var :=
  quals.foldl (fun vs q =>
    match searchVar vs q with
    | some i => renameAt vs i (· ++ moqParamSuffix)
    | none => vs) vars

/-- the `for n := 1; ; n++` loop of `resolveVarNameConflict`; `none` = out of fuel. -/
def resolveVarNameConflict (sc : Scope) (suggested : Str) : Nat → Nat → Option (Scope × Str)
  | 0, _ => none
  | fuel + 1, n =>
    if (searchVar sc.vars (suggested ++ Str.ofNat n)).isSome then
      resolveVarNameConflict sc suggested fuel (n + 1)
    else if n = 1 then
      match searchVar sc.vars suggested with
      | none => some (sc, suggested ++ Str.ofNat 1)     -- nothing left to rename (guard added by the fix of F-18)
      | some i =>
        some ({ vars := renameAt sc.vars i (· ++ s%"1"),
                conflicted := if suggested ∈ sc.conflicted then sc.conflicted
                              else sc.conflicted ++ [suggested] },
              suggested ++ Str.ofNat 2)
    else some (sc, suggested ++ Str.ofNat n)

inductive Fail
  | diverge          -- resolveImportConflict does not return (stack overflow in Go)
  | nilDeref         -- resolveVarNameConflict dereferences a nil *Var
  | sliceBounds      -- `s[:1]` on an empty string / `TypeString()[2:]` too short
deriving DecidableEq, Repr

/-- the naming half of `AddVar`: with the imports of the variable's type registered (`r1`,
    `paths`), rename earlier variables that equal a new qualifier, derive the name, avoid
    import qualifiers (`MoqParam`) and earlier variables (numbering) -/
def nameVar (o : Ord) (r1 : Registry) (sc : Scope) (paths : List Str) (vname : Str) (t : Ty)
    (suffix : Str) : Except Fail Scope :=
  let quals := (o.st paths).map r1.qualOf
  let vars1 := resolveImportVarConflicts sc.vars quals
  match varName vname t suffix with
  | none => .error .sliceBounds
  | some n0 =>
    let n1 := if (searchIn (o.pk r1.imports) n0).isSome then n0 ++ moqParamSuffix else n0
    let sc1 : Scope := { sc with vars := vars1 }
    if (searchVar vars1 n1).isSome || n1 ∈ sc1.conflicted then
      match resolveVarNameConflict sc1 n1 (vars1.length + 2) 1 with
      | none => .error .nilDeref
      | some (sc2, n2) =>
        .ok { sc2 with vars := sc2.vars ++ [{ name := n2, ty := t, imports := paths }] }
    else
      .ok { sc1 with vars := vars1 ++ [{ name := n1, ty := t, imports := paths }] }

/-- method_scope.go `AddVar`. -/
def addVar (o : Ord) (fuel : Nat) (r : Registry) (sc : Scope) (vname : Str) (t : Ty)
    (suffix : Str) : Except Fail (Registry × Scope) :=
  match populateImports o fuel r (Ty.pkgsOf t) with
  | none => .error .diverge
  | some (r1, paths) =>
    match nameVar o r1 sc paths vname t suffix with
    | .error f => .error f
    | .ok sc' => .ok (r1, sc')

end Moq
