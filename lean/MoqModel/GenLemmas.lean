import MoqModel.RegistryLemmas
import MoqModel.Gen
/-
  GenLemmas: any property of the registry that `AddImport` preserves holds of the final
  registry of a run (`genAlloc`), whatever interfaces, flags and iteration orders.
-/
namespace Moq

/-- a registry property preserved by `AddImport` -/
def AddImportInv (P : Registry → Prop) : Prop :=
  ∀ (o : Ord) (fuel : Nat) (r r' : Registry) (p : PkgRef) (res : Option Str),
    P r → addImport o fuel r p = some (r', res) → P r'

variable {P : Registry → Prop}

theorem populateImports_inv (hP : AddImportInv P) (o : Ord) (fuel : Nat) :
    ∀ (ps : List PkgRef) (r r' : Registry) (acc acc' : List Str),
      P r → ps.foldlM (init := (r, acc)) (fun (st : Registry × List Str) p =>
        (addImport o fuel st.1 p).map fun (r', res) =>
          match res with
          | some path => (r', if path ∈ st.2 then st.2 else st.2 ++ [path])
          | none => (r', st.2)) = some (r', acc') → P r' := by
  intro ps
  induction ps with
  | nil => intro r r' acc acc' h hf; simp at hf; rw [← hf.1]; exact h
  | cons p ps ih =>
    intro r r' acc acc' h hf
    simp only [List.foldlM_cons] at hf
    cases ha : addImport o fuel r p with
    | none => simp [ha] at hf
    | some rr =>
      rcases rr with ⟨r1, res⟩
      have h1 := hP o fuel r r1 p res h ha
      simp only [ha, Option.map_some, Option.bind_some] at hf
      cases res with
      | none => exact ih r1 r' _ acc' h1 hf
      | some path => exact ih r1 r' _ acc' h1 hf

theorem populateImports_inv' (hP : AddImportInv P) (o : Ord) (fuel : Nat) (ps : List PkgRef)
    (r r' : Registry) (paths : List Str) (h : P r) (hp : populateImports o fuel r ps = some (r', paths)) : P r' := by
  unfold populateImports at hp
  exact populateImports_inv hP o fuel ps r r' [] paths h hp

theorem addVar_inv (hP : AddImportInv P) (o : Ord) (fuel : Nat) (r r' : Registry) (sc sc' : Scope)
    (n : Str) (t : Ty) (sfx : Str) (h : P r) (ha : addVar o fuel r sc n t sfx = .ok (r', sc')) : P r' := by
  unfold addVar at ha
  cases hp : populateImports o fuel r (Ty.pkgsOf t) with
  | none => simp [hp] at ha
  | some rp =>
    rcases rp with ⟨r1, paths⟩
    have h1 := populateImports_inv' hP o fuel _ r r1 paths h hp
    simp only [hp] at ha
    cases hn : nameVar o r1 sc paths n t sfx with
    | error f => simp [hn] at ha
    | ok sc2 => simp [hn] at ha; rw [← ha.1]; exact h1

theorem addVars_inv (hP : AddImportInv P) (o : Ord) (fuel : Nat) (sfx : Str) :
    ∀ (nts : List (Str × Ty)) (r r' : Registry) (sc sc' : Scope),
      P r → addVars o fuel sfx nts r sc = .ok (r', sc') → P r' := by
  intro nts
  induction nts with
  | nil => intro r r' sc sc' h ha; simp [addVars] at ha; rw [← ha.1]; exact h
  | cons nt nts ih =>
    intro r r' sc sc' h ha
    rcases nt with ⟨n, t⟩
    simp only [addVars] at ha
    cases hv : addVar o fuel r sc n t sfx with
    | error e => simp [hv] at ha
    | ok rs =>
      rcases rs with ⟨r1, sc1⟩
      simp only [hv] at ha
      exact ih r1 r' sc1 sc' (addVar_inv hP o fuel r r1 sc sc1 _ t sfx h hv) ha

theorem methodAlloc_inv (hP : AddImportInv P) (o : Ord) (fuel : Nat) (r r' : Registry) (m : MethodIn)
    (a : MethodAlloc) (h : P r) (hm : methodAlloc o fuel r m = .ok (r', a)) : P r' := by
  simp only [methodAlloc, bind, Except.bind] at hm
  cases h1 : addVars o fuel [] (m.pnames.zip m.ptys) r {} with
  | error e => simp [h1] at hm
  | ok x =>
    rcases x with ⟨r1, sc1⟩
    simp only [h1] at hm
    cases h2 : addVars o fuel Generated.outSuffix (m.rnames.zip m.rtys) r1 sc1 with
    | error e => simp [h2] at hm
    | ok y =>
      rcases y with ⟨r2, sc2⟩
      simp only [h2, pure, Except.pure] at hm
      cases hm
      exact addVars_inv hP o fuel _ _ r1 _ sc1 sc2 (addVars_inv hP o fuel _ _ r r1 _ sc1 h h1) h2

theorem methodsAlloc_inv (hP : AddImportInv P) (o : Ord) (fuel : Nat) :
    ∀ (ms : List MethodIn) (r r' : Registry) (as : List MethodAlloc),
      P r → methodsAlloc o fuel r ms = .ok (r', as) → P r' := by
  intro ms
  induction ms with
  | nil => intro r r' as h hm; simp [methodsAlloc] at hm; rw [← hm.1]; exact h
  | cons m ms ih =>
    intro r r' as h hm
    simp only [methodsAlloc, bind, Except.bind] at hm
    cases h1 : methodAlloc o fuel r m with
    | error e => simp [h1] at hm
    | ok x =>
      rcases x with ⟨r1, a⟩
      simp only [h1] at hm
      cases h2 : methodsAlloc o fuel r1 ms with
      | error e => simp [h2] at hm
      | ok y =>
        rcases y with ⟨r2, as2⟩
        simp only [h2, pure, Except.pure] at hm
        cases hm
        exact ih r1 _ as2 (methodAlloc_inv hP o fuel r r1 m a h h1) h2

theorem tparamsAlloc_inv (hP : AddImportInv P) (o : Ord) (fuel : Nat) (r r' : Registry) (tps : List TParamIn)
    (vs : List Var) (h : P r) (ht : tparamsAlloc o fuel r tps = .ok (r', vs)) : P r' := by
  simp only [tparamsAlloc, bind, Except.bind] at ht
  cases h1 : addVars o fuel [] (tps.map fun t => (t.name, t.constraint)) r {} with
  | error e => simp [h1] at ht
  | ok x =>
    rcases x with ⟨r1, sc⟩
    simp only [h1, pure, Except.pure] at ht
    cases ht
    exact addVars_inv hP o fuel _ _ r _ _ sc h h1

theorem mocksAlloc_inv (hP : AddImportInv P) (o : Ord) (fuel : Nat) (scope : List (Str × Obj)) :
    ∀ (args : List Str) (r r' : Registry) (ms : List MockAlloc),
      P r → mocksAlloc o fuel scope r args = .ok (r', ms) → P r' := by
  intro args
  induction args with
  | nil => intro r r' ms h hm; simp [mocksAlloc] at hm; rw [← hm.1]; exact h
  | cons np nps ih =>
    intro r r' ms h hm
    unfold mocksAlloc at hm
    rcases hp : parseInterfaceName np with ⟨name, mockName⟩
    simp only [hp] at hm
    cases hs : scope.find? (fun x => x.1 = name) with
    | none => simp [hs] at hm
    | some kv =>
      rcases kv with ⟨k, obj⟩
      cases obj with
      | notIface ts => simp [hs] at hm
      | iface msIn generic tps tn ts =>
        cases tn with
        | false => simp [hs] at hm
        | true =>
        simp only [hs] at hm
        cases hma : methodsAlloc o fuel r msIn with
        | error e => simp [hma] at hm
        | ok rm =>
          rcases rm with ⟨r1, mas⟩
          have p1 := methodsAlloc_inv hP o fuel msIn r r1 mas h hma
          simp only [hma] at hm
          cases htp : (if generic then tparamsAlloc o fuel r1 tps else .ok (r1, [])) with
          | error e => simp [htp] at hm
          | ok rt =>
            rcases rt with ⟨r2, tvs⟩
            have p2 : P r2 := by
              by_cases hg : generic
              · simp [hg] at htp; exact tparamsAlloc_inv hP o fuel r1 r2 tps tvs p1 htp
              · simp [hg] at htp; rw [← htp.1]; exact p1
            simp only [htp] at hm
            cases hrest : mocksAlloc o fuel scope r2 nps with
            | error e => simp [hrest] at hm
            | ok rr =>
              rcases rr with ⟨r3, rest⟩
              simp only [hrest] at hm
              cases hm
              exact ih r2 _ rest p2 hrest

theorem addSync_inv (hP : AddImportInv P) (o : Ord) (fuel : Nat) (r r' : Registry) (mocks : List MockAlloc)
    (h : P r) (hs : addSync o fuel r mocks = some r') : P r' := by
  unfold addSync at hs
  split at hs
  · cases ha : addImport o fuel r ⟨s%"sync", s%"sync"⟩ with
    | none => simp [ha] at hs
    | some x => rcases x with ⟨rr, res⟩; simp [ha] at hs; subst hs; exact hP o fuel r rr _ res h ha
  · cases hs; exact h

theorem addSrc_inv (hP : AddImportInv P) (o : Ord) (fuel : Nat) (inp : Input) (r r' : Registry) (q : Str)
    (h : P r) (hs : addSrc o fuel inp r = some (r', q)) : P r' := by
  unfold addSrc at hs
  split at hs
  · split at hs
    · cases ha : addImport o fuel r ⟨inp.srcPath, inp.srcName⟩ with
      | none => simp [ha] at hs
      | some x => rcases x with ⟨rr, res⟩; simp [ha] at hs; rw [← hs.1]; exact hP o fuel r rr _ res h ha
    · cases hs; exact h
  · cases hs; exact h

/-- **whatever `AddImport` preserves holds of the registry the output is rendered from** -/
theorem genAlloc_inv (hP : AddImportInv P) (o : Ord) (fuel : Nat) (inp : Input) (a : Alloc)
    (h0 : P (initRegistry inp)) (h : genAlloc o fuel inp = .ok a) : P a.reg := by
  unfold genAlloc at h
  split at h
  · cases h
  · cases hm : mocksAlloc o fuel inp.scope (initRegistry inp) inp.args with
    | error e => simp [hm] at h
    | ok rm =>
      rcases rm with ⟨r1, mocks⟩
      have p1 := mocksAlloc_inv hP o fuel inp.scope inp.args _ r1 mocks h0 hm
      simp only [hm] at h
      cases hs : addSync o fuel r1 mocks with
      | none => simp [hs] at h
      | some r2 =>
        have p2 := addSync_inv hP o fuel r1 r2 mocks p1 hs
        simp only [hs] at h
        cases hq : addSrc o fuel inp r2 with
        | none => simp [hq] at h
        | some rq =>
          rcases rq with ⟨r3, q⟩
          simp only [hq] at h
          cases h
          exact addSrc_inv hP o fuel inp r2 r3 q p2 hq

end Moq
