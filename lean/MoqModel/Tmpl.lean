import MoqModel.Gen
/-
  Tmpl: an interpreter for the subset of `text/template` that `moqTemplate` uses.

  The parse tree itself (`Generated.Template.moqTemplate`) is regenerated from /repo on every
  run by extract/ (using `text/template/parse`, the parser moq itself uses, so trim markers are
  already applied).  Node kinds: text, action, if/else, range/else; pipelines of commands whose
  arguments are `.`, field chains, `$var` chains and function identifiers.
-/
namespace Moq.Tmpl
open Moq Generated

inductive Arg
  | dot
  | field (path : List Str)                 -- .A.B
  | var (name : Str) (path : List Str)      -- $x.A.B   ($ itself is `var "$" path`)
  | ident (name : Str)                      -- function name
  | strLit (s : Str)
  | boolLit (b : Bool)
  | numLit (n : Nat)
deriving DecidableEq, Repr, Inhabited

structure Cmd where
  args : List Arg
deriving DecidableEq, Repr, Inhabited

structure Pipe where
  decl : List Str
  cmds : List Cmd
deriving DecidableEq, Repr, Inhabited

inductive Node
  | text (s : Str)
  | action (p : Pipe)
  | ite (p : Pipe) (thn : List Node) (els : List Node)
  | range (p : Pipe) (body : List Node) (els : List Node)
deriving Repr, Inhabited

/-- template values -/
inductive Val
  | str (s : Str)
  | bool (b : Bool)
  | int (n : Nat)
  | nil
  | list (vs : List Val)
  | obj (fields : List (Str × Val))
deriving Repr, Inhabited

/-- text/template truth: non-empty string/list, non-zero int, true, non-nil. Structs are true. -/
def truth : Val → Bool
  | .str s => !s.isEmpty
  | .bool b => b
  | .int n => n != 0
  | .nil => false
  | .list vs => !vs.isEmpty
  | .obj _ => true

def getField (v : Val) (f : Str) : Option Val :=
  match v with
  | .obj fs => (fs.find? (·.1 = f)).map (·.2)
  | _ => none

def getPath (v : Val) : List Str → Option Val
  | [] => some v
  | f :: fs => (getField v f).bind (getPath · fs)

abbrev Env := List (Str × Val)

def lookupVar (env : Env) (n : Str) : Option Val := (env.find? (·.1 = n)).map (·.2)

def evalArg (env : Env) (dot : Val) : Arg → Option Val
  | .dot => some dot
  | .field p => getPath dot p
  | .var n p => (lookupVar env n).bind (getPath · p)
  | .ident _ => none
  | .strLit s => some (.str s)
  | .boolLit b => some (.bool b)
  | .numLit n => some (.int n)

def valLen : Val → Option Nat
  | .str s => some s.length
  | .list vs => some vs.length
  | _ => none

/-- comparison builtins on basic values: `some ordering-as-(lt, eq)` -/
def cmpVals : Val → Val → Option (Bool × Bool)
  | .int a, .int b => some (a < b, a = b)
  | .str a, .str b => some (Str.lt a b, a = b)
  | .bool a, .bool b => some (false, a = b)
  | _, _ => none

/-- is this (encoded) import the standard `sync` package? -/
def isSyncImport (i : Val) : Bool :=
  match getField i s%"Path" with
  | some (.str p) => p = s%"sync"
  | _ => false

/-- the template functions moq registers plus the builtin `not` -/
def callFn (name : Str) (args : List Val) : Option Val :=
  if name = s%"not" then
    match args with
    | [v] => some (.bool (!truth v))
    | _ => none
  else if name = s%"and" then
    match args with
    | [] => none
    | v :: vs => some ((v :: vs).foldl (fun acc x => if truth acc then x else acc) v)
  else if name = s%"or" then
    match args with
    | [] => none
    | v :: vs => some ((v :: vs).foldl (fun acc x => if truth acc then acc else x) v)
  else if name = s%"len" then
    match args with
    | [v] => (valLen v).map .int
    | _ => none
  else if name ∈ [s%"eq", s%"ne", s%"lt", s%"le", s%"gt", s%"ge"] then
    match args with
    | [a, b] =>
      (cmpVals a b).map fun (l, e) =>
        .bool (if name = s%"eq" then e else if name = s%"ne" then !e
               else if name = s%"lt" then l else if name = s%"le" then l || e
               else if name = s%"gt" then !(l || e) else !l)
    | _ => none
  else if name = s%"Exported" then
    match args with
    | [.str s] => some (.str (exported s))
    | _ => none
  else if name = s%"ImportStatement" then
    match args with
    | [v] =>
      match getField v s%"Alias", getField v s%"Path" with
      | some (.str a), some (.str p) =>
        some (.str (if a = [] then s%"\"" ++ p ++ s%"\"" else a ++ s%" \"" ++ p ++ s%"\""))
      | _, _ => none
    | _ => none
  else if name = s%"SyncPkgQualifier" then
    match args with
    | [.list imps] =>
      match imps.find? isSyncImport with
      | some i => (getField i s%"Qualifier")
      | none => some (.str s%"sync")
    | _ => none
  else none

/-- one command, with the value piped in from the previous command (appended as last arg) -/
def evalCmd (env : Env) (dot : Val) (c : Cmd) (piped : Option Val) : Option Val :=
  match c.args with
  | [] => none
  | .ident f :: rest =>
    (rest.mapM (evalArg env dot)).bind fun vs =>
      callFn f (vs ++ (match piped with | some v => [v] | none => []))
  | [a] => if piped.isSome then none else evalArg env dot a
  | _ => none

def evalPipe (env : Env) (dot : Val) (p : Pipe) : Option Val :=
  p.cmds.foldlM (init := (none : Option Val)) (fun acc c => (evalCmd env dot c acc).map some)
    |>.bind id

def printVal : Val → Option Str
  | .str s => some s
  | .bool true => some s%"true"
  | .bool false => some s%"false"
  | .int n => some (Str.ofNat n)
  | _ => none

/-- the loop variables of `range $i, $x := …` / `range $x := …` bound for one iteration -/
def bindEnv (decl : List Str) (i : Nat) (v : Val) (env : Env) : Env :=
  match decl with
  | [x] => (x, v) :: env
  | [ix, x] => (ix, .int i) :: (x, v) :: env
  | _ => env

/-- iterate `vs` with index starting at `i`, running `body` with the loop variables bound -/
def rangeLoop (body : Env → Val → Option Str) (env : Env) (decl : List Str) (i : Nat) :
    List Val → Option Str
  | [] => some []
  | v :: vs =>
    (body (bindEnv decl i v env) v).bind fun a => (rangeLoop body env decl (i + 1) vs).map fun b => a ++ b

mutual
/-- Execute a node.  Variables declared by `range $i, $x := …` are scoped to the body;
    `$` is bound to the root data. -/
def exec (env : Env) (dot : Val) : Node → Option Str
  | .text s => some s
  | .action p =>
    if p.decl.isEmpty then (evalPipe env dot p).bind printVal
    else none     -- moq's template declares variables only in range headers
  | .ite p thn els =>
    (evalPipe env dot p).bind fun v =>
      if truth v then execList env dot thn else execList env dot els
  | .range p body els =>
    (evalPipe env dot p).bind fun v =>
      match v with
      | .list [] => execList env dot els
      | .list vs => rangeLoop (fun e d => execList e d body) env p.decl 0 vs
      | _ => none

def execList (env : Env) (dot : Val) : List Node → Option Str
  | [] => some []
  | n :: ns => (exec env dot n).bind fun a => (execList env dot ns).map fun b => a ++ b
end

end Moq.Tmpl
