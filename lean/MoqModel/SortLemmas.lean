import MoqModel.Str
/-
  SortLemmas: `Str.lt` is a strict total order and insertion sort sorts.
-/
namespace Moq

theorem Str.lt_irrefl : ∀ a : Str, Str.lt a a = false
  | [] => rfl
  | c :: cs => by simp [Str.lt, Str.lt_irrefl cs]

theorem Str.lt_asymm : ∀ a b : Str, Str.lt a b = true → Str.lt b a = false
  | [], [], h => by simp [Str.lt] at h
  | [], _ :: _, _ => rfl
  | _ :: _, [], h => by simp [Str.lt] at h
  | a :: as, b :: bs, h => by
    simp only [Str.lt, Bool.or_eq_true, decide_eq_true_eq, Bool.and_eq_true] at h
    simp only [Str.lt, Bool.or_eq_false_iff, decide_eq_false_iff_not, Bool.and_eq_false_imp, decide_eq_true_eq]
    rcases h with h | ⟨he, hl⟩
    · exact ⟨by omega, fun e => by subst e; omega⟩
    · subst he; exact ⟨by omega, fun _ => Str.lt_asymm as bs hl⟩

theorem Str.lt_trans : ∀ a b c : Str, Str.lt a b = true → Str.lt b c = true → Str.lt a c = true
  | [], [], _, h, _ => by simp [Str.lt] at h
  | [], _ :: _, [], _, h => by simp [Str.lt] at h
  | [], _ :: _, _ :: _, _, _ => rfl
  | _ :: _, [], _, h, _ => by simp [Str.lt] at h
  | _ :: _, _ :: _, [], _, h => by simp [Str.lt] at h
  | a :: as, b :: bs, c :: cs, h1, h2 => by
    simp only [Str.lt, Bool.or_eq_true, decide_eq_true_eq, Bool.and_eq_true] at h1 h2 ⊢
    rcases h1 with h1 | ⟨e1, l1⟩ <;> rcases h2 with h2 | ⟨e2, l2⟩
    · left; omega
    · subst e2; left; exact h1
    · subst e1; left; exact h2
    · subst e1; subst e2; right; exact ⟨rfl, Str.lt_trans as bs cs l1 l2⟩

theorem Str.lt_total : ∀ a b : Str, Str.lt a b = true ∨ a = b ∨ Str.lt b a = true
  | [], [] => Or.inr (Or.inl rfl)
  | [], _ :: _ => Or.inl rfl
  | _ :: _, [] => Or.inr (Or.inr rfl)
  | a :: as, b :: bs => by
    simp only [Str.lt, Bool.or_eq_true, decide_eq_true_eq, Bool.and_eq_true, List.cons.injEq]
    rcases Nat.lt_trichotomy a.toNat b.toNat with h | h | h
    · left; left; exact h
    · have e : a = b := Char.toNat_inj.mp h
      subst e
      rcases Str.lt_total as bs with l | e | g
      · left; right; exact ⟨rfl, l⟩
      · right; left; exact ⟨rfl, e⟩
      · right; right; right; exact ⟨rfl, g⟩
    · right; right; left; exact h

/-- `l` is strictly increasing under the key order -/
def SortedBy {α} (key : α → Str) : List α → Prop
  | [] => True
  | [_] => True
  | a :: b :: rest => Str.lt (key a) (key b) = true ∧ SortedBy key (b :: rest)

theorem SortedBy.tail {α} {key : α → Str} {a : α} {l : List α} (h : SortedBy key (a :: l)) : SortedBy key l := by
  cases l with
  | nil => trivial
  | cons b rest => exact h.2

theorem sortedBy_cons {α} {key : α → Str} {a : α} {l : List α} (hs : SortedBy key l)
    (hall : ∀ b ∈ l, Str.lt (key a) (key b) = true) : SortedBy key (a :: l) := by
  cases l with
  | nil => trivial
  | cons b rest => exact ⟨hall b List.mem_cons_self, hs⟩

theorem sortedBy_head_lt {α} {key : α → Str} : ∀ {a : α} {l : List α}, SortedBy key (a :: l) →
    ∀ b ∈ l, Str.lt (key a) (key b) = true
  | _, [], _, b, hb => by cases hb
  | a, c :: rest, h, b, hb => by
    cases hb with
    | head => exact h.1
    | tail _ hb' => exact Str.lt_trans _ _ _ h.1 (sortedBy_head_lt h.2 b hb')

theorem insertBy_mem {α} (lt : α → α → Bool) (x : α) (l : List α) (y : α) :
    y ∈ insertBy lt x l ↔ y = x ∨ y ∈ l := by
  induction l with
  | nil => simp [insertBy]
  | cons z zs ih =>
    simp only [insertBy]
    split
    · simp
    · simp [ih]; constructor
      · rintro (h | h | h) <;> simp [h]
      · rintro (h | h | h) <;> simp [h]

/-- inserting a key different from all keys present keeps a strictly sorted list sorted -/
theorem insertBy_sorted {α} (key : α → Str) (x : α) :
    ∀ l : List α, SortedBy key l → (∀ b ∈ l, key b ≠ key x) →
      SortedBy key (insertBy (fun a b => Str.lt (key a) (key b)) x l)
  | [], _, _ => trivial
  | y :: ys, hs, hne => by
    simp only [insertBy]
    split
    · rename_i hlt
      exact ⟨hlt, hs⟩
    · rename_i hnl
      have hyx : Str.lt (key y) (key x) = true := by
        rcases Str.lt_total (key x) (key y) with h | h | h
        · exact absurd h hnl
        · exact absurd h.symm (hne y List.mem_cons_self)
        · exact h
      have ih := insertBy_sorted key x ys hs.tail (fun b hb => hne b (List.mem_cons_of_mem _ hb))
      apply sortedBy_cons ih
      intro b hb
      rcases (insertBy_mem _ x ys b).mp hb with e | hm
      · subst e; exact hyx
      · exact sortedBy_head_lt hs b hm

/-- insertion sort by a key yields a strictly increasing list when the keys are pairwise distinct -/
theorem sortBy_sorted {α} (key : α → Str) :
    ∀ l : List α, (l.map key).Nodup → SortedBy key (sortBy (fun a b => Str.lt (key a) (key b)) l)
  | [], _ => trivial
  | x :: xs, hnd => by
    simp only [sortBy]
    have hx := List.nodup_cons.mp hnd
    apply insertBy_sorted key x _ (sortBy_sorted key xs hx.2)
    intro b hb e
    have hbm : b ∈ xs := by
      have : ∀ l : List α, ∀ y, y ∈ sortBy (fun a b => Str.lt (key a) (key b)) l → y ∈ l := by
        intro l
        induction l with
        | nil => intro y hy; simp [sortBy] at hy
        | cons z zs ih =>
          intro y hy
          simp only [sortBy] at hy
          rcases (insertBy_mem _ z _ y).mp hy with e | h
          · subst e; exact List.mem_cons_self
          · exact List.mem_cons_of_mem _ (ih y h)
      exact this xs b hb
    exact hx.1 (by rw [← e]; exact List.mem_map.mpr ⟨b, hbm, rfl⟩)

end Moq
