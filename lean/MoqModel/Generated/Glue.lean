import MoqModel.GlueIR
/- REGENERATED from /repo by extract/ on every run – do not edit. -/
namespace Moq.Generated
open Moq.Glue

def runProgParams : List Str := [("flags".toList)]
def runProg : List GS := [
  .ifs [] (.bin ("<".toList) (.call (.id ("len".toList)) [.sel (.id ("flags".toList)) ("args".toList)] false) (.int 2)) [
    .ret [.call (.sel (.id ("errors".toList)) ("New".toList)) [.str ("not enough arguments".toList)] false]] [],
  .ifs [] (.bin ("&&".toList) (.sel (.id ("flags".toList)) ("remove".toList)) (.bin ("!=".toList) (.sel (.id ("flags".toList)) ("outFile".toList)) (.str ("".toList)))) [
    .ifs [.assign true [.id ("err".toList)] [.call (.sel (.id ("os".toList)) ("Remove".toList)) [.sel (.id ("flags".toList)) ("outFile".toList)] false]] (.bin ("!=".toList) (.id ("err".toList)) (.id ("nil".toList))) [
      .ifs [] (.un ("!".toList) (.call (.sel (.id ("errors".toList)) ("Is".toList)) [.id ("err".toList), .sel (.id ("os".toList)) ("ErrNotExist".toList)] false)) [
        .ret [.id ("err".toList)]] []] []] [],
  .varDecl ("buf".toList) ("bytes.Buffer".toList) [],
  .varDecl ("out".toList) ("io.Writer".toList) [.sel (.id ("os".toList)) ("Stdout".toList)],
  .ifs [] (.bin ("!=".toList) (.sel (.id ("flags".toList)) ("outFile".toList)) (.str ("".toList))) [
    .assign false [.id ("out".toList)] [.un ("&".toList) (.id ("buf".toList))]] [],
  .assign true [.id ("srcDir".toList), .id ("args".toList)] [.idx (.sel (.id ("flags".toList)) ("args".toList)) (.int 0), .slice (.sel (.id ("flags".toList)) ("args".toList)) (.int 1) (.lit ("".toList))],
  .assign true [.id ("m".toList), .id ("err".toList)] [.call (.sel (.id ("moq".toList)) ("New".toList)) [.comp ("moq.Config".toList) [(("SrcDir".toList), .id ("srcDir".toList)), (("PkgName".toList), .sel (.id ("flags".toList)) ("pkgName".toList)), (("Formatter".toList), .sel (.id ("flags".toList)) ("formatter".toList)), (("StubImpl".toList), .sel (.id ("flags".toList)) ("stubImpl".toList)), (("SkipEnsure".toList), .sel (.id ("flags".toList)) ("skipEnsure".toList)), (("WithResets".toList), .sel (.id ("flags".toList)) ("withResets".toList))]] false],
  .ifs [] (.bin ("!=".toList) (.id ("err".toList)) (.id ("nil".toList))) [
    .ret [.id ("err".toList)]] [],
  .ifs [.assign false [.id ("err".toList)] [.call (.sel (.id ("m".toList)) ("Mock".toList)) [.id ("out".toList), .id ("args".toList)] true]] (.bin ("!=".toList) (.id ("err".toList)) (.id ("nil".toList))) [
    .ret [.id ("err".toList)]] [],
  .ifs [] (.bin ("==".toList) (.sel (.id ("flags".toList)) ("outFile".toList)) (.str ("".toList))) [
    .ret [.id ("nil".toList)]] [],
  .assign false [.id ("err".toList)] [.call (.sel (.id ("os".toList)) ("MkdirAll".toList)) [.call (.sel (.id ("filepath".toList)) ("Dir".toList)) [.sel (.id ("flags".toList)) ("outFile".toList)] false, .lit ("0o750".toList)] false],
  .ifs [] (.bin ("!=".toList) (.id ("err".toList)) (.id ("nil".toList))) [
    .ret [.id ("err".toList)]] [],
  .ret [.call (.sel (.id ("os".toList)) ("WriteFile".toList)) [.sel (.id ("flags".toList)) ("outFile".toList), .call (.sel (.id ("buf".toList)) ("Bytes".toList)) [] false, .lit ("0o600".toList)] false]]

def mainProgParams : List Str := []
def mainProg : List GS := [
  .varDecl ("flags".toList) ("userFlags".toList) [],
  .expr (.call (.sel (.id ("flag".toList)) ("StringVar".toList)) [.un ("&".toList) (.sel (.id ("flags".toList)) ("outFile".toList)), .str ("out".toList), .str ("".toList), .str ("output file (default stdout)".toList)] false),
  .expr (.call (.sel (.id ("flag".toList)) ("StringVar".toList)) [.un ("&".toList) (.sel (.id ("flags".toList)) ("pkgName".toList)), .str ("pkg".toList), .str ("".toList), .str ("package name (default will infer)".toList)] false),
  .expr (.call (.sel (.id ("flag".toList)) ("StringVar".toList)) [.un ("&".toList) (.sel (.id ("flags".toList)) ("formatter".toList)), .str ("fmt".toList), .str ("".toList), .str ("go pretty-printer: gofmt, goimports or noop (default gofmt)".toList)] false),
  .expr (.call (.sel (.id ("flag".toList)) ("BoolVar".toList)) [.un ("&".toList) (.sel (.id ("flags".toList)) ("stubImpl".toList)), .str ("stub".toList), .id ("false".toList), .str ("return zero values when no mock implementation is provided, do not panic".toList)] false),
  .assign true [.id ("printVersion".toList)] [.call (.sel (.id ("flag".toList)) ("Bool".toList)) [.str ("version".toList), .id ("false".toList), .str ("show the version for moq".toList)] false],
  .expr (.call (.sel (.id ("flag".toList)) ("BoolVar".toList)) [.un ("&".toList) (.sel (.id ("flags".toList)) ("skipEnsure".toList)), .str ("skip-ensure".toList), .id ("false".toList), .str ("suppress mock implementation check, avoid import cycle if mocks generated outside of the tested package".toList)] false),
  .expr (.call (.sel (.id ("flag".toList)) ("BoolVar".toList)) [.un ("&".toList) (.sel (.id ("flags".toList)) ("remove".toList)), .str ("rm".toList), .id ("false".toList), .str ("first remove output file, if it exists".toList)] false),
  .expr (.call (.sel (.id ("flag".toList)) ("BoolVar".toList)) [.un ("&".toList) (.sel (.id ("flags".toList)) ("withResets".toList)), .str ("with-resets".toList), .id ("false".toList), .str ("generate functions to facilitate resetting calls made to a mock".toList)] false),
  .assign false [.sel (.id ("flag".toList)) ("Usage".toList)] [.lit ("func-literal".toList)],
  .expr (.call (.sel (.id ("flag".toList)) ("Parse".toList)) [] false),
  .assign false [.sel (.id ("flags".toList)) ("args".toList)] [.call (.sel (.id ("flag".toList)) ("Args".toList)) [] false],
  .ifs [] (.un ("*".toList) (.id ("printVersion".toList))) [
    .expr (.call (.sel (.id ("fmt".toList)) ("Printf".toList)) [.str ("moq version %s\n".toList), .id ("Version".toList)] false),
    .expr (.call (.sel (.id ("os".toList)) ("Exit".toList)) [.int 0] false)] [],
  .ifs [.assign true [.id ("err".toList)] [.call (.id ("run".toList)) [.id ("flags".toList)] false]] (.bin ("!=".toList) (.id ("err".toList)) (.id ("nil".toList))) [
    .expr (.call (.sel (.id ("fmt".toList)) ("Fprintln".toList)) [.sel (.id ("os".toList)) ("Stderr".toList), .id ("err".toList)] false),
    .expr (.call (.sel (.id ("flag".toList)) ("Usage".toList)) [] false),
    .expr (.call (.sel (.id ("os".toList)) ("Exit".toList)) [.int 1] false)] []]

def mockProgParams : List Str := [("w".toList), ("namePairs".toList)]
def mockProg : List GS := [
  .ifs [] (.bin ("==".toList) (.call (.id ("len".toList)) [.id ("namePairs".toList)] false) (.int 0)) [
    .ret [.call (.sel (.id ("errors".toList)) ("New".toList)) [.str ("must specify one interface".toList)] false]] [],
  .assign true [.id ("mocks".toList)] [.call (.id ("make".toList)) [.lit ("type []template.MockData".toList), .call (.id ("len".toList)) [.id ("namePairs".toList)] false] false],
  .forRange ("i".toList) ("np".toList) (.id ("namePairs".toList)) [
    .assign true [.id ("name".toList), .id ("mockName".toList)] [.call (.id ("parseInterfaceName".toList)) [.id ("np".toList)] false],
    .assign true [.id ("iface".toList), .id ("tparams".toList), .id ("err".toList)] [.call (.sel (.sel (.id ("m".toList)) ("registry".toList)) ("LookupInterface".toList)) [.id ("name".toList)] false],
    .ifs [] (.bin ("!=".toList) (.id ("err".toList)) (.id ("nil".toList))) [
      .ret [.id ("err".toList)]] [],
    .assign true [.id ("methods".toList)] [.call (.id ("make".toList)) [.lit ("type []template.MethodData".toList), .call (.sel (.id ("iface".toList)) ("NumMethods".toList)) [] false] false],
    .forLoop [.assign true [.id ("j".toList)] [.int 0]] (.bin ("<".toList) (.id ("j".toList)) (.call (.sel (.id ("iface".toList)) ("NumMethods".toList)) [] false)) [.opAssign ("++".toList) [.id ("j".toList)] []] [
      .assign false [.idx (.id ("methods".toList)) (.id ("j".toList))] [.call (.sel (.id ("m".toList)) ("methodData".toList)) [.call (.sel (.id ("iface".toList)) ("Method".toList)) [.id ("j".toList)] false] false]],
    .assign false [.idx (.id ("mocks".toList)) (.id ("i".toList))] [.comp ("template.MockData".toList) [(("InterfaceName".toList), .id ("name".toList)), (("MockName".toList), .id ("mockName".toList)), (("Methods".toList), .id ("methods".toList)), (("TypeParams".toList), .call (.sel (.id ("m".toList)) ("typeParams".toList)) [.id ("tparams".toList)] false)]]],
  .assign true [.id ("data".toList)] [.comp ("template.Data".toList) [(("PkgName".toList), .call (.sel (.id ("m".toList)) ("mockPkgName".toList)) [] false), (("Mocks".toList), .id ("mocks".toList)), (("StubImpl".toList), .sel (.sel (.id ("m".toList)) ("cfg".toList)) ("StubImpl".toList)), (("SkipEnsure".toList), .sel (.sel (.id ("m".toList)) ("cfg".toList)) ("SkipEnsure".toList)), (("WithResets".toList), .sel (.sel (.id ("m".toList)) ("cfg".toList)) ("WithResets".toList))]],
  .ifs [] (.call (.sel (.id ("data".toList)) ("MocksSomeMethod".toList)) [] false) [
    .expr (.call (.sel (.sel (.id ("m".toList)) ("registry".toList)) ("AddImport".toList)) [.call (.sel (.id ("types".toList)) ("NewPackage".toList)) [.str ("sync".toList), .str ("sync".toList)] false] false)] [],
  .ifs [] (.bin ("!=".toList) (.call (.sel (.sel (.id ("m".toList)) ("registry".toList)) ("SrcPkgName".toList)) [] false) (.call (.sel (.id ("m".toList)) ("mockPkgName".toList)) [] false)) [
    .assign false [.sel (.id ("data".toList)) ("SrcPkgQualifier".toList)] [.bin ("+".toList) (.call (.sel (.sel (.id ("m".toList)) ("registry".toList)) ("SrcPkgName".toList)) [] false) (.str (".".toList))],
    .ifs [] (.un ("!".toList) (.sel (.sel (.id ("m".toList)) ("cfg".toList)) ("SkipEnsure".toList))) [
      .assign true [.id ("imprt".toList)] [.call (.sel (.sel (.id ("m".toList)) ("registry".toList)) ("AddImport".toList)) [.call (.sel (.sel (.id ("m".toList)) ("registry".toList)) ("SrcPkg".toList)) [] false] false],
      .assign false [.sel (.id ("data".toList)) ("SrcPkgQualifier".toList)] [.bin ("+".toList) (.call (.sel (.id ("imprt".toList)) ("Qualifier".toList)) [] false) (.str (".".toList))]] []] [],
  .assign false [.sel (.id ("data".toList)) ("Imports".toList)] [.call (.sel (.sel (.id ("m".toList)) ("registry".toList)) ("Imports".toList)) [] false],
  .varDecl ("buf".toList) ("bytes.Buffer".toList) [],
  .ifs [.assign true [.id ("err".toList)] [.call (.sel (.sel (.id ("m".toList)) ("tmpl".toList)) ("Execute".toList)) [.un ("&".toList) (.id ("buf".toList)), .id ("data".toList)] false]] (.bin ("!=".toList) (.id ("err".toList)) (.id ("nil".toList))) [
    .ret [.id ("err".toList)]] [],
  .assign true [.id ("formatted".toList), .id ("err".toList)] [.call (.sel (.id ("m".toList)) ("format".toList)) [.call (.sel (.id ("buf".toList)) ("Bytes".toList)) [] false] false],
  .ifs [] (.bin ("!=".toList) (.id ("err".toList)) (.id ("nil".toList))) [
    .ret [.id ("err".toList)]] [],
  .ifs [.assign true [.id ("_".toList), .id ("err".toList)] [.call (.sel (.id ("w".toList)) ("Write".toList)) [.id ("formatted".toList)] false]] (.bin ("!=".toList) (.id ("err".toList)) (.id ("nil".toList))) [
    .ret [.id ("err".toList)]] [],
  .ret [.id ("nil".toList)]]

def formatProgParams : List Str := [("src".toList)]
def formatProg : List GS := [
  .switch (.sel (.sel (.id ("m".toList)) ("cfg".toList)) ("Formatter".toList)) [([.str ("goimports".toList)], [
    .ret [.call (.id ("goimports".toList)) [.id ("src".toList)] false]]), ([.str ("noop".toList)], [
    .ret [.id ("src".toList), .id ("nil".toList)]])],
  .ret [.call (.id ("gofmt".toList)) [.id ("src".toList)] false]]

def newProgParams : List Str := [("cfg".toList)]
def newProg : List GS := [
  .assign true [.id ("reg".toList), .id ("err".toList)] [.call (.sel (.id ("registry".toList)) ("New".toList)) [.sel (.id ("cfg".toList)) ("SrcDir".toList), .sel (.id ("cfg".toList)) ("PkgName".toList)] false],
  .ifs [] (.bin ("!=".toList) (.id ("err".toList)) (.id ("nil".toList))) [
    .ret [.id ("nil".toList), .id ("err".toList)]] [],
  .assign true [.id ("tmpl".toList), .id ("err".toList)] [.call (.sel (.id ("template".toList)) ("New".toList)) [] false],
  .ifs [] (.bin ("!=".toList) (.id ("err".toList)) (.id ("nil".toList))) [
    .ret [.id ("nil".toList), .id ("err".toList)]] [],
  .ret [.un ("&".toList) (.comp ("Mocker".toList) [(("cfg".toList), .id ("cfg".toList)), (("registry".toList), .id ("reg".toList)), (("tmpl".toList), .id ("tmpl".toList))]), .id ("nil".toList)]]

def gofmtProgParams : List Str := [("src".toList)]
def gofmtProg : List GS := [
  .assign true [.id ("formatted".toList), .id ("err".toList)] [.call (.sel (.id ("format".toList)) ("Source".toList)) [.id ("src".toList)] false],
  .ifs [] (.bin ("!=".toList) (.id ("err".toList)) (.id ("nil".toList))) [
    .ret [.id ("nil".toList), .call (.sel (.id ("fmt".toList)) ("Errorf".toList)) [.str ("go/format: %s".toList), .id ("err".toList)] false]] [],
  .ret [.id ("formatted".toList), .id ("nil".toList)]]

def goimportsProgParams : List Str := [("src".toList)]
def goimportsProg : List GS := [
  .assign true [.id ("formatted".toList), .id ("err".toList)] [.call (.sel (.id ("imports".toList)) ("Process".toList)) [.str ("filename".toList), .id ("src".toList), .un ("&".toList) (.comp ("imports.Options".toList) [(("TabWidth".toList), .int 8), (("TabIndent".toList), .id ("true".toList)), (("Comments".toList), .id ("true".toList)), (("Fragment".toList), .id ("true".toList))])] false],
  .ifs [] (.bin ("!=".toList) (.id ("err".toList)) (.id ("nil".toList))) [
    .ret [.id ("nil".toList), .call (.sel (.id ("fmt".toList)) ("Errorf".toList)) [.str ("goimports: %s".toList), .id ("err".toList)] false]] [],
  .ret [.id ("formatted".toList), .id ("nil".toList)]]

def lookupProgParams : List Str := [("name".toList)]
def lookupProg : List GS := [
  .assign true [.id ("obj".toList)] [.call (.sel (.call (.sel (.call (.sel (.id ("r".toList)) ("SrcPkg".toList)) [] false) ("Scope".toList)) [] false) ("Lookup".toList)) [.id ("name".toList)] false],
  .ifs [] (.bin ("==".toList) (.id ("obj".toList)) (.id ("nil".toList))) [
    .ret [.id ("nil".toList), .id ("nil".toList), .call (.sel (.id ("fmt".toList)) ("Errorf".toList)) [.str ("interface not found: %s".toList), .id ("name".toList)] false]] [],
  .ifs [.assign true [.id ("_".toList), .id ("ok".toList)] [.assert (.id ("obj".toList)) ("*types.TypeName".toList)]] (.bin ("||".toList) (.un ("!".toList) (.id ("ok".toList))) (.un ("!".toList) (.call (.sel (.id ("types".toList)) ("IsInterface".toList)) [.call (.sel (.id ("obj".toList)) ("Type".toList)) [] false] false))) [
    .ret [.id ("nil".toList), .id ("nil".toList), .call (.sel (.id ("fmt".toList)) ("Errorf".toList)) [.str ("%s (%s) is not an interface".toList), .id ("name".toList), .call (.sel (.id ("obj".toList)) ("Type".toList)) [] false] false]] [],
  .varDecl ("tparams".toList) ("*types.TypeParamList".toList) [],
  .assign true [.id ("named".toList), .id ("ok".toList)] [.assert (.call (.sel (.id ("obj".toList)) ("Type".toList)) [] false) ("*types.Named".toList)],
  .ifs [] (.id ("ok".toList)) [
    .assign false [.id ("tparams".toList)] [.call (.sel (.id ("named".toList)) ("TypeParams".toList)) [] false]] [],
  .ret [.call (.sel (.assert (.call (.sel (.call (.sel (.id ("obj".toList)) ("Type".toList)) [] false) ("Underlying".toList)) [] false) ("*types.Interface".toList)) ("Complete".toList)) [] false, .id ("tparams".toList), .id ("nil".toList)]]

def registryNewProgParams : List Str := [("srcDir".toList), ("moqPkg".toList)]
def registryNewProg : List GS := [
  .assign true [.id ("srcPkg".toList), .id ("err".toList)] [.call (.id ("pkgInfoFromPath".toList)) [.id ("srcDir".toList), .bin ("|".toList) (.bin ("|".toList) (.sel (.id ("packages".toList)) ("NeedName".toList)) (.sel (.id ("packages".toList)) ("NeedSyntax".toList))) (.sel (.id ("packages".toList)) ("NeedTypes".toList))] false],
  .ifs [] (.bin ("!=".toList) (.id ("err".toList)) (.id ("nil".toList))) [
    .ret [.id ("nil".toList), .call (.sel (.id ("fmt".toList)) ("Errorf".toList)) [.str ("couldn't load source package: %s".toList), .id ("err".toList)] false]] [],
  .ret [.un ("&".toList) (.comp ("Registry".toList) [(("srcPkgName".toList), .sel (.id ("srcPkg".toList)) ("Name".toList)), (("srcPkgTypes".toList), .sel (.id ("srcPkg".toList)) ("Types".toList)), (("moqPkgPath".toList), .call (.id ("findPkgPath".toList)) [.id ("moqPkg".toList), .sel (.id ("srcPkg".toList)) ("PkgPath".toList)] false), (("aliases".toList), .call (.id ("parseImportsAliases".toList)) [.sel (.id ("srcPkg".toList)) ("Syntax".toList)] false), (("imports".toList), .call (.id ("make".toList)) [.lit ("type map[string]*Package".toList)] false)]), .id ("nil".toList)]]

def parseNameProgParams : List Str := [("namePair".toList)]
def parseNameProg : List GS := [
  .assign true [.id ("parts".toList)] [.call (.sel (.id ("strings".toList)) ("SplitN".toList)) [.id ("namePair".toList), .str (":".toList), .int 2] false],
  .ifs [] (.bin ("==".toList) (.call (.id ("len".toList)) [.id ("parts".toList)] false) (.int 2)) [
    .ret [.idx (.id ("parts".toList)) (.int 0), .idx (.id ("parts".toList)) (.int 1)]] [],
  .assign false [.id ("ifaceName".toList)] [.idx (.id ("parts".toList)) (.int 0)],
  .ret [.id ("ifaceName".toList), .bin ("+".toList) (.id ("ifaceName".toList)) (.str ("Mock".toList))]]

/-- every reference into os, io/ioutil, os/exec, syscall, io/fs in moq's own non-test code: (file, function, symbol) -/
def fsCalls : List (Str × Str × Str) := [(("main.go".toList), ("main".toList), ("os.Exit".toList)),
  (("main.go".toList), ("main".toList), ("os.Stderr".toList)),
  (("main.go".toList), ("main".toList), ("os.Exit".toList)),
  (("main.go".toList), ("run".toList), ("os.Remove".toList)),
  (("main.go".toList), ("run".toList), ("os.ErrNotExist".toList)),
  (("main.go".toList), ("run".toList), ("os.Stdout".toList)),
  (("main.go".toList), ("run".toList), ("os.MkdirAll".toList)),
  (("main.go".toList), ("run".toList), ("os.WriteFile".toList))]

/-- references to sources of nondeterminism (time, math/rand, environment) -/
def nondetCalls : List (Str × Str × Str) := []

/-- where each Config field is read (`x.cfg.Field`): field ↦ file:function list -/
def cfgReads : List (Str × List Str) := [(("Formatter".toList), [("pkg/moq/moq.go:format".toList)]),
  (("PkgName".toList), [("pkg/moq/moq.go:mockPkgName".toList), ("pkg/moq/moq.go:mockPkgName".toList)]),
  (("SkipEnsure".toList), [("pkg/moq/moq.go:Mock".toList), ("pkg/moq/moq.go:Mock".toList)]),
  (("StubImpl".toList), [("pkg/moq/moq.go:Mock".toList)]),
  (("WithResets".toList), [("pkg/moq/moq.go:Mock".toList)])]

end Moq.Generated
