import MoqModel.Str
/- REGENERATED from /repo by extract/ on every run – do not edit. -/
namespace Moq.Generated

def reservedNames : List Str := [("mock".toList), ("callInfo".toList), ("break".toList), ("default".toList), ("func".toList), ("interface".toList), ("select".toList), ("case".toList), ("defer".toList), ("go".toList), ("map".toList), ("struct".toList), ("chan".toList), ("else".toList), ("goto".toList), ("package".toList), ("switch".toList), ("const".toList), ("fallthrough".toList), ("if".toList), ("range".toList), ("type".toList), ("continue".toList), ("for".toList), ("import".toList), ("return".toList), ("var".toList), ("string".toList), ("bool".toList), ("byte".toList), ("rune".toList), ("uintptr".toList), ("int".toList), ("int8".toList), ("int16".toList), ("int32".toList), ("int64".toList), ("uint".toList), ("uint8".toList), ("uint16".toList), ("uint32".toList), ("uint64".toList), ("float32".toList), ("float64".toList), ("complex64".toList), ("complex128".toList), ("error".toList), ("any".toList), ("nil".toList), ("append".toList), ("panic".toList)]

def initialisms : List Str := [("ACL".toList), ("API".toList), ("ASCII".toList), ("CPU".toList), ("CSS".toList), ("DNS".toList), ("EOF".toList), ("GUID".toList), ("HTML".toList), ("HTTP".toList), ("HTTPS".toList), ("ID".toList), ("IP".toList), ("JSON".toList), ("LHS".toList), ("QPS".toList), ("RAM".toList), ("RHS".toList), ("RPC".toList), ("SLA".toList), ("SMTP".toList), ("SQL".toList), ("SSH".toList), ("TCP".toList), ("TLS".toList), ("TTL".toList), ("UDP".toList), ("UI".toList), ("UID".toList), ("UUID".toList), ("URI".toList), ("URL".toList), ("UTF8".toList), ("VM".toList), ("XML".toList), ("XMPP".toList), ("XSRF".toList), ("XSS".toList)]

def replacerPairs : List (Str × Str) := [(("go-".toList), ("".toList)), (("-go".toList), ("".toList)), (("-".toList), ("".toList)), (("_".toList), ("".toList)), ((".".toList), ("".toList)), (("@".toList), ("".toList)), (("+".toList), ("".toList)), (("~".toList), ("".toList))]

def moqParamSuffix : Str := ("MoqParam".toList)
def outSuffix : Str := ("Out".toList)
def vendorSep : Str := ("/vendor/".toList)

end Moq.Generated
