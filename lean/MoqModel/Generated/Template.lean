import MoqModel.Tmpl
/- REGENERATED from /repo by extract/ on every run – do not edit. -/
namespace Moq.Generated
open Moq.Tmpl

def tl0 : List Node := [
  .text ("\n\t".toList),
  .action ⟨[], [⟨[.dot]⟩, ⟨[.ident ("ImportStatement".toList)]⟩]⟩]

def tl1 : List Node := [
  .text (", ".toList)]

def tl2 : List Node := [
  .action ⟨[], [⟨[.var ("$param".toList) [("Constraint".toList), ("String".toList)]]⟩]⟩]

def tl3 : List Node := [
  .action ⟨[], [⟨[.var ("$param".toList) [("TypeString".toList)]]⟩]⟩]

def tl4 : List Node := [
  .ite ⟨[], [⟨[.var ("$index".toList) []]⟩]⟩ tl1 [],
  .ite ⟨[], [⟨[.var ("$param".toList) [("Constraint".toList)]]⟩]⟩ tl2 tl3]

def tl5 : List Node := [
  .text ("[".toList),
  .range ⟨[("$index".toList), ("$param".toList)], [⟨[.field [("TypeParams".toList)]]⟩]⟩ tl4 [],
  .text ("]".toList)]

def tl6 : List Node := [
  .text (", ".toList)]

def tl7 : List Node := [
  .action ⟨[], [⟨[.var ("$param".toList) [("Constraint".toList), ("String".toList)]]⟩]⟩]

def tl8 : List Node := [
  .action ⟨[], [⟨[.var ("$param".toList) [("TypeString".toList)]]⟩]⟩]

def tl9 : List Node := [
  .ite ⟨[], [⟨[.var ("$index".toList) []]⟩]⟩ tl6 [],
  .ite ⟨[], [⟨[.var ("$param".toList) [("Constraint".toList)]]⟩]⟩ tl7 tl8]

def tl10 : List Node := [
  .text ("[".toList),
  .range ⟨[("$index".toList), ("$param".toList)], [⟨[.field [("TypeParams".toList)]]⟩]⟩ tl9 [],
  .text ("]".toList)]

def tl11 : List Node := [
  .text ("// Ensure, that ".toList),
  .action ⟨[], [⟨[.field [("MockName".toList)]]⟩]⟩,
  .text (" does implement ".toList),
  .action ⟨[], [⟨[.var ("$".toList) [("SrcPkgQualifier".toList)]]⟩]⟩,
  .action ⟨[], [⟨[.field [("InterfaceName".toList)]]⟩]⟩,
  .text (".\n// If this is not the case, regenerate this file with moq.\nvar _ ".toList),
  .action ⟨[], [⟨[.var ("$".toList) [("SrcPkgQualifier".toList)]]⟩]⟩,
  .action ⟨[], [⟨[.field [("InterfaceName".toList)]]⟩]⟩,
  .ite ⟨[], [⟨[.field [("TypeParams".toList)]]⟩]⟩ tl5 [],
  .text (" = &".toList),
  .action ⟨[], [⟨[.field [("MockName".toList)]]⟩]⟩,
  .ite ⟨[], [⟨[.field [("TypeParams".toList)]]⟩]⟩ tl10 [],
  .text ("{}".toList)]

def tl12 : List Node := [
  .text ("\n//\t\t\t".toList),
  .action ⟨[], [⟨[.field [("Name".toList)]]⟩]⟩,
  .text ("Func: func(".toList),
  .action ⟨[], [⟨[.field [("ArgList".toList)]]⟩]⟩,
  .text (") ".toList),
  .action ⟨[], [⟨[.field [("ReturnArgTypeList".toList)]]⟩]⟩,
  .text (" {\n//\t\t\t\tpanic(\"mock out the ".toList),
  .action ⟨[], [⟨[.field [("Name".toList)]]⟩]⟩,
  .text (" method\")\n//\t\t\t},".toList)]

def tl13 : List Node := [
  .text (", ".toList)]

def tl14 : List Node := [
  .ite ⟨[], [⟨[.var ("$index".toList) []]⟩]⟩ tl13 [],
  .action ⟨[], [⟨[.var ("$param".toList) [("Name".toList)]]⟩]⟩,
  .text (" ".toList),
  .action ⟨[], [⟨[.var ("$param".toList) [("TypeString".toList)]]⟩]⟩]

def tl15 : List Node := [
  .text ("[".toList),
  .range ⟨[("$index".toList), ("$param".toList)], [⟨[.field [("TypeParams".toList)]]⟩]⟩ tl14 [],
  .text ("]".toList)]

def tl16 : List Node := [
  .text ("\n\t// ".toList),
  .action ⟨[], [⟨[.field [("Name".toList)]]⟩]⟩,
  .text ("Func mocks the ".toList),
  .action ⟨[], [⟨[.field [("Name".toList)]]⟩]⟩,
  .text (" method.\n\t".toList),
  .action ⟨[], [⟨[.field [("Name".toList)]]⟩]⟩,
  .text ("Func func(".toList),
  .action ⟨[], [⟨[.field [("ArgList".toList)]]⟩]⟩,
  .text (") ".toList),
  .action ⟨[], [⟨[.field [("ReturnArgTypeList".toList)]]⟩]⟩,
  .text ("\n".toList)]

def tl17 : List Node := [
  .text ("\n\t\t\t// ".toList),
  .action ⟨[], [⟨[.field [("Name".toList)]]⟩, ⟨[.ident ("Exported".toList)]⟩]⟩,
  .text (" is the ".toList),
  .action ⟨[], [⟨[.field [("Name".toList)]]⟩]⟩,
  .text (" argument value.\n\t\t\t".toList),
  .action ⟨[], [⟨[.field [("Name".toList)]]⟩, ⟨[.ident ("Exported".toList)]⟩]⟩,
  .text (" ".toList),
  .action ⟨[], [⟨[.field [("TypeString".toList)]]⟩]⟩]

def tl18 : List Node := [
  .text ("\n\t\t// ".toList),
  .action ⟨[], [⟨[.field [("Name".toList)]]⟩]⟩,
  .text (" holds details about calls to the ".toList),
  .action ⟨[], [⟨[.field [("Name".toList)]]⟩]⟩,
  .text (" method.\n\t\t".toList),
  .action ⟨[], [⟨[.field [("Name".toList)]]⟩]⟩,
  .text (" []struct {".toList),
  .range ⟨[], [⟨[.field [("Params".toList)]]⟩]⟩ tl17 [],
  .text ("\n\t\t}".toList)]

def tl19 : List Node := [
  .text ("\n\tlock".toList),
  .action ⟨[], [⟨[.field [("Name".toList)]]⟩]⟩,
  .text (" ".toList),
  .action ⟨[], [⟨[.var ("$".toList) [("Imports".toList)]]⟩, ⟨[.ident ("SyncPkgQualifier".toList)]⟩]⟩,
  .text (".RWMutex".toList)]

def tl20 : List Node := [
  .text (", ".toList)]

def tl21 : List Node := [
  .ite ⟨[], [⟨[.var ("$index".toList) []]⟩]⟩ tl20 [],
  .action ⟨[], [⟨[.var ("$param".toList) [("Name".toList)]]⟩]⟩]

def tl22 : List Node := [
  .text ("[".toList),
  .range ⟨[("$index".toList), ("$param".toList)], [⟨[.var ("$mock".toList) [("TypeParams".toList)]]⟩]⟩ tl21 [],
  .text ("]".toList)]

def tl23 : List Node := [
  .text ("\n\tif mock.".toList),
  .action ⟨[], [⟨[.field [("Name".toList)]]⟩]⟩,
  .text ("Func == nil {\n\t\tpanic(\"".toList),
  .action ⟨[], [⟨[.var ("$mock".toList) [("MockName".toList)]]⟩]⟩,
  .text (".".toList),
  .action ⟨[], [⟨[.field [("Name".toList)]]⟩]⟩,
  .text ("Func: method is nil but ".toList),
  .action ⟨[], [⟨[.var ("$mock".toList) [("InterfaceName".toList)]]⟩]⟩,
  .text (".".toList),
  .action ⟨[], [⟨[.field [("Name".toList)]]⟩]⟩,
  .text (" was just called\")\n\t}".toList)]

def tl24 : List Node := [
  .text ("\n\t\t".toList),
  .action ⟨[], [⟨[.field [("Name".toList)]]⟩, ⟨[.ident ("Exported".toList)]⟩]⟩,
  .text (" ".toList),
  .action ⟨[], [⟨[.field [("TypeString".toList)]]⟩]⟩]

def tl25 : List Node := [
  .text ("\n\t\t".toList),
  .action ⟨[], [⟨[.field [("Name".toList)]]⟩, ⟨[.ident ("Exported".toList)]⟩]⟩,
  .text (": ".toList),
  .action ⟨[], [⟨[.field [("Name".toList)]]⟩]⟩,
  .text (",".toList)]

def tl26 : List Node := [
  .text ("\n\t\t\t".toList),
  .action ⟨[], [⟨[.field [("Name".toList)]]⟩]⟩,
  .text (" ".toList),
  .action ⟨[], [⟨[.field [("TypeString".toList)]]⟩]⟩]

def tl27 : List Node := [
  .text ("\n\tif mock.".toList),
  .action ⟨[], [⟨[.field [("Name".toList)]]⟩]⟩,
  .text ("Func == nil {\n\t\tvar (".toList),
  .range ⟨[], [⟨[.field [("Returns".toList)]]⟩]⟩ tl26 [],
  .text ("\n\t\t)\n\t\treturn ".toList),
  .action ⟨[], [⟨[.field [("ReturnArgNameList".toList)]]⟩]⟩,
  .text ("\n\t}".toList)]

def tl28 : List Node := [
  .ite ⟨[], [⟨[.var ("$".toList) [("StubImpl".toList)]]⟩]⟩ tl27 [],
  .text ("\n\treturn mock.".toList),
  .action ⟨[], [⟨[.field [("Name".toList)]]⟩]⟩,
  .text ("Func(".toList),
  .action ⟨[], [⟨[.field [("ArgCallList".toList)]]⟩]⟩,
  .text (")".toList)]

def tl29 : List Node := [
  .text ("\n\tif mock.".toList),
  .action ⟨[], [⟨[.field [("Name".toList)]]⟩]⟩,
  .text ("Func == nil {\n\t\treturn\n\t}".toList)]

def tl30 : List Node := [
  .ite ⟨[], [⟨[.var ("$".toList) [("StubImpl".toList)]]⟩]⟩ tl29 [],
  .text ("\n\tmock.".toList),
  .action ⟨[], [⟨[.field [("Name".toList)]]⟩]⟩,
  .text ("Func(".toList),
  .action ⟨[], [⟨[.field [("ArgCallList".toList)]]⟩]⟩,
  .text (")".toList)]

def tl31 : List Node := [
  .text (", ".toList)]

def tl32 : List Node := [
  .ite ⟨[], [⟨[.var ("$index".toList) []]⟩]⟩ tl31 [],
  .action ⟨[], [⟨[.var ("$param".toList) [("Name".toList)]]⟩]⟩]

def tl33 : List Node := [
  .text ("[".toList),
  .range ⟨[("$index".toList), ("$param".toList)], [⟨[.var ("$mock".toList) [("TypeParams".toList)]]⟩]⟩ tl32 [],
  .text ("]".toList)]

def tl34 : List Node := [
  .text ("\n\t\t".toList),
  .action ⟨[], [⟨[.field [("Name".toList)]]⟩, ⟨[.ident ("Exported".toList)]⟩]⟩,
  .text (" ".toList),
  .action ⟨[], [⟨[.field [("TypeString".toList)]]⟩]⟩]

def tl35 : List Node := [
  .text ("\n\t\t".toList),
  .action ⟨[], [⟨[.field [("Name".toList)]]⟩, ⟨[.ident ("Exported".toList)]⟩]⟩,
  .text (" ".toList),
  .action ⟨[], [⟨[.field [("TypeString".toList)]]⟩]⟩]

def tl36 : List Node := [
  .text (", ".toList)]

def tl37 : List Node := [
  .ite ⟨[], [⟨[.var ("$index".toList) []]⟩]⟩ tl36 [],
  .action ⟨[], [⟨[.var ("$param".toList) [("Name".toList)]]⟩]⟩]

def tl38 : List Node := [
  .text ("[".toList),
  .range ⟨[("$index".toList), ("$param".toList)], [⟨[.var ("$mock".toList) [("TypeParams".toList)]]⟩]⟩ tl37 [],
  .text ("]".toList)]

def tl39 : List Node := [
  .text ("\n// Reset".toList),
  .action ⟨[], [⟨[.field [("Name".toList)]]⟩]⟩,
  .text ("Calls reset all the calls that were made to ".toList),
  .action ⟨[], [⟨[.field [("Name".toList)]]⟩]⟩,
  .text (".\nfunc (mock *".toList),
  .action ⟨[], [⟨[.var ("$mock".toList) [("MockName".toList)]]⟩]⟩,
  .ite ⟨[], [⟨[.var ("$mock".toList) [("TypeParams".toList)]]⟩]⟩ tl38 [],
  .text (") Reset".toList),
  .action ⟨[], [⟨[.field [("Name".toList)]]⟩]⟩,
  .text ("Calls() {\n\tmock.lock".toList),
  .action ⟨[], [⟨[.field [("Name".toList)]]⟩]⟩,
  .text (".Lock()\n\tmock.calls.".toList),
  .action ⟨[], [⟨[.field [("Name".toList)]]⟩]⟩,
  .text (" = nil\n\tmock.lock".toList),
  .action ⟨[], [⟨[.field [("Name".toList)]]⟩]⟩,
  .text (".Unlock()\n}\n".toList)]

def tl40 : List Node := [
  .text ("\n// ".toList),
  .action ⟨[], [⟨[.field [("Name".toList)]]⟩]⟩,
  .text (" calls ".toList),
  .action ⟨[], [⟨[.field [("Name".toList)]]⟩]⟩,
  .text ("Func.\nfunc (mock *".toList),
  .action ⟨[], [⟨[.var ("$mock".toList) [("MockName".toList)]]⟩]⟩,
  .ite ⟨[], [⟨[.var ("$mock".toList) [("TypeParams".toList)]]⟩]⟩ tl22 [],
  .text (") ".toList),
  .action ⟨[], [⟨[.field [("Name".toList)]]⟩]⟩,
  .text ("(".toList),
  .action ⟨[], [⟨[.field [("ArgList".toList)]]⟩]⟩,
  .text (") ".toList),
  .action ⟨[], [⟨[.field [("ReturnArgTypeList".toList)]]⟩]⟩,
  .text (" {".toList),
  .ite ⟨[], [⟨[.ident ("not".toList), .var ("$".toList) [("StubImpl".toList)]]⟩]⟩ tl23 [],
  .text ("\n\tcallInfo := struct {".toList),
  .range ⟨[], [⟨[.field [("Params".toList)]]⟩]⟩ tl24 [],
  .text ("\n\t}{".toList),
  .range ⟨[], [⟨[.field [("Params".toList)]]⟩]⟩ tl25 [],
  .text ("\n\t}\n\tmock.lock".toList),
  .action ⟨[], [⟨[.field [("Name".toList)]]⟩]⟩,
  .text (".Lock()\n\tmock.calls.".toList),
  .action ⟨[], [⟨[.field [("Name".toList)]]⟩]⟩,
  .text (" = append(mock.calls.".toList),
  .action ⟨[], [⟨[.field [("Name".toList)]]⟩]⟩,
  .text (", callInfo)\n\tmock.lock".toList),
  .action ⟨[], [⟨[.field [("Name".toList)]]⟩]⟩,
  .text (".Unlock()".toList),
  .ite ⟨[], [⟨[.field [("Returns".toList)]]⟩]⟩ tl28 tl30,
  .text ("\n}\n\n// ".toList),
  .action ⟨[], [⟨[.field [("Name".toList)]]⟩]⟩,
  .text ("Calls gets all the calls that were made to ".toList),
  .action ⟨[], [⟨[.field [("Name".toList)]]⟩]⟩,
  .text (".\n// Check the length with:\n//\n//\tlen(mocked".toList),
  .action ⟨[], [⟨[.var ("$mock".toList) [("InterfaceName".toList)]]⟩]⟩,
  .text (".".toList),
  .action ⟨[], [⟨[.field [("Name".toList)]]⟩]⟩,
  .text ("Calls())\nfunc (mock *".toList),
  .action ⟨[], [⟨[.var ("$mock".toList) [("MockName".toList)]]⟩]⟩,
  .ite ⟨[], [⟨[.var ("$mock".toList) [("TypeParams".toList)]]⟩]⟩ tl33 [],
  .text (") ".toList),
  .action ⟨[], [⟨[.field [("Name".toList)]]⟩]⟩,
  .text ("Calls() []struct {".toList),
  .range ⟨[], [⟨[.field [("Params".toList)]]⟩]⟩ tl34 [],
  .text ("\n\t} {\n\tvar calls []struct {".toList),
  .range ⟨[], [⟨[.field [("Params".toList)]]⟩]⟩ tl35 [],
  .text ("\n\t}\n\tmock.lock".toList),
  .action ⟨[], [⟨[.field [("Name".toList)]]⟩]⟩,
  .text (".RLock()\n\tcalls = mock.calls.".toList),
  .action ⟨[], [⟨[.field [("Name".toList)]]⟩]⟩,
  .text ("\n\tmock.lock".toList),
  .action ⟨[], [⟨[.field [("Name".toList)]]⟩]⟩,
  .text (".RUnlock()\n\treturn calls\n}".toList),
  .ite ⟨[], [⟨[.var ("$".toList) [("WithResets".toList)]]⟩]⟩ tl39 [],
  .text ("\n".toList)]

def tl41 : List Node := [
  .text (", ".toList)]

def tl42 : List Node := [
  .ite ⟨[], [⟨[.var ("$index".toList) []]⟩]⟩ tl41 [],
  .action ⟨[], [⟨[.var ("$param".toList) [("Name".toList)]]⟩]⟩]

def tl43 : List Node := [
  .text ("[".toList),
  .range ⟨[("$index".toList), ("$param".toList)], [⟨[.var ("$mock".toList) [("TypeParams".toList)]]⟩]⟩ tl42 [],
  .text ("]".toList)]

def tl44 : List Node := [
  .text ("\n\tmock.lock".toList),
  .action ⟨[], [⟨[.field [("Name".toList)]]⟩]⟩,
  .text (".Lock()\n\tmock.calls.".toList),
  .action ⟨[], [⟨[.field [("Name".toList)]]⟩]⟩,
  .text (" = nil\n\tmock.lock".toList),
  .action ⟨[], [⟨[.field [("Name".toList)]]⟩]⟩,
  .text (".Unlock()\n\t".toList)]

def tl45 : List Node := [
  .text ("\n// ResetCalls reset all the calls that were made to all mocked methods.\nfunc (mock *".toList),
  .action ⟨[], [⟨[.var ("$mock".toList) [("MockName".toList)]]⟩]⟩,
  .ite ⟨[], [⟨[.var ("$mock".toList) [("TypeParams".toList)]]⟩]⟩ tl43 [],
  .text (") ResetCalls() {".toList),
  .range ⟨[], [⟨[.field [("Methods".toList)]]⟩]⟩ tl44 [],
  .text ("}\n".toList)]

def tl46 : List Node := [
  .ite ⟨[], [⟨[.ident ("not".toList), .var ("$".toList) [("SkipEnsure".toList)]]⟩]⟩ tl11 [],
  .text ("\n\n// ".toList),
  .action ⟨[], [⟨[.field [("MockName".toList)]]⟩]⟩,
  .text (" is a mock implementation of ".toList),
  .action ⟨[], [⟨[.var ("$".toList) [("SrcPkgQualifier".toList)]]⟩]⟩,
  .action ⟨[], [⟨[.field [("InterfaceName".toList)]]⟩]⟩,
  .text (".\n//\n//\tfunc TestSomethingThatUses".toList),
  .action ⟨[], [⟨[.field [("InterfaceName".toList)]]⟩]⟩,
  .text ("(t *testing.T) {\n//\n//\t\t// make and configure a mocked ".toList),
  .action ⟨[], [⟨[.var ("$".toList) [("SrcPkgQualifier".toList)]]⟩]⟩,
  .action ⟨[], [⟨[.field [("InterfaceName".toList)]]⟩]⟩,
  .text ("\n//\t\tmocked".toList),
  .action ⟨[], [⟨[.field [("InterfaceName".toList)]]⟩]⟩,
  .text (" := &".toList),
  .action ⟨[], [⟨[.field [("MockName".toList)]]⟩]⟩,
  .text ("{".toList),
  .range ⟨[], [⟨[.field [("Methods".toList)]]⟩]⟩ tl12 [],
  .text ("\n//\t\t}\n//\n//\t\t// use mocked".toList),
  .action ⟨[], [⟨[.field [("InterfaceName".toList)]]⟩]⟩,
  .text (" in code that requires ".toList),
  .action ⟨[], [⟨[.var ("$".toList) [("SrcPkgQualifier".toList)]]⟩]⟩,
  .action ⟨[], [⟨[.field [("InterfaceName".toList)]]⟩]⟩,
  .text ("\n//\t\t// and then make assertions.\n//\n//\t}\ntype ".toList),
  .action ⟨[], [⟨[.field [("MockName".toList)]]⟩]⟩,
  .ite ⟨[], [⟨[.field [("TypeParams".toList)]]⟩]⟩ tl15 [],
  .text (" struct {".toList),
  .range ⟨[], [⟨[.field [("Methods".toList)]]⟩]⟩ tl16 [],
  .text ("\n\t// calls tracks calls to the methods.\n\tcalls struct {".toList),
  .range ⟨[], [⟨[.field [("Methods".toList)]]⟩]⟩ tl18 [],
  .text ("\n\t}".toList),
  .range ⟨[], [⟨[.field [("Methods".toList)]]⟩]⟩ tl19 [],
  .text ("\n}\n".toList),
  .range ⟨[], [⟨[.field [("Methods".toList)]]⟩]⟩ tl40 [],
  .ite ⟨[], [⟨[.var ("$".toList) [("WithResets".toList)]]⟩]⟩ tl45 []]

def tl47 : List Node := [
  .text ("// Code generated by moq; DO NOT EDIT.\n// github.com/matryer/moq\n\npackage ".toList),
  .action ⟨[], [⟨[.field [("PkgName".toList)]]⟩]⟩,
  .text ("\n\nimport (".toList),
  .range ⟨[], [⟨[.field [("Imports".toList)]]⟩]⟩ tl0 [],
  .text ("\n)\n\n".toList),
  .range ⟨[("$i".toList), ("$mock".toList)], [⟨[.field [("Mocks".toList)]]⟩]⟩ tl46 []]

def moqTemplate : List Node := tl47

/-- the raw template text -/
def moqTemplateText : Str := ("// Code generated by moq; DO NOT EDIT.\n// github.com/matryer/moq\n\npackage {{.PkgName}}\n\nimport (\n{{- range .Imports}}\n\t{{. | ImportStatement}}\n{{- end}}\n)\n\n{{range $i, $mock := .Mocks -}}\n\n{{- if not $.SkipEnsure -}}\n// Ensure, that {{.MockName}} does implement {{$.SrcPkgQualifier}}{{.InterfaceName}}.\n// If this is not the case, regenerate this file with moq.\nvar _ {{$.SrcPkgQualifier}}{{.InterfaceName -}}\n\t{{- if .TypeParams }}[\n\t\t{{- range $index, $param := .TypeParams}}\n\t\t\t{{- if $index}}, {{end -}}\n\t\t\t{{if $param.Constraint}}{{$param.Constraint.String}}{{else}}{{$param.TypeString}}{{end}}\n\t\t{{- end -}}\n\t\t]\n\t{{- end }} = &{{.MockName}}\n\t {{- if .TypeParams }}[\n\t\t{{- range $index, $param := .TypeParams}}\n\t\t\t{{- if $index}}, {{end -}}\n\t\t\t{{if $param.Constraint}}{{$param.Constraint.String}}{{else}}{{$param.TypeString}}{{end}}\n\t\t{{- end -}}\n\t\t]\n\t{{- end -}}\n{}\n{{- end}}\n\n// {{.MockName}} is a mock implementation of {{$.SrcPkgQualifier}}{{.InterfaceName}}.\n//\n//\tfunc TestSomethingThatUses{{.InterfaceName}}(t *testing.T) {\n//\n//\t\t// make and configure a mocked {{$.SrcPkgQualifier}}{{.InterfaceName}}\n//\t\tmocked{{.InterfaceName}} := &{{.MockName}}{\n\t\t\t{{- range .Methods}}\n//\t\t\t{{.Name}}Func: func({{.ArgList}}) {{.ReturnArgTypeList}} {\n//\t\t\t\tpanic(\"mock out the {{.Name}} method\")\n//\t\t\t},\n\t\t\t{{- end}}\n//\t\t}\n//\n//\t\t// use mocked{{.InterfaceName}} in code that requires {{$.SrcPkgQualifier}}{{.InterfaceName}}\n//\t\t// and then make assertions.\n//\n//\t}\ntype {{.MockName}}\n{{- if .TypeParams -}}\n\t[{{- range $index, $param := .TypeParams}}\n\t\t\t{{- if $index}}, {{end}}{{$param.Name}} {{$param.TypeString}}\n\t{{- end -}}]\n{{- end }} struct {\n{{- range .Methods}}\n\t// {{.Name}}Func mocks the {{.Name}} method.\n\t{{.Name}}Func func({{.ArgList}}) {{.ReturnArgTypeList}}\n{{end}}\n\t// calls tracks calls to the methods.\n\tcalls struct {\n{{- range .Methods}}\n\t\t// {{.Name}} holds details about calls to the {{.Name}} method.\n\t\t{{.Name}} []struct {\n\t\t\t{{- range .Params}}\n\t\t\t// {{.Name | Exported}} is the {{.Name}} argument value.\n\t\t\t{{.Name | Exported}} {{.TypeString}}\n\t\t\t{{- end}}\n\t\t}\n{{- end}}\n\t}\n{{- range .Methods}}\n\tlock{{.Name}} {{$.Imports | SyncPkgQualifier}}.RWMutex\n{{- end}}\n}\n{{range .Methods}}\n// {{.Name}} calls {{.Name}}Func.\nfunc (mock *{{$mock.MockName}}\n{{- if $mock.TypeParams -}}\n\t[{{- range $index, $param := $mock.TypeParams}}\n\t\t{{- if $index}}, {{end}}{{$param.Name}}\n\t{{- end -}}]\n{{- end -}}\n) {{.Name}}({{.ArgList}}) {{.ReturnArgTypeList}} {\n{{- if not $.StubImpl}}\n\tif mock.{{.Name}}Func == nil {\n\t\tpanic(\"{{$mock.MockName}}.{{.Name}}Func: method is nil but {{$mock.InterfaceName}}.{{.Name}} was just called\")\n\t}\n{{- end}}\n\tcallInfo := struct {\n\t\t{{- range .Params}}\n\t\t{{.Name | Exported}} {{.TypeString}}\n\t\t{{- end}}\n\t}{\n\t\t{{- range .Params}}\n\t\t{{.Name | Exported}}: {{.Name}},\n\t\t{{- end}}\n\t}\n\tmock.lock{{.Name}}.Lock()\n\tmock.calls.{{.Name}} = append(mock.calls.{{.Name}}, callInfo)\n\tmock.lock{{.Name}}.Unlock()\n{{- if .Returns}}\n\t{{- if $.StubImpl}}\n\tif mock.{{.Name}}Func == nil {\n\t\tvar (\n\t\t{{- range .Returns}}\n\t\t\t{{.Name}} {{.TypeString}}\n\t\t{{- end}}\n\t\t)\n\t\treturn {{.ReturnArgNameList}}\n\t}\n\t{{- end}}\n\treturn mock.{{.Name}}Func({{.ArgCallList}})\n{{- else}}\n\t{{- if $.StubImpl}}\n\tif mock.{{.Name}}Func == nil {\n\t\treturn\n\t}\n\t{{- end}}\n\tmock.{{.Name}}Func({{.ArgCallList}})\n{{- end}}\n}\n\n// {{.Name}}Calls gets all the calls that were made to {{.Name}}.\n// Check the length with:\n//\n//\tlen(mocked{{$mock.InterfaceName}}.{{.Name}}Calls())\nfunc (mock *{{$mock.MockName}}\n{{- if $mock.TypeParams -}}\n\t[{{- range $index, $param := $mock.TypeParams}}\n\t\t{{- if $index}}, {{end}}{{$param.Name}}\n\t{{- end -}}]\n{{- end -}}\n) {{.Name}}Calls() []struct {\n\t\t{{- range .Params}}\n\t\t{{.Name | Exported}} {{.TypeString}}\n\t\t{{- end}}\n\t} {\n\tvar calls []struct {\n\t\t{{- range .Params}}\n\t\t{{.Name | Exported}} {{.TypeString}}\n\t\t{{- end}}\n\t}\n\tmock.lock{{.Name}}.RLock()\n\tcalls = mock.calls.{{.Name}}\n\tmock.lock{{.Name}}.RUnlock()\n\treturn calls\n}\n{{- if $.WithResets}}\n// Reset{{.Name}}Calls reset all the calls that were made to {{.Name}}.\nfunc (mock *{{$mock.MockName}}\n{{- if $mock.TypeParams -}}\n\t[{{- range $index, $param := $mock.TypeParams}}\n\t\t{{- if $index}}, {{end}}{{$param.Name}}\n\t{{- end -}}]\n{{- end -}}\n) Reset{{.Name}}Calls() {\n\tmock.lock{{.Name}}.Lock()\n\tmock.calls.{{.Name}} = nil\n\tmock.lock{{.Name}}.Unlock()\n}\n{{end}}\n{{end -}}\n{{- if $.WithResets}}\n// ResetCalls reset all the calls that were made to all mocked methods.\nfunc (mock *{{$mock.MockName}}\n{{- if $mock.TypeParams -}}\n\t[{{- range $index, $param := $mock.TypeParams}}\n\t\t{{- if $index}}, {{end}}{{$param.Name}}\n\t{{- end -}}]\n{{- end -}}\n) ResetCalls() {\n\t{{- range .Methods}}\n\tmock.lock{{.Name}}.Lock()\n\tmock.calls.{{.Name}} = nil\n\tmock.lock{{.Name}}.Unlock()\n\t{{end -}}\n}\n{{end -}}\n{{end -}}\n".toList)

end Moq.Generated
