import MoqModel.GlueFacts
/-
  GlueDispatch: what a function does as a function of ONE string-valued selector (here
  `m.cfg.Formatter`), whatever syntax it uses to look at it – a `switch` with string cases, an
  `if`/`else if` chain of `==`/`!=` comparisons, nested or not.  The function is compiled to a
  decision list: (literal ↦ functions called on the path taken when the selector equals that
  literal) plus the functions called for every other value.  `none`: the function looks at
  something else, or uses a construct outside this subset.
-/
namespace Moq.Glue
open Moq

abbrev Table := List (Str × List Str) × List Str

def Table.eval (t : Table) (v : Str) : List Str :=
  match t.1.find? (·.1 = v) with
  | some (_, c) => c
  | none => t.2

/-- `sel == "lit"` / `"lit" == sel` / `!=`: the literal, and whether the test is an equality -/
def selTest (sel : Str) : GE → Option (Str × Bool)
  | .bin op a b =>
    let isEq := op = s%"=="
    if op = s%"==" ∨ op = s%"!=" then
      match a, b with
      | x, .str s => if dotted x = some sel then some (s, isEq) else none
      | .str s, x => if dotted x = some sel then some (s, isEq) else none
      | _, _ => none
    else none
  | _ => none

/-- labels of the cases in order, each with its body; a case without labels is `default` -/
def caseTable (go : List GS → Option Table) (rest : List GS) :
    List (List GE × List GS) → Option (List (Str × List Str) × Option (List GS))
  | [] => some ([], none)
  | (ls, body) :: cs => do
    let (tbl, dflt) ← caseTable go rest cs
    if ls.isEmpty then pure (tbl, some body)
    else
      let t ← go (body ++ rest)
      pure ((strLits ls).map (fun l => (l, t.eval l)) ++ tbl, dflt)

def dispatchTable (sel : Str) : Nat → List GS → Option Table
  | 0, _ => none
  | _, [] => some ([], [])
  | fuel + 1, .ret es :: _ => some ([], callsL es)
  | fuel + 1, .expr e :: rest => (dispatchTable sel fuel rest).map fun t =>
      (t.1.map fun (l, c) => (l, callsE e ++ c), callsE e ++ t.2)
  | fuel + 1, .ifs [] cond thn els :: rest =>
    match selTest sel cond with
    | some (s, true) => do
      let t ← dispatchTable sel fuel (thn ++ rest)
      let e ← dispatchTable sel fuel (els ++ rest)
      pure ((s, t.eval s) :: e.1, e.2)
    | some (s, false) => do
      let t ← dispatchTable sel fuel (thn ++ rest)
      let e ← dispatchTable sel fuel (els ++ rest)
      pure ((s, e.eval s) :: t.1, t.2)
    | none => none
  | fuel + 1, .switch tag cases :: rest =>
    if dotted tag = some sel ∧ cases.all (fun c => c.1.all fun l => match l with | .str _ => true | _ => false) then do
      let (tbl, dflt) ← caseTable (dispatchTable sel fuel) rest cases
      let d ← dispatchTable sel fuel ((dflt.getD []) ++ rest)
      pure (tbl ++ d.1, d.2)
    else none
  | fuel + 1, .block body :: rest => dispatchTable sel fuel (body ++ rest)
  | _, _ => none

end Moq.Glue
