import MoqModel.Render
import MoqModel.GoFile
/-
  Bridge (part 1): symbolic execution of the *regenerated* template `Generated.moqTemplate`
  on arbitrary template data.  One lemma per node list (`tlN`): for every environment that
  binds `$` (and `$mock`), executing the list on the encoded data yields a closed-form text.
  The last lemma, `exec_tl47`, is the whole template: for all data it prints `fileText d`.

  The lemma names follow the numbering of `Generated/Template.lean`; an edit of the template
  renumbers the lists and this module stops building - the bridge is then reported as not
  proved and the per-input comparison (`gf = eq`) remains as the tie (DESIGN.md 4.3).
-/
namespace Moq
open Tmpl Generated

/-! generic lemmas about the interpreter -/

def joinIdx {α} (f : Nat → α → Str) : Nat → List α → Str
  | _, [] => []
  | i, a :: as => f i a ++ joinIdx f (i + 1) as

theorem rangeLoop_map {α} (toV : α → Val) (body : Env → Val → Option Str) (env : Env) (decl : List Str)
    (f : Nat → α → Str) :
    ∀ (l : List α) (i : Nat), (∀ j a, a ∈ l → body (bindEnv decl j (toV a) env) (toV a) = some (f j a)) →
      rangeLoop body env decl i (l.map toV) = some (joinIdx f i l) := by
  intro l
  induction l with
  | nil => intro i _; rfl
  | cons a as ih =>
    intro i h
    simp only [List.map_cons, rangeLoop, joinIdx]
    have h1 := h i a List.mem_cons_self
    have h2 := ih (i + 1) (fun j b hb => h j b (List.mem_cons_of_mem _ hb))
    rw [h1, h2]
    rfl

theorem exec_range_map {α} (toV : α → Val) (l : List α) (env : Env) (dot : Val) (p : Pipe) (body : List Node)
    (f : Nat → α → Str)
    (hp : evalPipe env dot p = some (.list (l.map toV)))
    (hb : ∀ j a, a ∈ l → execList (bindEnv p.decl j (toV a) env) (toV a) body = some (f j a)) :
    exec env dot (.range p body []) = some (joinIdx f 0 l) := by
  simp only [exec, hp, Option.bind_some]
  cases l with
  | nil => simp [execList, joinIdx]
  | cons a as =>
    simp only [List.map_cons]
    have := rangeLoop_map toV (fun e d => execList e d body) env p.decl f (a :: as) 0 hb
    simpa using this

theorem joinIdx_const {α} (g : α → Str) : ∀ (l : List α) (i : Nat), joinIdx (fun _ a => g a) i l = (l.map g).flatten
  | [], _ => rfl
  | a :: as, i => by simp [joinIdx, joinIdx_const g as (i + 1)]

theorem joinIdx_sep {α} (sep : Str) (g : α → Str) :
    ∀ (l : List α) (i : Nat), joinIdx (fun j a => (if j = 0 then [] else sep) ++ g a) (i + 1) l =
      (l.map fun a => sep ++ g a).flatten
  | [], _ => rfl
  | a :: as, i => by simp [joinIdx, joinIdx_sep sep g as (i + 1)]

theorem join_cons_flatten (sep : Str) : ∀ (x : Str) (xs : List Str), Str.join sep (x :: xs) = x ++ (xs.map (sep ++ ·)).flatten
  | x, [] => by simp [Str.join]
  | x, y :: ys => by
    have := join_cons_flatten sep y ys
    simp [Str.join, this, List.append_assoc]

theorem joinIdx_join {α} (sep : Str) (g : α → Str) (l : List α) :
    joinIdx (fun j a => (if j = 0 then [] else sep) ++ g a) 0 l = Str.join sep (l.map g) := by
  cases l with
  | nil => rfl
  | cons a as =>
    simp only [joinIdx, List.map_cons, join_cons_flatten]
    rw [joinIdx_sep sep g as 0]
    simp [List.map_map, Function.comp_def]

/-! total encoders (no `Option`: the argument list is given) -/

def methV (m : MethodD) (al : Str) : Val :=
  .obj [(s%"Name", strV m.name),
        (s%"Params", .list (m.params.map ParamD.toVal)),
        (s%"Returns", .list (m.returns.map ParamD.toVal)),
        (s%"ArgList", strV al),
        (s%"ArgCallList", strV m.argCallList),
        (s%"ReturnArgTypeList", strV m.returnArgTypeList),
        (s%"ReturnArgNameList", strV m.returnArgNameList)]

def MethodD.toValT (m : MethodD) : Val := methV m (m.argList.getD [])

def MockD.toValT (m : MockD) : Val :=
  .obj [(s%"InterfaceName", strV m.ifaceName), (s%"MockName", strV m.mockName),
        (s%"TypeParams", .list (m.tparams.map TParamD.toVal)),
        (s%"Methods", .list (m.methods.map MethodD.toValT))]

def Data.toValT (d : Data) : Val :=
  .obj [(s%"PkgName", strV d.pkgName), (s%"SrcPkgQualifier", strV d.srcPkgQualifier),
        (s%"Imports", .list (d.imports.map ImportD.toVal)),
        (s%"Mocks", .list (d.mocks.map MockD.toValT)),
        (s%"StubImpl", .bool d.stub), (s%"SkipEnsure", .bool d.skip), (s%"WithResets", .bool d.resets)]

/-! leaves -/

theorem exec_tl0 (env : Env) (i : ImportD) :
    execList env (ImportD.toVal i) tl0 = some (s%"\n\t" ++ importStatement i) := by
  simp [tl0, execList, exec, evalPipe, evalCmd, evalArg, callFn, ImportD.toVal, getField, getPath, printVal, importStatement, strV]

/-- a record field line: `\n\t\tName T` (tl24, tl34, tl35) -/
theorem exec_tl24 (env : Env) (p : ParamD) :
    execList env (ParamD.toVal p) tl24 = some (s%"\n\t\t" ++ exported p.name ++ s%" " ++ p.typeStr) := by
  simp [tl24, execList, exec, evalPipe, evalCmd, evalArg, callFn, ParamD.toVal, getField, getPath, printVal, strV]

theorem tl34_eq : tl34 = tl24 := rfl
theorem tl35_eq : tl35 = tl24 := rfl

theorem exec_tl25 (env : Env) (p : ParamD) :
    execList env (ParamD.toVal p) tl25 = some (s%"\n\t\t" ++ exported p.name ++ s%": " ++ p.name ++ s%",") := by
  simp [tl25, execList, exec, evalPipe, evalCmd, evalArg, callFn, ParamD.toVal, getField, getPath, printVal, strV]

theorem exec_tl26 (env : Env) (p : ParamD) :
    execList env (ParamD.toVal p) tl26 = some (s%"\n\t\t\t" ++ p.name ++ s%" " ++ p.typeStr) := by
  simp [tl26, execList, exec, evalPipe, evalCmd, evalArg, callFn, ParamD.toVal, getField, getPath, printVal, strV]

theorem exec_tl17 (env : Env) (p : ParamD) :
    execList env (ParamD.toVal p) tl17 =
      some (s%"\n\t\t\t// " ++ exported p.name ++ s%" is the " ++ p.name ++ s%" argument value.\n\t\t\t" ++
            exported p.name ++ s%" " ++ p.typeStr) := by
  simp [tl17, execList, exec, evalPipe, evalCmd, evalArg, callFn, ParamD.toVal, getField, getPath, printVal, strV]

theorem lookupVar_cons (k n : Str) (v : Val) (env : Env) :
    lookupVar ((k, v) :: env) n = if k = n then some v else lookupVar env n := by
  unfold lookupVar
  simp only [List.find?_cons]
  by_cases h : k = n <;> simp [h]

syntax "tsimp" ("[" Lean.Parser.Tactic.simpLemma,* "]")? : tactic
macro_rules
  | `(tactic| tsimp) =>
    `(tactic| simp [execList, exec, evalPipe, evalCmd, evalArg, callFn, getField, getPath, printVal, strV,
                  lookupVar_cons, truth, bindEnv, ParamD.toVal, TParamD.toVal, ImportD.toVal, methV, MockD.toValT,
                  Data.toValT, MethodD.toValT])
  | `(tactic| tsimp [$ls,*]) =>
    `(tactic| simp [execList, exec, evalPipe, evalCmd, evalArg, callFn, getField, getPath, printVal, strV,
                  lookupVar_cons, truth, bindEnv, ParamD.toVal, TParamD.toVal, ImportD.toVal, methV, MockD.toValT,
                  Data.toValT, MethodD.toValT, $ls,*])

/-! specialised range lemmas -/

theorem range_params (env : Env) (m : MethodD) (al : Str) (body : List Node) (g : ParamD → Str)
    (hb : ∀ env' p, execList env' (ParamD.toVal p) body = some (g p)) :
    exec env (methV m al) (.range ⟨[], [⟨[.field [("Params".toList)]]⟩]⟩ body []) =
      some ((m.params.map g).flatten) := by
  rw [exec_range_map ParamD.toVal m.params env _ _ body (fun _ p => g p) (by tsimp) (fun j a _ => hb _ a)]
  rw [joinIdx_const]

theorem range_returns (env : Env) (m : MethodD) (al : Str) (body : List Node) (g : ParamD → Str)
    (hb : ∀ env' p, execList env' (ParamD.toVal p) body = some (g p)) :
    exec env (methV m al) (.range ⟨[], [⟨[.field [("Returns".toList)]]⟩]⟩ body []) =
      some ((m.returns.map g).flatten) := by
  rw [exec_range_map ParamD.toVal m.returns env _ _ body (fun _ p => g p) (by tsimp) (fun j a _ => hb _ a)]
  rw [joinIdx_const]

theorem range_methods (env : Env) (mk : MockD) (body : List Node) (g : MethodD → Str)
    (hb : ∀ m, m ∈ mk.methods → execList env (MethodD.toValT m) body = some (g m)) :
    exec env (MockD.toValT mk) (.range ⟨[], [⟨[.field [("Methods".toList)]]⟩]⟩ body []) =
      some ((mk.methods.map g).flatten) := by
  rw [exec_range_map MethodD.toValT mk.methods env _ _ body (fun _ p => g p) (by tsimp)
        (fun j a ha => by simpa [bindEnv] using hb a ha)]
  rw [joinIdx_const]

/-- `{{range $index, $param := <TypeParams>}}{{if $index}}, {{end}}…{{end}}` -/
theorem range_tparams (env : Env) (dot : Val) (p : Pipe) (tps : List TParamD) (body : List Node) (g : TParamD → Str)
    (hd : p.decl = [s%"$index", s%"$param"])
    (hp : evalPipe env dot p = some (.list (tps.map TParamD.toVal)))
    (hb : ∀ j t, execList ((s%"$index", .int j) :: (s%"$param", TParamD.toVal t) :: env) (TParamD.toVal t) body =
            some ((if j = 0 then [] else s%", ") ++ g t)) :
    exec env dot (.range p body []) = some (commaJoin (tps.map g)) := by
  rw [exec_range_map TParamD.toVal tps env dot p body (fun j t => (if j = 0 then [] else s%", ") ++ g t) hp
        (fun j a _ => by rw [hd]; simpa [bindEnv] using hb j a)]
  rw [joinIdx_join]; rfl


/-! type-parameter lists -/

def targOf (t : TParamD) : Str := t.typeArg

theorem exec_tl4 (env : Env) (j : Nat) (t : TParamD) :
    execList ((s%"$index", .int j) :: (s%"$param", TParamD.toVal t) :: env) (TParamD.toVal t) tl4 =
      some ((if j = 0 then [] else s%", ") ++ targOf t) := by
  rcases t with ⟨n, ts, c⟩
  cases c <;> by_cases hj : j = 0 <;> simp [tl4, tl1, tl2, tl3, targOf, TParamD.typeArg, hj] <;> tsimp <;> simp [hj]

theorem tl9_eq : tl9 = tl4 := rfl

theorem exec_tl14 (env : Env) (j : Nat) (t : TParamD) :
    execList ((s%"$index", .int j) :: (s%"$param", TParamD.toVal t) :: env) (TParamD.toVal t) tl14 =
      some ((if j = 0 then [] else s%", ") ++ (t.name ++ s%" " ++ t.typeStr)) := by
  by_cases hj : j = 0 <;> simp [tl14, tl13, hj] <;> tsimp <;> simp [hj]

theorem exec_tl21 (env : Env) (j : Nat) (t : TParamD) :
    execList ((s%"$index", .int j) :: (s%"$param", TParamD.toVal t) :: env) (TParamD.toVal t) tl21 =
      some ((if j = 0 then [] else s%", ") ++ t.name) := by
  by_cases hj : j = 0 <;> simp [tl21, tl20, hj] <;> tsimp <;> simp [hj]

theorem tl32_eq : tl32 = tl21 := rfl
theorem tl37_eq : tl37 = tl21 := rfl
theorem tl42_eq : tl42 = tl21 := rfl


/-! bracketed type-parameter lists -/

theorem exec_tl5 (env : Env) (mk : MockD) :
    execList env (MockD.toValT mk) tl5 = some (s%"[" ++ commaJoin (mk.tparams.map targOf) ++ s%"]") := by
  have hr := range_tparams env (MockD.toValT mk) ⟨[("$index".toList), ("$param".toList)], [⟨[.field [("TypeParams".toList)]]⟩]⟩
    mk.tparams tl4 targOf rfl (by tsimp) (fun j t => exec_tl4 env j t)
  simp only [tl5, execList, hr]
  tsimp

theorem tl10_eq : tl10 = tl5 := by simp [tl10, tl5, tl9_eq]

theorem exec_tl15 (env : Env) (mk : MockD) :
    execList env (MockD.toValT mk) tl15 =
      some (s%"[" ++ commaJoin (mk.tparams.map fun t => t.name ++ s%" " ++ t.typeStr) ++ s%"]") := by
  have hr := range_tparams env (MockD.toValT mk) ⟨[("$index".toList), ("$param".toList)], [⟨[.field [("TypeParams".toList)]]⟩]⟩
    mk.tparams tl14 (fun t => t.name ++ s%" " ++ t.typeStr) rfl (by tsimp) (fun j t => exec_tl14 env j t)
  simp only [tl15, execList, hr]
  tsimp

/-- `[T, K]` on receivers: the pipe reads `$mock.TypeParams`, whatever the dot is -/
theorem exec_tl22 (env : Env) (dot : Val) (mk : MockD) (hm : lookupVar env s%"$mock" = some (MockD.toValT mk)) :
    execList env dot tl22 = some (s%"[" ++ commaJoin (mk.tparams.map (·.name)) ++ s%"]") := by
  have hr := range_tparams env dot ⟨[("$index".toList), ("$param".toList)], [⟨[.var ("$mock".toList) [("TypeParams".toList)]]⟩]⟩
    mk.tparams tl21 (·.name) rfl (by tsimp; simp [hm]; tsimp) (fun j t => exec_tl21 env j t)
  simp only [tl22, execList, hr]
  tsimp

theorem tl33_eq : tl33 = tl22 := by simp [tl33, tl22, tl32_eq]
theorem tl38_eq : tl38 = tl22 := by simp [tl38, tl22, tl37_eq]
theorem tl43_eq : tl43 = tl22 := by simp [tl43, tl22, tl42_eq]

/-- template func `SyncPkgQualifier` on the encoded import list -/
theorem isSyncImport_toVal (i : ImportD) : isSyncImport (ImportD.toVal i) = decide (i.path = s%"sync") := by
  simp [isSyncImport, ImportD.toVal, getField, strV]

theorem callFn_sync (imps : List ImportD) :
    callFn s%"SyncPkgQualifier" [.list (imps.map ImportD.toVal)] = some (.str (syncQualifier imps)) := by
  have hf : (imps.map ImportD.toVal).find? isSyncImport = (imps.find? (fun i => decide (i.path = s%"sync"))).map ImportD.toVal := by
    rw [List.find?_map]
    have : (isSyncImport ∘ ImportD.toVal) = (fun i => decide (i.path = s%"sync")) := by
      funext i; simp [isSyncImport_toVal]
    rw [this]
  simp only [callFn]
  simp only [hf]
  unfold syncQualifier
  cases imps.find? (fun i => decide (i.path = s%"sync")) with
  | none => simp
  | some i => simp [ImportD.toVal, getField, strV]


/-! field access on the folded encoders -/
section acc
variable (m : MethodD) (al : Str) (mk : MockD) (d : Data)
@[simp] theorem gf_m_Name : getField (methV m al) s%"Name" = some (.str m.name) := by simp [methV, getField, strV]
@[simp] theorem gf_m_Params : getField (methV m al) s%"Params" = some (.list (m.params.map ParamD.toVal)) := by simp [methV, getField]
@[simp] theorem gf_m_Returns : getField (methV m al) s%"Returns" = some (.list (m.returns.map ParamD.toVal)) := by simp [methV, getField]
@[simp] theorem gf_m_ArgList : getField (methV m al) s%"ArgList" = some (.str al) := by simp [methV, getField, strV]
@[simp] theorem gf_m_ArgCallList : getField (methV m al) s%"ArgCallList" = some (.str m.argCallList) := by simp [methV, getField, strV]
@[simp] theorem gf_m_RATL : getField (methV m al) s%"ReturnArgTypeList" = some (.str m.returnArgTypeList) := by simp [methV, getField, strV]
@[simp] theorem gf_m_RANL : getField (methV m al) s%"ReturnArgNameList" = some (.str m.returnArgNameList) := by simp [methV, getField, strV]
@[simp] theorem gf_k_Iface : getField (MockD.toValT mk) s%"InterfaceName" = some (.str mk.ifaceName) := by simp [MockD.toValT, getField, strV]
@[simp] theorem gf_k_Mock : getField (MockD.toValT mk) s%"MockName" = some (.str mk.mockName) := by simp [MockD.toValT, getField, strV]
@[simp] theorem gf_k_TP : getField (MockD.toValT mk) s%"TypeParams" = some (.list (mk.tparams.map TParamD.toVal)) := by simp [MockD.toValT, getField]
@[simp] theorem gf_k_Methods : getField (MockD.toValT mk) s%"Methods" = some (.list (mk.methods.map MethodD.toValT)) := by simp [MockD.toValT, getField]
@[simp] theorem gf_d_Pkg : getField (Data.toValT d) s%"PkgName" = some (.str d.pkgName) := by simp [Data.toValT, getField, strV]
@[simp] theorem gf_d_Src : getField (Data.toValT d) s%"SrcPkgQualifier" = some (.str d.srcPkgQualifier) := by simp [Data.toValT, getField, strV]
@[simp] theorem gf_d_Imports : getField (Data.toValT d) s%"Imports" = some (.list (d.imports.map ImportD.toVal)) := by simp [Data.toValT, getField]
@[simp] theorem gf_d_Mocks : getField (Data.toValT d) s%"Mocks" = some (.list (d.mocks.map MockD.toValT)) := by simp [Data.toValT, getField]
@[simp] theorem gf_d_Stub : getField (Data.toValT d) s%"StubImpl" = some (.bool d.stub) := by simp [Data.toValT, getField]
@[simp] theorem gf_d_Skip : getField (Data.toValT d) s%"SkipEnsure" = some (.bool d.skip) := by simp [Data.toValT, getField]
@[simp] theorem gf_d_Resets : getField (Data.toValT d) s%"WithResets" = some (.bool d.resets) := by simp [Data.toValT, getField]
end acc

theorem ite_some {α} (c : Prop) [Decidable c] (a b : α) : (if c then some a else some b) = some (if c then a else b) := by
  split <;> rfl

/-- the interpreter's own definitions, without unfolding the encoded data -/
syntax "xsimp" ("[" Lean.Parser.Tactic.simpLemma,* "]")? : tactic
macro_rules
  | `(tactic| xsimp) =>
    `(tactic| simp [execList, exec, evalPipe, evalCmd, evalArg, callFn, getPath, printVal, lookupVar_cons, truth, ite_some])
  | `(tactic| xsimp [$ls,*]) =>
    `(tactic| simp [execList, exec, evalPipe, evalCmd, evalArg, callFn, getPath, printVal, lookupVar_cons, truth, ite_some, $ls,*])

/-! method level: dot is a method, `$` the root, `$mock` the mock -/

theorem exec_tl12 (env : Env) (m : MethodD) (al : Str) :
    execList env (methV m al) tl12 =
      some (s%"\n//\t\t\t" ++ m.name ++ s%"Func: func(" ++ al ++ s%") " ++ m.returnArgTypeList ++
            s%" {\n//\t\t\t\tpanic(\"mock out the " ++ m.name ++ s%" method\")\n//\t\t\t},") := by
  simp only [tl12]; tsimp

theorem exec_tl16 (env : Env) (m : MethodD) (al : Str) :
    execList env (methV m al) tl16 =
      some (s%"\n\t// " ++ m.name ++ s%"Func mocks the " ++ m.name ++ s%" method.\n\t" ++ m.name ++
            s%"Func func(" ++ al ++ s%") " ++ m.returnArgTypeList ++ s%"\n") := by
  simp only [tl16]; tsimp

theorem exec_tl18 (env : Env) (m : MethodD) (al : Str) :
    execList env (methV m al) tl18 =
      some (s%"\n\t\t// " ++ m.name ++ s%" holds details about calls to the " ++ m.name ++
            s%" method.\n\t\t" ++ m.name ++ s%" []struct {" ++
            (m.params.map fun p =>
              s%"\n\t\t\t// " ++ exported p.name ++ s%" is the " ++ p.name ++ s%" argument value.\n\t\t\t" ++
                exported p.name ++ s%" " ++ p.typeStr).flatten ++
            s%"\n\t\t}") := by
  have hr := range_params env m al tl17 _ (fun e p => exec_tl17 e p)
  simp only [tl18, execList, hr]; tsimp

theorem exec_tl19 (env : Env) (d : Data) (m : MethodD) (al : Str)
    (hroot : lookupVar env s%"$" = some (Data.toValT d)) :
    execList env (methV m al) tl19 =
      some (s%"\n\tlock" ++ m.name ++ s%" " ++ syncQualifier d.imports ++ s%".RWMutex") := by
  simp only [tl19]
  simp [execList, exec, evalPipe, evalCmd, evalArg, getField, getPath, printVal, strV, methV, Data.toValT,
        hroot, callFn_sync]

theorem exec_tl44 (env : Env) (m : MethodD) (al : Str) :
    execList env (methV m al) tl44 =
      some (s%"\n\tmock.lock" ++ m.name ++ s%".Lock()\n\tmock.calls." ++ m.name ++ s%" = nil\n\tmock.lock" ++
            m.name ++ s%".Unlock()\n\t") := by
  simp only [tl44]; tsimp

theorem exec_tl23 (env : Env) (mk : MockD) (m : MethodD) (al : Str)
    (hm : lookupVar env s%"$mock" = some (MockD.toValT mk)) :
    execList env (methV m al) tl23 =
      some (s%"\n\tif mock." ++ m.name ++ s%"Func == nil {\n\t\tpanic(\"" ++ mk.mockName ++ s%"." ++ m.name ++
            s%"Func: method is nil but " ++ mk.ifaceName ++ s%"." ++ m.name ++ s%" was just called\")\n\t}") := by
  simp only [tl23]; tsimp [hm]

theorem exec_tl29 (env : Env) (m : MethodD) (al : Str) :
    execList env (methV m al) tl29 =
      some (s%"\n\tif mock." ++ m.name ++ s%"Func == nil {\n\t\treturn\n\t}") := by
  simp only [tl29]; tsimp

theorem exec_tl27 (env : Env) (m : MethodD) (al : Str) :
    execList env (methV m al) tl27 =
      some (s%"\n\tif mock." ++ m.name ++ s%"Func == nil {\n\t\tvar (" ++
            (m.returns.map fun p => s%"\n\t\t\t" ++ p.name ++ s%" " ++ p.typeStr).flatten ++
            s%"\n\t\t)\n\t\treturn " ++ m.returnArgNameList ++ s%"\n\t}") := by
  have hr := range_returns env m al tl26 _ (fun e p => exec_tl26 e p)
  simp only [tl27, execList, hr]; tsimp


def tparamUseD (mk : MockD) : Str :=
  if mk.tparams.isEmpty then [] else s%"[" ++ commaJoin (mk.tparams.map (·.name)) ++ s%"]"

def stubRetText (m : MethodD) : Str :=
  s%"\n\tif mock." ++ m.name ++ s%"Func == nil {\n\t\tvar (" ++
    (m.returns.map fun p => s%"\n\t\t\t" ++ p.name ++ s%" " ++ p.typeStr).flatten ++
    s%"\n\t\t)\n\t\treturn " ++ m.returnArgNameList ++ s%"\n\t}"

theorem exec_tl28 (env : Env) (d : Data) (m : MethodD) (al : Str)
    (hroot : lookupVar env s%"$" = some (Data.toValT d)) :
    execList env (methV m al) tl28 =
      some ((if d.stub then stubRetText m else []) ++ s%"\n\treturn mock." ++ m.name ++ s%"Func(" ++
            m.argCallList ++ s%")") := by
  have h27 := exec_tl27 env m al
  simp only [tl28]
  cases hs : d.stub <;> xsimp [hroot, hs, h27, stubRetText]

theorem exec_tl30 (env : Env) (d : Data) (m : MethodD) (al : Str)
    (hroot : lookupVar env s%"$" = some (Data.toValT d)) :
    execList env (methV m al) tl30 =
      some ((if d.stub then s%"\n\tif mock." ++ m.name ++ s%"Func == nil {\n\t\treturn\n\t}" else []) ++
            s%"\n\tmock." ++ m.name ++ s%"Func(" ++ m.argCallList ++ s%")") := by
  have h29 := exec_tl29 env m al
  simp only [tl30]
  cases hs : d.stub <;> xsimp [hroot, hs, h29]

theorem exec_recvUse (env : Env) (dot : Val) (mk : MockD) (hm : lookupVar env s%"$mock" = some (MockD.toValT mk)) :
    exec env dot (.ite ⟨[], [⟨[.var ("$mock".toList) [("TypeParams".toList)]]⟩]⟩ tl22 []) = some (tparamUseD mk) := by
  have h22 := exec_tl22 env dot mk hm
  unfold tparamUseD
  cases ht : mk.tparams with
  | nil => xsimp [hm, ht]
  | cons t ts =>
    rw [ht] at h22
    xsimp [hm, ht, h22]

theorem exec_tl39 (env : Env) (mk : MockD) (m : MethodD) (al : Str)
    (hm : lookupVar env s%"$mock" = some (MockD.toValT mk)) :
    execList env (methV m al) tl39 =
      some (s%"\n// Reset" ++ m.name ++ s%"Calls reset all the calls that were made to " ++ m.name ++
            s%".\nfunc (mock *" ++ mk.mockName ++ tparamUseD mk ++ s%") Reset" ++ m.name ++
            s%"Calls() {\n\tmock.lock" ++ m.name ++ s%".Lock()\n\tmock.calls." ++ m.name ++
            s%" = nil\n\tmock.lock" ++ m.name ++ s%".Unlock()\n}\n") := by
  have hu := exec_recvUse env (methV m al) mk hm
  simp only [tl39, tl38_eq, execList, hu]
  xsimp [hm]


/-! the three functions of one method (tl40) -/

def fieldLines (ps : List ParamD) : Str :=
  (ps.map fun p => s%"\n\t\t" ++ exported p.name ++ s%" " ++ p.typeStr).flatten

def panicText (mk : MockD) (m : MethodD) : Str :=
  s%"\n\tif mock." ++ m.name ++ s%"Func == nil {\n\t\tpanic(\"" ++ mk.mockName ++ s%"." ++ m.name ++
    s%"Func: method is nil but " ++ mk.ifaceName ++ s%"." ++ m.name ++ s%" was just called\")\n\t}"

def tailText (d : Data) (m : MethodD) : Str :=
  if m.returns.isEmpty then
    (if d.stub then s%"\n\tif mock." ++ m.name ++ s%"Func == nil {\n\t\treturn\n\t}" else []) ++
      s%"\n\tmock." ++ m.name ++ s%"Func(" ++ m.argCallList ++ s%")"
  else
    (if d.stub then stubRetText m else []) ++ s%"\n\treturn mock." ++ m.name ++ s%"Func(" ++ m.argCallList ++ s%")"

def resetText (mk : MockD) (m : MethodD) : Str :=
  s%"\n// Reset" ++ m.name ++ s%"Calls reset all the calls that were made to " ++ m.name ++
    s%".\nfunc (mock *" ++ mk.mockName ++ tparamUseD mk ++ s%") Reset" ++ m.name ++
    s%"Calls() {\n\tmock.lock" ++ m.name ++ s%".Lock()\n\tmock.calls." ++ m.name ++
    s%" = nil\n\tmock.lock" ++ m.name ++ s%".Unlock()\n}\n"

def methodText (d : Data) (mk : MockD) (m : MethodD) (al : Str) : Str :=
  s%"\n// " ++ m.name ++ s%" calls " ++ m.name ++ s%"Func.\nfunc (mock *" ++ mk.mockName ++ tparamUseD mk ++
    s%") " ++ m.name ++ s%"(" ++ al ++ s%") " ++ m.returnArgTypeList ++ s%" {" ++
  (if d.stub then [] else panicText mk m) ++
  s%"\n\tcallInfo := struct {" ++ fieldLines m.params ++ s%"\n\t}{" ++
  (m.params.map fun p => s%"\n\t\t" ++ exported p.name ++ s%": " ++ p.name ++ s%",").flatten ++
  s%"\n\t}\n\tmock.lock" ++ m.name ++ s%".Lock()\n\tmock.calls." ++ m.name ++ s%" = append(mock.calls." ++
    m.name ++ s%", callInfo)\n\tmock.lock" ++ m.name ++ s%".Unlock()" ++
  tailText d m ++
  s%"\n}\n\n// " ++ m.name ++ s%"Calls gets all the calls that were made to " ++ m.name ++
    s%".\n// Check the length with:\n//\n//\tlen(mocked" ++ mk.ifaceName ++ s%"." ++ m.name ++
    s%"Calls())\nfunc (mock *" ++ mk.mockName ++ tparamUseD mk ++ s%") " ++ m.name ++ s%"Calls() []struct {" ++
    fieldLines m.params ++ s%"\n\t} {\n\tvar calls []struct {" ++ fieldLines m.params ++
    s%"\n\t}\n\tmock.lock" ++ m.name ++ s%".RLock()\n\tcalls = mock.calls." ++ m.name ++ s%"\n\tmock.lock" ++
    m.name ++ s%".RUnlock()\n\treturn calls\n}" ++
  (if d.resets then resetText mk m else []) ++ s%"\n"

set_option maxRecDepth 100000 in
set_option maxHeartbeats 1600000 in
theorem exec_tl40 (env : Env) (d : Data) (mk : MockD) (m : MethodD) (al : Str)
    (hroot : lookupVar env s%"$" = some (Data.toValT d))
    (hm : lookupVar env s%"$mock" = some (MockD.toValT mk)) :
    execList env (methV m al) tl40 = some (methodText d mk m al) := by
  have hu := exec_recvUse env (methV m al) mk hm
  have hp24 := range_params env m al tl24 _ (fun e p => exec_tl24 e p)
  have hp25 := range_params env m al tl25 _ (fun e p => exec_tl25 e p)
  have h23 := exec_tl23 env mk m al hm
  have h28 := exec_tl28 env d m al hroot
  have h30 := exec_tl30 env d m al hroot
  have h39 := exec_tl39 env mk m al hm
  simp only [tl40, tl33_eq, tl34_eq, tl35_eq, execList, hu, hp24, hp25]
  unfold methodText tailText fieldLines panicText resetText
  cases hs : d.stub <;> cases hr : d.resets <;> cases hret : m.returns <;>
    xsimp [hroot, hm, hs, hr, hret, h23, h28, h30, h39, stubRetText]


/-! one mock (tl46) and the file (tl47) -/

def alOf (m : MethodD) : Str := m.argList.getD []

def instText (mk : MockD) : Str :=
  if mk.tparams.isEmpty then [] else s%"[" ++ commaJoin (mk.tparams.map targOf) ++ s%"]"

def ensureText (d : Data) (mk : MockD) : Str :=
  s%"// Ensure, that " ++ mk.mockName ++ s%" does implement " ++ d.srcPkgQualifier ++ mk.ifaceName ++
    s%".\n// If this is not the case, regenerate this file with moq.\nvar _ " ++ d.srcPkgQualifier ++
    mk.ifaceName ++ instText mk ++ s%" = &" ++ mk.mockName ++ instText mk ++ s%"{}"

theorem exec_tl11 (env : Env) (d : Data) (mk : MockD) (hroot : lookupVar env s%"$" = some (Data.toValT d)) :
    execList env (MockD.toValT mk) tl11 = some (ensureText d mk) := by
  have h5 := exec_tl5 env mk
  simp only [tl11, tl10_eq]
  unfold ensureText instText
  cases ht : mk.tparams with
  | nil => xsimp [hroot, ht]
  | cons t ts =>
    rw [ht] at h5
    xsimp [hroot, ht, h5]

def resetAllText (mk : MockD) : Str :=
  s%"\n// ResetCalls reset all the calls that were made to all mocked methods.\nfunc (mock *" ++ mk.mockName ++
    tparamUseD mk ++ s%") ResetCalls() {" ++
    (mk.methods.map fun m =>
      s%"\n\tmock.lock" ++ m.name ++ s%".Lock()\n\tmock.calls." ++ m.name ++ s%" = nil\n\tmock.lock" ++
        m.name ++ s%".Unlock()\n\t").flatten ++ s%"}\n"

theorem exec_tl45 (env : Env) (mk : MockD) (hm : lookupVar env s%"$mock" = some (MockD.toValT mk)) :
    execList env (MockD.toValT mk) tl45 = some (resetAllText mk) := by
  have hu := exec_recvUse env (MockD.toValT mk) mk hm
  have hr := range_methods env mk tl44 _ (fun m _ => exec_tl44 env m (alOf m))
  simp only [tl45, tl43_eq, execList, hu, hr]
  unfold resetAllText
  xsimp [hm]

def declText (mk : MockD) : Str :=
  if mk.tparams.isEmpty then []
  else s%"[" ++ commaJoin (mk.tparams.map fun t => t.name ++ s%" " ++ t.typeStr) ++ s%"]"

def mockText (d : Data) (mk : MockD) : Str :=
  (if d.skip then [] else ensureText d mk) ++
  s%"\n\n// " ++ mk.mockName ++ s%" is a mock implementation of " ++ d.srcPkgQualifier ++ mk.ifaceName ++
    s%".\n//\n//\tfunc TestSomethingThatUses" ++ mk.ifaceName ++
    s%"(t *testing.T) {\n//\n//\t\t// make and configure a mocked " ++ d.srcPkgQualifier ++ mk.ifaceName ++
    s%"\n//\t\tmocked" ++ mk.ifaceName ++ s%" := &" ++ mk.mockName ++ s%"{" ++
  (mk.methods.map fun m =>
    s%"\n//\t\t\t" ++ m.name ++ s%"Func: func(" ++ alOf m ++ s%") " ++ m.returnArgTypeList ++
      s%" {\n//\t\t\t\tpanic(\"mock out the " ++ m.name ++ s%" method\")\n//\t\t\t},").flatten ++
  s%"\n//\t\t}\n//\n//\t\t// use mocked" ++ mk.ifaceName ++ s%" in code that requires " ++ d.srcPkgQualifier ++
    mk.ifaceName ++ s%"\n//\t\t// and then make assertions.\n//\n//\t}\ntype " ++ mk.mockName ++
    declText mk ++ s%" struct {" ++
  (mk.methods.map fun m =>
    s%"\n\t// " ++ m.name ++ s%"Func mocks the " ++ m.name ++ s%" method.\n\t" ++ m.name ++
      s%"Func func(" ++ alOf m ++ s%") " ++ m.returnArgTypeList ++ s%"\n").flatten ++
  s%"\n\t// calls tracks calls to the methods.\n\tcalls struct {" ++
  (mk.methods.map fun m =>
    s%"\n\t\t// " ++ m.name ++ s%" holds details about calls to the " ++ m.name ++
      s%" method.\n\t\t" ++ m.name ++ s%" []struct {" ++
      (m.params.map fun p =>
        s%"\n\t\t\t// " ++ exported p.name ++ s%" is the " ++ p.name ++ s%" argument value.\n\t\t\t" ++
          exported p.name ++ s%" " ++ p.typeStr).flatten ++
      s%"\n\t\t}").flatten ++
  s%"\n\t}" ++
  (mk.methods.map fun m => s%"\n\tlock" ++ m.name ++ s%" " ++ syncQualifier d.imports ++ s%".RWMutex").flatten ++
  s%"\n}\n" ++
  (mk.methods.map fun m => methodText d mk m (alOf m)).flatten ++
  (if d.resets then resetAllText mk else [])

set_option maxRecDepth 100000 in
set_option maxHeartbeats 1600000 in
theorem exec_tl46 (env : Env) (d : Data) (mk : MockD)
    (hroot : lookupVar env s%"$" = some (Data.toValT d))
    (hm : lookupVar env s%"$mock" = some (MockD.toValT mk)) :
    execList env (MockD.toValT mk) tl46 = some (mockText d mk) := by
  have h11 := exec_tl11 env d mk hroot
  have h15 := exec_tl15 env mk
  have h45 := exec_tl45 env mk hm
  have r12 := range_methods env mk tl12 _ (fun m _ => exec_tl12 env m (alOf m))
  have r16 := range_methods env mk tl16 _ (fun m _ => exec_tl16 env m (alOf m))
  have r18 := range_methods env mk tl18 _ (fun m _ => exec_tl18 env m (alOf m))
  have r19 := range_methods env mk tl19 _ (fun m _ => exec_tl19 env d m (alOf m) hroot)
  have r40 := range_methods env mk tl40 _ (fun m _ => exec_tl40 env d mk m (alOf m) hroot hm)
  simp only [tl46, execList, r12, r16, r18, r19, r40]
  unfold mockText declText
  cases hs : d.skip <;> cases hr : d.resets <;> cases ht : mk.tparams <;>
    (try rw [ht] at h15) <;> xsimp [hroot, hs, hr, ht, h11, h15, h45]

def fileText (d : Data) : Str :=
  s%"// Code generated by moq; DO NOT EDIT.\n// github.com/matryer/moq\n\npackage " ++ d.pkgName ++
    s%"\n\nimport (" ++ (d.imports.map fun i => s%"\n\t" ++ importStatement i).flatten ++
    s%"\n)\n\n" ++ (d.mocks.map (mockText d)).flatten

theorem exec_tl47 (d : Data) :
    execList [(s%"$", Data.toValT d)] (Data.toValT d) tl47 = some (fileText d) := by
  have ri := exec_range_map ImportD.toVal d.imports [(s%"$", Data.toValT d)] (Data.toValT d)
    ⟨[], [⟨[.field [("Imports".toList)]]⟩]⟩ tl0 (fun _ i => s%"\n\t" ++ importStatement i) (by xsimp)
    (fun j a _ => exec_tl0 _ a)
  have rm := exec_range_map MockD.toValT d.mocks [(s%"$", Data.toValT d)] (Data.toValT d)
    ⟨[("$i".toList), ("$mock".toList)], [⟨[.field [("Mocks".toList)]]⟩]⟩ tl46 (fun _ mk => mockText d mk) (by xsimp)
    (fun j a _ => exec_tl46 _ d a (by simp [bindEnv, lookupVar_cons]) (by simp [bindEnv, lookupVar_cons]))
  rw [joinIdx_const] at ri rm
  simp only [tl47, execList, ri, rm]
  unfold fileText
  xsimp

end Moq
