import MoqModel.GoTypes
import MoqModel.Generated.Tables
/-
  Names: the string-level rules of moq.

  * `stripVendorPath`, `sanitize` (the `strings.NewReplacer`), `uniqueName`   – package.go
  * `capitalise`, `deCapitalise`, `varNameForType`, `basicTypeVarName`, `varName` – var.go
  * `exported`                                                                 – template.go

  Go operations that can panic (`s[:1]` on an empty string) are `Option`s here; nothing is
  totalised with a default.
-/
namespace Moq
open Generated

/-- `path.Join(parts...)` for the arguments moq passes: empty elements are dropped, the rest
    joined by `/` (`path.Clean` is the identity on such a join of clean import-path pieces). -/
def pathJoin (parts : List Str) : Str := Str.join s%"/" (parts.filter (· ≠ []))

/-- package.go `stripVendorPath`. -/
def stripVendorPath (p : Str) : Str :=
  match Str.splitOnStr vendorSep p with
  | [] => p
  | [_] => p
  | _ :: rest => Str.trimLeftChar '/' (pathJoin rest)

/-- First replacer pair whose key is a prefix of the input, in argument order. -/
def firstPair : List (Str × Str) → Str → Option (Str × Str)
  | [], _ => none
  | (k, v) :: ps, s => if k ≠ [] ∧ Str.hasPrefix s k then some (k, v) else firstPair ps s

/-- `strings.NewReplacer(pairs...).Replace(s)` – leftmost position first, at one position the
    earliest pair of the argument list wins, no rescanning.  Fuel = length of the input. -/
def replaceAux (pairs : List (Str × Str)) : Nat → Str → Str
  | _, [] => []
  | 0, s => s
  | fuel + 1, c :: cs =>
    match firstPair pairs (c :: cs) with
    | some (k, v) => v ++ replaceAux pairs fuel ((c :: cs).drop k.length)
    | none => c :: replaceAux pairs fuel cs

def sanitize (s : Str) : Str := Str.lower (replaceAux replacerPairs s.length s)

/-- package.go `Package.uniqueName(lvl)`: the last `lvl+1` path components, sanitised and
    concatenated in path order. -/
def uniqueName (path : Str) (lvl : Nat) : Str :=
  let pp := (Str.splitOnChar '/' path).reverse
  ((pp.take (lvl + 1)).reverse.map sanitize).flatten

/-- var.go `capitalise`; `none` is Go's slice-bounds panic on the empty string. -/
def capitalise : Str → Option Str
  | [] => none
  | c :: cs => some (Str.upperC c :: cs)

/-- var.go `deCapitalise`. -/
def deCapitalise : Str → Option Str
  | [] => none
  | c :: cs => some (Str.lowerC c :: cs)

/-- template.go `Exported`. -/
def exported (s : Str) : Str :=
  match s with
  | [] => []
  | c :: cs =>
    match initialisms.find? (fun i => Str.upper s = i) with
    | some i => i
    | none => Str.upperC c :: cs

/-- var.go `basicTypeVarName`: the switch compares `b.Info()` for *equality*, so unsigned
    integers (`IsInteger|IsUnsigned`), complex numbers and `unsafe.Pointer` fall to `"v"`. -/
def basicTypeVarName (n : Str) : Str :=
  if n = s%"bool" then s%"b"
  else if n ∈ [s%"int", s%"int8", s%"int16", s%"int32", s%"int64", s%"rune"] then s%"n"
  else if n ∈ [s%"float32", s%"float64"] then s%"f"
  else if n = s%"string" then s%"s"
  else s%"v"

/-- var.go `varNameForType`.  The Go switch has no case for `*types.Alias`, `*types.TypeParam`
    or `*types.Union`: they get `"v"`. -/
def varNameForType : Ty → Option Str
  | .named _ o _ _ =>
    if o = s%"error" then some s%"err"
    else (deCapitalise o).map (fun n => if n = o then n ++ moqParamSuffix else n)
  | .basic n => some (basicTypeVarName n)
  | .array _ e =>
    (match e with
     | .basic n => deCapitalise n
     | e => varNameForType e).map (· ++ s%"s")
  | .slice e =>
    (match e with
     | .basic n => deCapitalise n
     | e => varNameForType e).map (· ++ s%"s")
  | .struct _ _ _ _ => some s%"val"
  | .ptr e => varNameForType e
  | .sig _ _ _ _ _ => some s%"fn"
  | .iface _ _ _ _ => some s%"ifaceVal"
  | .map k v =>
    (match k with
     | .basic n => deCapitalise n
     | k => varNameForType k).bind fun kn =>
    (match v with
     | .basic n => deCapitalise n
     | v => varNameForType v).bind fun vn =>
    (capitalise vn).map fun cv => kn ++ s%"To" ++ cv
  | .chan _ e =>
    (match e with
     | .basic n => deCapitalise n
     | e => varNameForType e).map (· ++ s%"Ch")
  | .alias _ _ _ _ => some s%"v"
  | .tparam _ => some s%"v"
  | .union _ _ => some s%"v"

/-- var.go `varName`: a user-written name (not `_`) is kept with the suffix; otherwise the
    type-derived name plus suffix, plus `MoqParam` when that is a reserved word. -/
def varName (name : Str) (t : Ty) (suffix : Str) : Option Str :=
  if name ≠ [] ∧ name ≠ s%"_" then some (name ++ suffix)
  else (varNameForType t).map fun g =>
    let n := g ++ suffix
    if n ∈ reservedNames then n ++ moqParamSuffix else n

end Moq
