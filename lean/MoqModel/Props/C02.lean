import MoqModel.AllocLemmas
import MoqModel.GoFile
import MoqModel.Props.C10
/-
  C02 — the mock implements the interface with identical signatures.

  * `c02_methods_match`     : for the completed method list go/types reports, moq allocates one
      method per interface method, same name, same order, same number of parameters, same
      variadic-ness, and the *types* of its parameter and result variables are exactly the
      interface's, position by position (renames only ever touch names).
  * `c02_variadic_only_last`: the `...` marker can only sit on the last parameter of a variadic
      signature.
  * `c02_same_text_for_field_and_method` : the function field `MFunc` and the method `M` are
      printed from the same argument list and result list.
  * `c02_qualifier_sound`   : a type of another package is printed under the current qualifier
      of that package's import (C10), so reading the printed type back through the file's own
      import table yields the interface's type.  That every such package *is* recorded for
      the variable is `pkgsOf` = the walk of `populateImports` (complete except for unions in
      constraints: WF.generic, F-08).
  Independence of `-skip-ensure`: none of the statements mentions it.
-/
namespace Moq

/-- **one generated method per interface method, identical signature as types** -/
theorem c02_methods_match (o : Ord) (fuel : Nat) (ms : List MethodIn) (r r' : Registry) (as : List MethodAlloc)
    (hwf : ∀ m ∈ ms, m.pnames.length = m.ptys.length ∧ m.rnames.length = m.rtys.length)
    (h : methodsAlloc o fuel r ms = .ok (r', as)) :
    as.map MethodAlloc.sigView = ms.map MethodIn.sigView :=
  methodsAlloc_shape o fuel ms r r' as hwf h

/-- rendering keeps the method name and splits the variables into parameters and results at
    the number of parameters -/
theorem c02_render_shape (r : Registry) (m : MethodAlloc) :
    (renderMethod r m).name = m.name ∧
    (renderMethod r m).params.length = (m.vars.take m.nparams).length ∧
    (renderMethod r m).returns.length = (m.vars.drop m.nparams).length := by
  simp [renderMethod]

/-- the variadic marker: only on the last parameter, only for a variadic signature -/
theorem c02_variadic_only_last (r : Registry) (m : MethodAlloc) (i : Nat) (p : ParamD)
    (hp : (renderMethod r m).params[i]? = some p) (hv : p.variadic = true) :
    i + 1 = m.nparams ∧ m.variadic = true := by
  simp only [renderMethod, List.getElem?_mapIdx] at hp
  cases hg : (m.vars.take m.nparams)[i]? with
  | none => simp [hg] at hp
  | some v =>
    simp [hg] at hp
    subst hp
    simp at hv
    exact ⟨hv.1.2, hv.1.1⟩

/-- the function field and the method are printed from the same lists -/
theorem c02_same_text_for_field_and_method (d : Data) (mk : MockD) (m : MethodD) (mf : MethodF)
    (h : genMethodF d mk m = some mf) :
    mf.name = m.name ∧ some mf.argList = m.argList ∧ mf.retTypes = m.returnArgTypeList ∧
    mf.params = m.params ∧ mf.returns = m.returns := by
  unfold genMethodF at h
  cases ha : m.argList with
  | none => simp [ha] at h
  | some al => simp [ha] at h; subst h; exact ⟨rfl, rfl, rfl, rfl, rfl⟩

/-- a type of another package is printed under that import's current qualifier -/
theorem c02_qualifier_sound (r : Registry) (v : Var) (p : PkgRef)
    (hp : stripVendorPath p.path ≠ r.moqPkgPath) (hin : stripVendorPath p.path ∈ v.imports) :
    varQualifier r v p = r.qualOf (stripVendorPath p.path) :=
  c10_qualified_elsewhere r v p hp hin

end Moq
