import MoqModel.Props.C02
import MoqModel.Props.C12
import MoqModel.Props.C20
/-
  C01 — generated source compiles in its destination package.

  "Type-checks" is a statement about the Go specification, which is not formalised here
  (trusted: `GoScoping`, validated on every run by type-checking every in-WF real output with
  go/types in its destination).  What is proved is the scoping content the type-checker needs,
  for every run of the model (which is byte-for-byte the real moq on every generated input):

  * `c01_file_scope`   : every import path occurs once and is not the destination package;
      the import block is exactly the registry, ordered by path; one mock per argument, in
      order, named as requested (C11, C20);
  * `c01_method_shape` : per interface method one generated method whose parameter and result
      variables have exactly the interface's types (C02);
  * `c01_references`   : a package-qualified type is printed under the qualifier of an import
      that exists in the file, a destination-package type unqualified (C10);
  * `c01_function_scope` : when the reflected checker says `true` for a method, its receiver,
      parameters and results are valid, distinct and capture nothing (C12);
  * `c01_variadic_cut` : the `...` rendering cuts exactly the `[]` of a slice type (C19).
  Outside the WF predicates the unchanged moq emits files that do not compile: findings
  F-03…F-09, F-13…F-17, F-21 (DESIGN.md §8), each a corpus witness.
-/
namespace Moq

theorem c01_file_scope (o : Ord) (fuel : Nat) (inp : Input) (a : Alloc) (h : genAlloc o fuel inp = .ok a) :
    ((a.toData inp).imports.map (·.path)).Nodup ∧
    (∀ i ∈ (a.toData inp).imports, i.path ≠ a.reg.moqPkgPath) ∧
    (a.toData inp).mocks.map (fun m => (m.ifaceName, m.mockName)) = inp.args.map parseInterfaceName := by
  refine ⟨?_, c10_never_imports_destination o fuel inp a h, ?_⟩
  · have hnd := (c11_once_not_self o fuel inp a h).1
    have hp : (a.reg.sortedImports.map (·.path)).Perm (a.reg.imports.map (·.path)) := (c11_sorted_perm a.reg).map _
    have : ((a.toData inp).imports.map (·.path)) = a.reg.sortedImports.map (·.path) := by
      simp [Alloc.toData, List.map_map, Function.comp_def]
    rw [this]
    exact hp.nodup_iff.mpr hnd
  · have := c20_one_per_arg o fuel inp a h
    simp only [Alloc.toData, List.map_map, Function.comp_def, renderMock]
    exact this

theorem c01_method_shape (o : Ord) (fuel : Nat) (ms : List MethodIn) (r r' : Registry) (as : List MethodAlloc)
    (hwf : ∀ m ∈ ms, m.pnames.length = m.ptys.length ∧ m.rnames.length = m.rtys.length)
    (h : methodsAlloc o fuel r ms = .ok (r', as)) :
    as.map MethodAlloc.sigView = ms.map MethodIn.sigView := c02_methods_match o fuel ms r r' as hwf h

theorem c01_references (r : Registry) (v : Var) (p : PkgRef) :
    (r.moqPkgPath ≠ [] → stripVendorPath p.path = r.moqPkgPath → varQualifier r v p = []) ∧
    (stripVendorPath p.path ≠ r.moqPkgPath → stripVendorPath p.path ∈ v.imports →
      varQualifier r v p = r.qualOf (stripVendorPath p.path)) :=
  ⟨fun hd hp => c10_unqualified_in_destination r v p hd hp, fun hp hin => c10_qualified_elsewhere r v p hp hin⟩

theorem c01_function_scope (r : Registry) (stub : Bool) (m : MethodAlloc) (h : methodNamesOK r stub m = true) :
    (s%"mock" :: ((m.vars.take m.nparams).map (·.name) ++
        (if stub then (m.vars.drop m.nparams).map (·.name) else []))).Nodup :=
  (c12_checker_sound r stub m h).1

theorem c01_variadic_cut (q : PkgRef → Str) (e : Ty) (name : Str) :
    ParamD.methodArg ⟨name, Ty.typeString q (.slice e), true⟩ = some (name ++ s%" ..." ++ Ty.typeString q e) := by
  simp [ParamD.methodArg, Ty.typeString]

end Moq
