import MoqModel.Props.C04
/-
  C08 — reset API exists only on request and clears exactly what it names.
-/
namespace Moq.Seq
open Moq

/-- reset functions are generated exactly when `-with-resets` is given: per method … -/
theorem c08_method_reset_iff (d : Data) (mk : MockD) (m : MethodD) (mf : MethodF)
    (h : genMethodF d mk m = some mf) :
    (mf.resetBody = some (genResetBody m.name) ∧ d.resets = true) ∨ (mf.resetBody = none ∧ d.resets = false) := by
  unfold genMethodF at h
  cases ha : m.argList with
  | none => simp [ha] at h
  | some al =>
    simp [ha] at h
    subst h
    by_cases hr : d.resets <;> simp [hr]

/-- … and per mock (`ResetCalls`, also for a mock without methods) -/
theorem c08_mock_reset_iff (d : Data) (mk : MockD) (f : MockF) (h : genMockF d mk = some f) :
    (f.resetAll = some (mk.methods.flatMap fun m => genResetBody m.name) ∧ d.resets = true) ∨
    (f.resetAll = none ∧ d.resets = false) := by
  unfold genMockF at h
  cases hm : mk.methods.mapM (genMethodF d mk) with
  | none => simp [hm] at h
  | some ms =>
    simp [hm] at h
    subst h
    by_cases hr : d.resets <;> simp [hr]

/-- `ResetMCalls()` empties the record of `M` and of no other method, and leaves every slice
    handed out before untouched -/
theorem c08_reset_one (c : Cfg) (cb : Callback) (m : Str) (e : Env) (s : St) (wf : s.WF)
    (hfree : s.wlocked m = false ∧ s.rlocked m = 0) :
    let r := execStmts c cb (genResetBody m) e s
    r.2.2 = .ret [] ∧ r.2.1 = [.cleared m] ∧ r.1.view m = [] ∧ (∀ m', m' ≠ m → r.1.view m' = s.view m') ∧
    r.1.wlocked = s.wlocked ∧ r.1.rlocked = s.rlocked := by
  have hr : upd (upd s.wlocked m true) m false = s.wlocked := upd_restore _ _ _ _ hfree.1
  have v := clearHdr_view s m wf
  simp [genResetBody, execStmts, hfree.1, hfree.2, upd_same, hr]
  refine ⟨?_, ?_⟩
  · simpa [St.view, St.contents, clearHdr] using v.1
  · intro m' hm
    have := v.2.1 m' hm
    simpa [St.view, St.contents, clearHdr] using this

/-- one `lock; calls = nil; unlock` group followed by more statements -/
theorem exec_reset_then (c : Cfg) (cb : Callback) (m : Str) (rest : List Stmt) (e : Env) (s : St)
    (hfree : s.wlocked m = false ∧ s.rlocked m = 0) :
    execStmts c cb (genResetBody m ++ rest) e s =
      ((execStmts c cb rest e (clearHdr s m)).1, .cleared m :: (execStmts c cb rest e (clearHdr s m)).2.1,
       (execStmts c cb rest e (clearHdr s m)).2.2) := by
  have hr : upd (upd s.wlocked m true) m false = s.wlocked := upd_restore _ _ _ _ hfree.1
  simp [genResetBody, execStmts, hfree.1, hfree.2, upd_same, hr, clearHdr]

/-- running the statements of `ResetCalls` clears every method it ranges over, and nothing else -/
theorem c08_reset_all (c : Cfg) (cb : Callback) (e : Env) :
    ∀ (ms : List Str) (s : St), s.WF → (∀ m ∈ ms, s.wlocked m = false ∧ s.rlocked m = 0) →
      let r := execStmts c cb (ms.flatMap genResetBody) e s
      r.2.2 = .ret [] ∧ (∀ m ∈ ms, r.1.view m = []) ∧ (∀ m', m' ∉ ms → r.1.view m' = s.view m') ∧
      r.1.WF ∧ r.1.wlocked = s.wlocked ∧ r.1.rlocked = s.rlocked := by
  intro ms
  induction ms with
  | nil => intro s wf _; simp [execStmts, wf]
  | cons m ms ih =>
    intro s wf hfree
    have hf := hfree m List.mem_cons_self
    have v := clearHdr_view s m wf
    have ih' := ih (clearHdr s m) v.2.2 (by
      intro m' hm'; exact hfree m' (List.mem_cons_of_mem _ hm'))
    simp only [List.flatMap_cons]
    rw [exec_reset_then c cb m _ e s hf]
    obtain ⟨h1, h2, h3, h4, h5, h6⟩ := ih'
    refine ⟨h1, ?_, ?_, h4, h5, h6⟩
    · intro m' hm'
      by_cases hin : m' ∈ ms
      · exact h2 m' hin
      · have : m' = m := by
          cases hm' with
          | head => rfl
          | tail _ h => exact absurd h hin
        subst this
        rw [h3 m' hin]; exact v.1
    · intro m' hm'
      have hne : m' ≠ m := fun e => hm' (e ▸ List.mem_cons_self)
      have hni : m' ∉ ms := fun h => hm' (List.mem_cons_of_mem _ h)
      rw [h3 m' hni]; exact v.2.1 m' hne

/-- recording after a reset starts again from empty: one call gives a one-element list -/
theorem c08_then_record (g : Nat → Nat) (s : St) (m : Str) (r : Rec) (wf : s.WF) :
    (appendRec g (clearHdr s m) m r).view m = [r] := by
  have v := clearHdr_view s m wf
  have a := appendRec_view g (clearHdr s m) m r v.2.2
  rw [a.1, v.1]; rfl

end Moq.Seq
