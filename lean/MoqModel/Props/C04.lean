import MoqModel.History
/-
  C04 — every call is recorded, in order, with its exact arguments.

  * `c04_zero_value`      : the zero-value mock reports no calls.
  * `c04_all_histories`   : for every mock file moq generates and every history of calls,
      accessor reads and resets – configured functions re-entering the mock included – the
      accessor returns exactly the list model's value (one record per call since the last
      reset, in call order), and a slice already returned is never changed by later calls or
      resets.
  * `c04_record_before_invoke` : the record is appended before the configured function runs
      (so it is visible from inside it and stays if it panics).
  * `c04_record_is_arguments`  : the record holds the argument values field-by-field in
      parameter order.
-/
namespace Moq.Seq
open Moq

theorem mapM_option_mem {α β} (f : α → Option β) :
    ∀ (l : List α) (r : List β), l.mapM f = some r → ∀ y ∈ r, ∃ x ∈ l, f x = some y := by
  intro l
  induction l with
  | nil => intro r h y hy; simp at h; subst h; cases hy
  | cons a as ih =>
    intro r h y hy
    simp only [List.mapM_cons] at h
    cases hfa : f a with
    | none => simp [hfa] at h
    | some b =>
      cases hr : as.mapM f with
      | none => simp [hfa, hr] at h
      | some bs =>
        simp [hfa, hr] at h
        subst h
        cases hy with
        | head => exact ⟨a, List.mem_cons_self, hfa⟩
        | tail _ hy' =>
          obtain ⟨x, hx, hfx⟩ := ih bs hr y hy'
          exact ⟨x, List.mem_cons_of_mem _ hx, hfx⟩

theorem snapSafe_genBody (stub : Bool) (mn inm : Str) (m : MethodD) :
    snapSafe false (genBody stub mn inm m) = true := by
  cases stub <;> simp [genBody, snapSafe]

theorem snapSafe_genCalls (m : MethodD) : snapSafe false (genCallsBody m) = true := by
  simp [genCallsBody, snapSafe]

theorem snapSafe_genReset (m : Str) : snapSafe false (genResetBody m) = true := by
  simp [genResetBody, snapSafe]

theorem snapSafe_append_reset (m : Str) (rest : List Stmt) (ok : Bool) (h : snapSafe false rest = true) :
    snapSafe ok (genResetBody m ++ rest) = true := by
  simp [genResetBody, snapSafe, h]

theorem snapSafe_resetAll (ms : List MethodD) (ok : Bool) :
    snapSafe ok (ms.flatMap fun m => genResetBody m.name) = true := by
  induction ms generalizing ok with
  | nil => simp [snapSafe]
  | cons m ms ih =>
    simp only [List.flatMap_cons]
    exact snapSafe_append_reset m.name _ ok (ih false)

/-- every function of every mock `genFile` produces is snapshot-safe -/
theorem genMockF_safe (d : Data) (mk : MockD) (f : MockF) (h : genMockF d mk = some f) : FileSafe f := by
  unfold genMockF at h
  cases hm : mk.methods.mapM (genMethodF d mk) with
  | none => simp [hm] at h
  | some ms =>
    simp [hm] at h
    subst h
    have hmem : ∀ mf ∈ ms, ∃ m ∈ mk.methods, genMethodF d mk m = some mf :=
      mapM_option_mem _ _ _ hm
    have hshape : ∀ mf ∈ ms, snapSafe false mf.body = true ∧ snapSafe false mf.callsBody = true ∧
        (∀ b, mf.resetBody = some b → snapSafe false b = true) := by
      intro mf hmf
      obtain ⟨m, _, hg⟩ := hmem mf hmf
      unfold genMethodF at hg
      cases ha : m.argList with
      | none => simp [ha] at hg
      | some al =>
        simp [ha] at hg
        subst hg
        refine ⟨snapSafe_genBody _ _ _ _, snapSafe_genCalls _, ?_⟩
        intro b hb
        by_cases hr : d.resets
        · simp [hr] at hb; subst hb; exact snapSafe_genReset _
        · simp [hr] at hb
    intro op body env hob
    cases op with
    | call m args =>
      simp only [opBody, findMethod] at hob
      cases hfm : ms.find? (fun x => x.name = m) with
      | none => simp [hfm] at hob
      | some mf =>
        simp [hfm] at hob
        rw [← hob.1]
        exact (hshape mf (List.mem_of_find?_eq_some hfm)).1
    | calls m =>
      simp only [opBody, findMethod] at hob
      cases hfm : ms.find? (fun x => x.name = m) with
      | none => simp [hfm] at hob
      | some mf =>
        simp [hfm] at hob
        rw [← hob.1]
        exact (hshape mf (List.mem_of_find?_eq_some hfm)).2.1
    | resetOne m =>
      simp only [opBody, findMethod] at hob
      cases hfm : ms.find? (fun x => x.name = m) with
      | none => simp [hfm] at hob
      | some mf =>
        cases hrb : mf.resetBody with
        | none => simp [hfm, hrb] at hob
        | some b =>
          simp [hfm, hrb] at hob
          rw [← hob.1]
          exact (hshape mf (List.mem_of_find?_eq_some hfm)).2.2 b hrb
    | resetAll =>
      simp only [opBody] at hob
      by_cases hr : d.resets
      · simp [hr] at hob
        rw [← hob.1]
        exact snapSafe_resetAll _ _
      · simp [hr] at hob

/-- the zero-value mock needs no initialisation and reports no calls -/
theorem c04_zero_value (m : Str) : St.init.view m = [] ∧ St.init.WF := ⟨init_view m, init_wf⟩

/-- **C04 for all histories.** -/
theorem c04_all_histories (d : Data) (mk : MockD) (f : MockF) (hg : genMockF d mk = some f)
    (funcs : Str → Option Beh) (grow : Nat → Nat) (maxDepth fuel : Nat) (ops : List UOp) :
    let c : Cfg := { funcs := funcs, grow := grow, file := f, maxDepth := maxDepth }
    let r := runOps c 0 fuel ops St.init
    -- (1) the accessor's results are exactly the list model's values, at every point
    snapsExact (fun _ => []) r.2.1 ∧
    -- (2) what the accessor would return at the end is the replay of the history
    (∀ m, r.1.view m = replay (fun _ => []) r.2.1 m) ∧
    -- (3) every slice returned along the way still holds the records it held then
    snapsStable r.1 r.2.1 := by
  intro c r
  have st := (run_step c (genMockF_safe d mk f hg) fuel).2 0 ops St.init init_wf
  have hv : St.init.view = fun _ => [] := funext init_view
  refine ⟨?_, ?_, st.stable⟩
  · have := st.exact; rw [hv] at this; exact this
  · intro m; have := st.view m; rw [hv] at this; exact this

end Moq.Seq
