import MoqModel.Preds
import MoqModel.AllocLemmas
import MoqModel.ScopeLemmas
/-
  C12 — parameter and result identifiers never collide or capture.

  * `c12_checker_sound` / `c12_fields_sound` : the Boolean predicates the driver evaluates on
      every generated method (`methodNamesOK`, `methodFieldsOK`) mean what C12 says: receiver,
      parameters and (with `-stub`) results are valid identifiers, pairwise distinct, and none
      equals an identifier the signature or body still has to resolve; record fields distinct.
      So `true` printed for an input is a proof for that input (reflection).
  * `c12_fresh_partial` : the conflict-free step of `AddVar` – no retro-active rename pending,
      the derived name neither an import qualifier nor taken – appends the variable under
      exactly that name and keeps all names pairwise distinct.
  * `c12_stays_off_qualifiers` : a derived name equal to a current import qualifier is never
      used as is (it gets the `MoqParam` suffix).
  * witnesses outside WF.names (`decide`): `id`+`ID`, a parameter called `nil`.
  The full invariant (numbering, retro-active renames) holds only under WF.names (findings
  F-10, F-13…F-15, F-18, F-19, F-21, F-22); it is decided per input by the reflected checker
  and by go/types on the real output.
-/
namespace Moq
open Generated

theorem nodupB_iff {α} [DecidableEq α] : ∀ l : List α, nodupB l = true ↔ l.Nodup
  | [] => by simp [nodupB]
  | x :: xs => by simp [nodupB, nodupB_iff xs, List.nodup_cons]

/-- the reflected checker for one method is sound -/
theorem c12_checker_sound (r : Registry) (stub : Bool) (m : MethodAlloc)
    (h : methodNamesOK r stub m = true) :
    let locals := s%"mock" :: ((m.vars.take m.nparams).map (·.name) ++
                    (if stub then (m.vars.drop m.nparams).map (·.name) else []))
    let needs := (m.vars.flatMap fun v => tyIdents (varQualifier r v) v.ty) ++ bodyIdents
    locals.Nodup ∧ (∀ n ∈ locals, validName n = true) ∧ (∀ n ∈ locals, n ∉ needs) := by
  unfold methodNamesOK at h
  simp only [Bool.and_eq_true, List.all_eq_true] at h
  obtain ⟨⟨h1, h2⟩, h3⟩ := h
  refine ⟨(nodupB_iff _).mp h1, h2, ?_⟩
  intro n hn
  have := h3 n hn
  simpa using this

/-- distinct parameters give distinct record fields, when the checker says so -/
theorem c12_fields_sound (m : MethodAlloc) (h : methodFieldsOK m = true) :
    ((m.vars.take m.nparams).map fun v => exported v.name).Nodup :=
  (nodupB_iff _).mp h

theorem resolveImportVarConflicts_noop (vars : List Var) :
    ∀ quals : List Str, (∀ q ∈ quals, searchVar vars q = none) → resolveImportVarConflicts vars quals = vars := by
  intro quals
  induction quals with
  | nil => intro _; rfl
  | cons q qs ih =>
    intro h
    unfold resolveImportVarConflicts
    simp only [List.foldl_cons, h q List.mem_cons_self]
    exact ih (fun q' hq' => h q' (List.mem_cons_of_mem _ hq'))

theorem searchVar_none_notin (vars : List Var) (n : Str) (h : searchVar vars n = none) :
    n ∉ vars.map (·.name) := by
  unfold searchVar at h
  intro hm
  obtain ⟨v, hv, he⟩ := List.mem_map.mp hm
  have := List.findIdx?_eq_none_iff.mp h v hv
  simp [he] at this

/-- **the conflict-free step of `AddVar`** -/
theorem c12_fresh_partial (o : Ord) (r : Registry) (sc : Scope) (paths : List Str) (n : Str) (t : Ty)
    (sfx n0 : Str)
    (hname : varName n t sfx = some n0)
    (hnoimp : searchIn (o.pk r.imports) n0 = none)
    (hnorename : ∀ q ∈ (o.st paths).map r.qualOf, searchVar sc.vars q = none)
    (hfree : searchVar sc.vars n0 = none) (hnc : n0 ∉ sc.conflicted)
    (hnd : (sc.vars.map (·.name)).Nodup) :
    ∃ sc', nameVar o r sc paths n t sfx = .ok sc' ∧
      sc'.vars = sc.vars ++ [⟨n0, t, paths⟩] ∧ (sc'.vars.map (·.name)).Nodup := by
  have hq := resolveImportVarConflicts_noop sc.vars _ hnorename
  refine ⟨{ sc with vars := sc.vars ++ [⟨n0, t, paths⟩] }, ?_, rfl, ?_⟩
  · unfold nameVar
    simp [hname, hnoimp, hq, hfree, hnc]
  · simp only [List.map_append, List.map_cons, List.map_nil]
    refine List.nodup_append.mpr ⟨hnd, by simp, ?_⟩
    intro a ha b hb
    simp at hb; subst hb
    intro e; subst e
    exact searchVar_none_notin _ _ hfree ha

theorem resolveVarNameConflict_extends (sc : Scope) (sug : Str) :
    ∀ (fuel k : Nat) (s2 : Scope) (nm : Str), resolveVarNameConflict sc sug fuel k = some (s2, nm) →
      ∃ sfx2, nm = sug ++ sfx2 := by
  intro fuel
  induction fuel with
  | zero => intro k s2 nm hh; simp [resolveVarNameConflict] at hh
  | succ f ih =>
    intro k s2 nm hh
    simp only [resolveVarNameConflict] at hh
    split at hh
    · exact ih _ _ _ hh
    · split at hh
      · split at hh
        · cases hh; exact ⟨_, rfl⟩
        · cases hh; exact ⟨_, rfl⟩
      · cases hh; exact ⟨_, rfl⟩

/-- a derived name that equals a current import qualifier is never used as is: the variable
    gets `MoqParam` appended (and possibly a number after that) -/
theorem c12_stays_off_qualifiers (o : Ord) (r : Registry) (sc sc' : Scope) (paths : List Str) (n : Str) (t : Ty)
    (sfx n0 : Str) (p : Pkg)
    (hname : varName n t sfx = some n0)
    (himp : searchIn (o.pk r.imports) n0 = some p)
    (h : nameVar o r sc paths n t sfx = .ok sc') :
    ∃ v sfx2, sc'.vars.getLast? = some v ∧ v.name = n0 ++ moqParamSuffix ++ sfx2 := by
  unfold nameVar at h
  simp only [hname, himp, Option.isSome_some, if_true] at h
  by_cases hc : ((searchVar (resolveImportVarConflicts sc.vars (List.map r.qualOf (o.st paths))) (n0 ++ moqParamSuffix)).isSome ||
        decide (n0 ++ moqParamSuffix ∈ sc.conflicted)) = true
  · simp only [hc, if_true] at h
    cases hr : resolveVarNameConflict
        { vars := resolveImportVarConflicts sc.vars (List.map r.qualOf (o.st paths)), conflicted := sc.conflicted }
        (n0 ++ moqParamSuffix) ((resolveImportVarConflicts sc.vars (List.map r.qualOf (o.st paths))).length + 2) 1 with
    | none => simp [hr] at h
    | some x =>
      rcases x with ⟨sc2, n2⟩
      simp only [hr] at h
      cases h
      obtain ⟨sfx2, hs⟩ := resolveVarNameConflict_extends _ _ _ _ sc2 n2 hr
      exact ⟨⟨n2, t, paths⟩, sfx2, by simp, by simp [hs]⟩
  · simp only [hc] at h
    cases h
    exact ⟨⟨n0 ++ moqParamSuffix, t, paths⟩, [], by simp, by simp⟩

/-- outside WF.names: `id` and `ID` give the same record field (finding F-15) -/
theorem c12_id_ID_witness :
    methodFieldsOK ⟨s%"M", [⟨s%"id", .basic s%"int", []⟩, ⟨s%"ID", .basic s%"int", []⟩], 2, false⟩ = false := by
  decide +kernel

/-- outside WF.names: a parameter called `nil` captures the body's `nil` (finding F-13) -/
theorem c12_nil_witness :
    methodNamesOK ⟨s%"", s%"", [], [], []⟩ false ⟨s%"M", [⟨s%"nil", .basic s%"int", []⟩], 1, false⟩ = false := by
  decide +kernel

/-- **one step of `AddVar` keeps the names of the method scope pairwise distinct** – for every
    registry, scope, variable, type and map order – under the two side conditions that name the
    only two ways the Go code can produce a duplicate: (R) a retro-active `MoqParam` rename lands
    on a name already there (`RenamesFresh`), (N) the numbering renames the old holder to `…1` and
    hands out `…2` without looking.  Not `_partial`: the numbering loop, the retro-active renames
    and the `MoqParam` escape are all covered; the side conditions are decidable on the scope. -/
theorem c12_step_distinct (o : Ord) (r1 : Registry) (sc sc' : Scope) (paths : List Str) (vname : Str) (t : Ty)
    (suffix : Str)
    (hnd : (names sc.vars).Nodup)
    (hR : RenamesFresh sc.vars ((o.st paths).map r1.qualOf))
    (hN : ∀ n1, n1 ++ Str.ofNat 1 ∉ names (resolveImportVarConflicts sc.vars ((o.st paths).map r1.qualOf)) →
            n1 ∈ names (resolveImportVarConflicts sc.vars ((o.st paths).map r1.qualOf)) →
            n1 ++ Str.ofNat 2 ∉ names (resolveImportVarConflicts sc.vars ((o.st paths).map r1.qualOf)))
    (h : nameVar o r1 sc paths vname t suffix = .ok sc') :
    (names sc'.vars).Nodup :=
  nameVar_nodup o r1 sc sc' paths vname t suffix hnd hR hN h

/-- non-vacuity of (R) and (N): the third unnamed string of `M(string, string, string)` -/
example :
    (nameVar Ord.id ⟨s%"", s%"", [], [], []⟩ ⟨[⟨s%"s1", .basic s%"string", []⟩, ⟨s%"s2", .basic s%"string", []⟩], [s%"s"]⟩ [] [] (.basic s%"string") []).toOption.map
      (fun sc => names sc.vars) = some [s%"s1", s%"s2", s%"s3"] := by decide +kernel

/-- (N) cannot be dropped: with a user-written `s2` in the scope, the second unnamed string is
    handed `s2` again (the loop checks `s1`, renames `s` to it, and returns `s2` unchecked) -/
theorem c12_unchecked_two_witness :
    (nameVar Ord.id ⟨s%"", s%"", [], [], []⟩ ⟨[⟨s%"s2", .basic s%"string", []⟩, ⟨s%"s", .basic s%"string", []⟩], []⟩ [] [] (.basic s%"string") []).toOption.map
      (fun sc => names sc.vars) = some [s%"s2", s%"s1", s%"s2"] := by decide +kernel

/-- F-28: the name derived for an unnamed parameter is never compared with the type parameters of
    the interface.  For `type I[v any] interface { M(v) }` the scope hands out `v` for the parameter
    whose type *is* the type parameter `v` (`func (mock *IMock[v]) M(v v)` does not compile). -/
theorem c12_typeparam_capture_witness :
    (nameVar Ord.id ⟨s%"", s%"", [], [], []⟩ ⟨[], []⟩ [] [] (.tparam s%"v") []).toOption.map
      (fun sc => names sc.vars) = some [s%"v"] := by decide +kernel

end Moq
