import MoqModel.AllocLemmas
import MoqModel.GoFile
/-
  C09 — generic interfaces keep their type parameters, constraints and instances.
-/
namespace Moq

/-- `typeParams`: one variable per type parameter, in order, typed by exactly its constraint -/
theorem c09_tparams_match (o : Ord) (fuel : Nat) (r r' : Registry) (tps : List TParamIn) (vs : List Var)
    (h : tparamsAlloc o fuel r tps = .ok (r', vs)) :
    vs.map (·.ty) = tps.map (·.constraint) := by
  simp only [tparamsAlloc, bind, Except.bind] at h
  cases h1 : addVars o fuel [] (tps.map fun t => (t.name, t.constraint)) r {} with
  | error e => simp [h1] at h
  | ok x =>
    rcases x with ⟨r1, sc⟩
    simp only [h1, pure, Except.pure] at h
    cases h
    have := addVars_tys o fuel _ _ r _ {} sc h1
    simpa [List.map_map, Function.comp_def] using this

/-- the mock's type-parameter list and every receiver print the type-parameter names verbatim
    (since the fix of F-04; they used to be passed through `Exported`, which broke lower-case
    type parameters) -/
theorem c09_spelling (tps : List TParamD) (h : tps ≠ []) :
    tparamUse tps = s%"[" ++ commaJoin (tps.map (·.name)) ++ s%"]" ∧
    tparamDecl tps = s%"[" ++ commaJoin (tps.map fun t => t.name ++ s%" " ++ t.typeStr) ++ s%"]" := by
  cases tps with
  | nil => exact absurd rfl h
  | cons t ts => simp [tparamUse, tparamDecl]

/-- regression witness for F-04: a lower-case type parameter `t` is declared and used as `t` -/
theorem c09_lowercase_witness :
    tparamDecl [⟨s%"t", s%"any", none⟩] = s%"[t any]" ∧ tparamUse [⟨s%"t", s%"any", none⟩] = s%"[t]" := by
  decide

/-- the representative type argument of the self-check line: an embedded basic type … -/
theorem c09_ensure_basic (b : Str) (rest : List Ty) :
    explicitConstraint (.basic b :: rest) = some b := by
  simp [explicitConstraint, List.findSome?, Ty.typeString]

/-- … the first term of an embedded union (printed with full import paths: valid only for
    predeclared types, findings F-06/F-07) … -/
theorem c09_ensure_union_first (tl : List Bool) (u : Ty) (us rest : List Ty) :
    explicitConstraint (.union tl (u :: us) :: rest) = some (Ty.typeString (fun p => p.path) u) := by
  simp [explicitConstraint, List.findSome?]

/-- … otherwise none, and the constraint itself is printed (valid for `any` and method-only
    interfaces, not for `comparable`: finding F-05) -/
theorem c09_ensure_none : explicitConstraint [] = none := rfl

/-- the self-check line instantiates interface and mock with the *same* argument list, one
    argument per type parameter -/
theorem c09_ensure_arity (d : Data) (mk : MockD) (f : MockF) (h : genMockF d mk = some f) (hs : d.skip = false) :
    ∃ targs, f.ensure = some targs ∧ targs.length = mk.tparams.length ∧ f.tparams = mk.tparams := by
  unfold genMockF at h
  cases hm : mk.methods.mapM (genMethodF d mk) with
  | none => simp [hm] at h
  | some ms =>
    simp [hm] at h
    subst h
    simp [hs]

end Moq
