import MoqModel.Props.C11
import MoqModel.Generated.Glue
/-
  C14 — output is a deterministic function of source package and options.

  Go randomises map iteration; the model takes the iteration order from an oracle `Ord`.
  * `c14_search_order_free`   : with pairwise distinct qualifiers, `searchImport` finds the same
      package whatever the order.
  * `c14_imports_order_free`  : the sorted import block does not depend on the order in which
      the map is traversed (paths are keys).
  * `c14_no_nondeterminism_sources` : moq's own code reads no clock, random source or
      environment (regenerated list of such references: empty).
  * `c14_rename_order_dependent_witness` : outside WF.names the retro-active renames do depend
      on the order (a package named `foo` next to one named `fooMoqParam`: finding F-22).
  The whole-run statement (`genAlloc` independent of `Ord`) needs the resolver invariant of
  C11 on every intermediate registry; it is decided per input by the driver (`orddep`) and by
  repeated real generations.
-/
namespace Moq

theorem find_perm_unique {α} (p : α → Bool) :
    ∀ (l l' : List α), l.Perm l' → (∀ x ∈ l, ∀ y ∈ l, p x = true → p y = true → x = y) →
      l.find? p = l'.find? p := by
  intro l l' hp
  induction hp with
  | nil => intro _; rfl
  | cons x _ ih =>
    intro hu
    simp only [List.find?_cons]
    cases hx : p x with
    | true => rfl
    | false => exact ih (fun a ha b hb => hu a (List.mem_cons_of_mem _ ha) b (List.mem_cons_of_mem _ hb))
  | swap x y l =>
    intro hu
    simp only [List.find?_cons]
    cases hx : p x <;> cases hy : p y <;> simp
    exact (hu y (by simp) x (by simp) hy hx)
  | trans _ _ ih1 ih2 =>
    rename_i l1 l2 l3 h12 h23
    intro hu
    rw [ih1 hu]
    apply ih2
    intro a ha b hb
    exact hu a (h12.symm.subset ha) b (h12.symm.subset hb)

/-- with pairwise distinct qualifiers the map iteration order cannot change what
    `searchImport` returns -/
theorem c14_search_order_free (l l' : List Pkg) (hp : l.Perm l') (hu : (l.map Pkg.qualifier).Nodup)
    (name : Str) : searchIn l name = searchIn l' name := by
  unfold searchIn
  apply find_perm_unique _ l l' hp
  intro x hx y hy px py
  simp at px py
  -- two list elements with the same qualifier are the same element
  have : ∀ (l : List Pkg), (l.map Pkg.qualifier).Nodup → ∀ x ∈ l, ∀ y ∈ l, x.qualifier = y.qualifier → x = y := by
    intro l
    induction l with
    | nil => intro _ x hx; cases hx
    | cons a as ih =>
      intro hnd x hx y hy he
      simp only [List.map_cons, List.nodup_cons] at hnd
      cases hx with
      | head =>
        cases hy with
        | head => rfl
        | tail _ hy' => exact absurd (he ▸ List.mem_map.mpr ⟨y, hy', rfl⟩) hnd.1
      | tail _ hx' =>
        cases hy with
        | head => exact absurd (he ▸ List.mem_map.mpr ⟨x, hx', rfl⟩ : a.qualifier ∈ as.map Pkg.qualifier) hnd.1
        | tail _ hy' => exact ih hnd.2 x hx' y hy' he
  exact this l hu x hx y hy (px.trans py.symm)

theorem sortedBy_perm_eq {α} (key : α → Str) (hinj : ∀ a b : α, key a = key b → a = b) :
    ∀ (l l' : List α), SortedBy key l → SortedBy key l' → l.Perm l' → l = l' := by
  intro l
  induction l with
  | nil => intro l' _ _ hp; exact (List.Perm.nil_eq hp)
  | cons a as ih =>
    intro l' hs hs' hp
    cases l' with
    | nil => exact absurd hp.symm (by simp)
    | cons b bs =>
      have hab : a = b := by
        have ha : a ∈ b :: bs := hp.subset List.mem_cons_self
        have hb : b ∈ a :: as := hp.symm.subset List.mem_cons_self
        cases ha with
        | head => rfl
        | tail _ ha' =>
          cases hb with
          | head => rfl
          | tail _ hb' =>
            have h1 := sortedBy_head_lt hs b hb'
            have h2 := sortedBy_head_lt hs' a ha'
            have := Str.lt_asymm _ _ h1
            rw [h2] at this; cases this
      subst hab
      rw [ih bs hs.tail hs'.tail (List.Perm.cons_inv hp)]

/-- the import block is the same whatever order the registry map is traversed in -/
theorem c14_imports_order_free (r r' : Registry) (hp : r.imports.Perm r'.imports)
    (hnd : (r.imports.map (·.path)).Nodup)
    (hkey : ∀ a ∈ r.imports, ∀ b ∈ r.imports, a.path = b.path → a = b) :
    r.sortedImports = r'.sortedImports := by
  have hnd' : (r'.imports.map (·.path)).Nodup := (hp.map _).nodup_iff.mp hnd
  have s1 := sortBy_sorted (·.path) r.imports hnd
  have s2 := sortBy_sorted (·.path) r'.imports hnd'
  have p12 : r.sortedImports.Perm r'.sortedImports :=
    (sortBy_perm _ _).trans (hp.trans (sortBy_perm _ _).symm)
  -- strictly sorted permutations of each other coincide; compare through the (injective on the list) key
  have : ∀ (l l' : List Pkg), SortedBy (·.path) l → SortedBy (·.path) l' → l.Perm l' →
      (∀ a ∈ l, ∀ b ∈ l, a.path = b.path → a = b) → l = l' := by
    intro l
    induction l with
    | nil => intro l' _ _ hp _; exact (List.Perm.nil_eq hp)
    | cons a as ih =>
      intro l' hs hs' hp hk
      cases l' with
      | nil => exact absurd hp.symm (by simp)
      | cons b bs =>
        have hab : a = b := by
          have ha : a ∈ b :: bs := hp.subset List.mem_cons_self
          have hb : b ∈ a :: as := hp.symm.subset List.mem_cons_self
          cases ha with
          | head => rfl
          | tail _ ha' =>
            cases hb with
            | head => rfl
            | tail _ hb' =>
              have h1 := sortedBy_head_lt hs b hb'
              have h2 := sortedBy_head_lt hs' a ha'
              have := Str.lt_asymm _ _ h1
              rw [h2] at this; cases this
        subst hab
        rw [ih bs hs.tail hs'.tail (List.Perm.cons_inv hp)
          (fun x hx y hy => hk x (List.mem_cons_of_mem _ hx) y (List.mem_cons_of_mem _ hy))]
  apply this _ _ s1 s2 p12
  intro a ha b hb
  exact hkey a ((sortBy_perm _ _).subset ha) b ((sortBy_perm _ _).subset hb)

/-- moq's own non-test code references no clock, random source, process id or environment -/
theorem c14_no_nondeterminism_sources : Generated.nondetCalls = [] := by decide

/-- outside WF.names the retro-active renames depend on the map order: variables `foo` and
    `fooMoqParam`, new qualifiers `foo` and `fooMoqParam` -/
theorem c14_rename_order_dependent_witness :
    let vars : List Var := [⟨s%"foo", .basic s%"int", []⟩, ⟨s%"fooMoqParam", .basic s%"int", []⟩]
    (resolveImportVarConflicts vars [s%"foo", s%"fooMoqParam"]).map (·.name) ≠
    (resolveImportVarConflicts vars [s%"fooMoqParam", s%"foo"]).map (·.name) := by
  decide

end Moq
