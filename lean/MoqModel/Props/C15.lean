import MoqModel.CliSpec
/-
  C15 — regeneration is stable in the presence of earlier output.

  * `c15_rm_independent` : with `-rm` (and a removal that succeeds), the whole result of
    `main.run` – error, standard output, file-system effects, final file system – does not
    depend on what was at the `-out` path before: the file is removed before the package is
    loaded, and nothing earlier reads the file system.
  * `c15_remove_before_load` : the removal is the first file-system effect.
  * the fixed-point half ("moq's own output left in place reproduces itself") rests on the
    library: it is decided by correspondence on the real CLI (the cli stage regenerates twice
    and byte-compares) together with C14/C11's alias idempotence.
-/
namespace Moq.Cli
open Moq

theorem setNode_absent_eq (fs fs' : FS) (p : Str) (h : ∀ q, q ≠ p → fs q = fs' q) :
    setNode fs p .absent = setNode fs' p .absent := by
  funext q
  by_cases hq : q = p
  · simp [setNode, hq]
  · simp [setNode, hq, h q hq]

theorem absent_eq_setNode (fs fs' : FS) (p : Str) (h : ∀ q, q ≠ p → fs q = fs' q) (ha : fs p = .absent) :
    fs = setNode fs' p .absent := by
  funext q
  by_cases hq : q = p
  · simp [setNode, hq, ha]
  · simp [setNode, hq, h q hq]

/-- **with `-rm` the result does not depend at all on what was at the `-out` path before** –
    absent, own previous output, stale or garbled content, even a directory entry the removal
    can delete: error, standard output, the sequence of file-system effects and the final file
    system are the same. -/
theorem c15_rm_independent (c : Ctx) (fs fs' : FS)
    (hargs : ¬ c.flags.args.length < 2)
    (hrm : c.flags.remove = true) (ho : c.flags.outFile ≠ [])
    (hf : c.faults.remove = none)
    (hagree : ∀ q, q ≠ c.flags.outFile → fs q = fs' q) :
    ∀ r r', run Generated.runProg c fs = some r → run Generated.runProg c fs' = some r' →
      r.err = r'.err ∧ r.world.stdout = r'.world.stdout ∧ r.world.effects = r'.world.effects ∧
      r.world.fs = r'.world.fs := by
  intro r r' h h'
  rw [run_eq_spec] at h h'
  cases h; cases h'
  unfold runSpec
  have e : setNode fs c.flags.outFile .absent = setNode fs' c.flags.outFile .absent :=
    setNode_absent_eq fs fs' _ hagree
  have hagree' : ∀ q, q ≠ c.flags.outFile → fs' q = fs q := fun q hq => (hagree q hq).symm
  simp only [hargs, if_false, hrm, ho, ne_eq, not_false_eq_true, decide_true, Bool.and_self, if_true, hf]
  cases hfs : fs c.flags.outFile with
  | absent =>
    cases hfs' : fs' c.flags.outFile with
    | absent =>
      have : fs = fs' := by
        funext q
        by_cases hq : q = c.flags.outFile
        · rw [hq, hfs, hfs']
        · exact hagree q hq
      subst this; simp
    | file b' => simp [eff, absent_eq_setNode fs fs' _ hagree hfs]
    | dir => simp [eff, absent_eq_setNode fs fs' _ hagree hfs]
  | file b =>
    cases hfs' : fs' c.flags.outFile with
    | absent => simp [eff, absent_eq_setNode fs' fs _ hagree' hfs']
    | file b' => simp [eff, e]
    | dir => simp [eff, e]
  | dir =>
    cases hfs' : fs' c.flags.outFile with
    | absent => simp [eff, absent_eq_setNode fs' fs _ hagree' hfs']
    | file b' => simp [eff, e]
    | dir => simp [eff, e]

/-- the removal happens before the package is loaded: it is the first file-system effect of
    the run, and the load sees a file system in which `-out` is absent -/
theorem c15_remove_before_load (c : Ctx) (fs : FS)
    (hargs : ¬ c.flags.args.length < 2) (hrm : c.flags.remove = true) (ho : c.flags.outFile ≠ []) :
    ∀ r, run Generated.runProg c fs = some r → r.world.effects.head? = some (.remove c.flags.outFile) := by
  intro r h
  rw [run_eq_spec] at h
  cases h
  unfold runSpec
  simp only [hargs, if_false, hrm, ho, ne_eq, not_false_eq_true, decide_true, Bool.and_self, if_true]
  have key : ∀ w : World, w.effects.head? = some (.remove c.flags.outFile) →
      (afterRemove c w).world.effects.head? = some (.remove c.flags.outFile) := by
    intro w hw
    cases hwe : w.effects with
    | nil => simp [hwe] at hw
    | cons x xs =>
      simp [hwe] at hw
      unfold afterRemove writeStage
      cases c.lib.new w.fs (srcDirOf c) c.flags with
      | error m => simp [loaded, eff, hwe, hw]
      | ok hd =>
        cases hm : c.lib.mock hd (restArgs c) with
        | error m => simp [hm, loaded, eff, hwe, hw]
        | ok text =>
          by_cases ho' : c.flags.outFile = []
          · simp [hm, ho', loaded, eff, hwe, hw]
          · cases c.faults.mkdir with
            | some e => simp [hm, ho', mkdirW, loaded, eff, hwe, hw]
            | none =>
              cases c.faults.write with
              | some e => simp [hm, ho', writeW, mkdirW, loaded, eff, hwe, hw]
              | none => simp [hm, ho', writeW, mkdirW, loaded, eff, hwe, hw]
  cases hf : c.faults.remove with
  | some e' =>
    cases e' with
    | notExist => simp only []; exact key _ (by simp [eff])
    | msg m => simp [eff]
  | none =>
    simp only []
    cases hfs : fs c.flags.outFile with
    | absent => simp only []; exact key _ (by simp [eff])
    | file b => simp only []; exact key _ (by simp [eff])
    | dir => simp only []; exact key _ (by simp [eff])

end Moq.Cli
