import MoqModel.ConcLocks
/-
  C06 — no internal lock is held while user code runs.

  Over the interleaving semantics (`Conc`), for every mock file moq generates (every interface,
  every flag combination), any number of goroutines and every schedule:
  * `c06_bodies_guarded`   : all four kinds of generated function pass the lock-discipline check;
  * `c06_no_lock_in_user_code` : a goroutine that is in user code – in particular inside a
      configured function `MFunc`, which is entered by `invoke` – holds none of the mock's
      mutexes; so `MFunc` may call any method, accessor or reset of the same mock (including
      `M` itself, recursively), and a call blocked inside `MFunc` blocks nobody;
  * `c06_one_lock`         : a goroutine holds at most one mutex at a time (`ResetCalls` takes
      them one after another, never nested);
  * `c06_progress`         : a goroutine inside generated code can always take its next step,
      or it waits for a mutex whose holder is inside generated code and can take its next
      step: no schedule deadlocks inside generated code.
  (The sequential face – re-entrant callbacks run to completion, `c03_delegates` enters the
  callback in a state whose lock words are the caller's – is in Props/C03, C04.)
  Liveness is stated as enabledness; the Go scheduler's fairness is not modelled.
-/
namespace Moq.Conc
open Moq Moq.Seq

theorem guarded_compile_body (stub : Bool) (mn inm : Str) (m : MethodD) :
    guarded [] (compile (genBody stub mn inm m)) = true := by
  cases stub <;> simp [compile, genBody, expand, guarded]

theorem guarded_compile_calls (m : MethodD) : guarded [] (compile (genCallsBody m)) = true := by
  simp [compile, genCallsBody, expand, guarded]

theorem guarded_compile_reset (m : Str) : guarded [] (compile (genResetBody m)) = true := by
  simp [compile, genResetBody, expand, guarded]

theorem guarded_compile_resetAll (ms : List MethodD) :
    guarded [] (compile (ms.flatMap fun m => genResetBody m.name)) = true := by
  induction ms with
  | nil => rfl
  | cons m ms ih =>
    have e : compile ((m :: ms).flatMap fun m => genResetBody m.name) =
        [.lock m.name, .clear m.name, .unlock m.name] ++ compile (ms.flatMap fun m => genResetBody m.name) := by
      simp [compile, genResetBody, expand]
    rw [e]
    simp [guarded, ih]

/-- the compiled functions of one generated mock -/
def mockBodies (f : MockF) : List (List MI) :=
  f.methods.flatMap (fun m => [compile m.body, compile m.callsBody] ++
    (match m.resetBody with | some b => [compile b] | none => [])) ++
  (match f.resetAll with | some b => [compile b] | none => [])

/-- **every function of every mock moq generates passes the lock-discipline check** -/
theorem c06_bodies_guarded (d : Data) (mk : MockD) (f : MockF) (h : genMockF d mk = some f) :
    ∀ b ∈ mockBodies f, guarded [] b = true := by
  unfold genMockF at h
  cases hm : mk.methods.mapM (genMethodF d mk) with
  | none => simp [hm] at h
  | some ms =>
    simp [hm] at h
    subst h
    have hshape : ∀ mf ∈ ms, guarded [] (compile mf.body) = true ∧ guarded [] (compile mf.callsBody) = true ∧
        (∀ b, mf.resetBody = some b → guarded [] (compile b) = true) := by
      intro mf hmf
      -- each element of `ms` comes from `genMethodF`
      have : ∀ (l : List MethodD) (r : List MethodF), l.mapM (genMethodF d mk) = some r →
          ∀ y ∈ r, ∃ x ∈ l, genMethodF d mk x = some y := by
        intro l
        induction l with
        | nil => intro r h y hy; simp at h; subst h; cases hy
        | cons a as ih =>
          intro r h y hy
          simp only [List.mapM_cons] at h
          cases hfa : genMethodF d mk a with
          | none => simp [hfa] at h
          | some b =>
            cases hr : as.mapM (genMethodF d mk) with
            | none => simp [hfa, hr] at h
            | some bs =>
              simp [hfa, hr] at h
              subst h
              cases hy with
              | head => exact ⟨a, List.mem_cons_self, hfa⟩
              | tail _ hy' =>
                obtain ⟨x, hx, hfx⟩ := ih bs hr y hy'
                exact ⟨x, List.mem_cons_of_mem _ hx, hfx⟩
      obtain ⟨m, _, hg⟩ := this mk.methods ms hm mf hmf
      unfold genMethodF at hg
      cases ha : m.argList with
      | none => simp [ha] at hg
      | some al =>
        simp [ha] at hg
        subst hg
        refine ⟨guarded_compile_body _ _ _ _, guarded_compile_calls _, ?_⟩
        intro b hb
        by_cases hr : d.resets
        · simp [hr] at hb; subst hb; exact guarded_compile_reset _
        · simp [hr] at hb
    intro b hb
    unfold mockBodies at hb
    rcases List.mem_append.mp hb with h1 | h2
    · obtain ⟨mf, hmf, hbm⟩ := List.mem_flatMap.mp h1
      have sh := hshape mf hmf
      rcases List.mem_append.mp hbm with h3 | h4
      · simp at h3
        rcases h3 with e | e <;> subst e
        · exact sh.1
        · exact sh.2.1
      · cases hrb : mf.resetBody with
        | none => simp [hrb] at h4
        | some rb => simp [hrb] at h4; subst h4; exact sh.2.2 rb hrb
    · by_cases hr : d.resets
      · simp [hr] at h2; subst h2; exact guarded_compile_resetAll _
      · simp [hr] at h2

theorem guarded_held_le_one : ∀ (code : List MI) (held : Held), guarded held code = true → held.length ≤ 1
  | [], held, h => by simp [guarded] at h; simp [h]
  | mi :: rest, held, h => by
    cases mi <;> simp [guarded] at h
    case loc => exact guarded_held_le_one rest held h
    all_goals (first | (simp [h.1]) | (rcases h.1 with e | e <;> simp [e]))

variable (grow : Nat → Nat) (bodies : List (List MI)) (hb : ∀ b ∈ bodies, guarded [] b = true)

include hb in
/-- **while user code runs – in particular inside a configured function – the goroutine holds
    none of the mock's mutexes**; and it holds none at the moment it enters user code -/
theorem c06_no_lock_in_user_code (g : G) (r : Reach grow bodies g) (t : Tid) :
    ((g.thr t).code = [] → (g.thr t).held = []) ∧
    (∀ m rest, (g.thr t).code = .invoke m :: rest → (g.thr t).held = [] ∧ rest = []) := by
  have inv := reach_lockInv grow bodies hb g r
  constructor
  · intro hc
    have := inv.guard t; rw [hc] at this
    exact guarded_empty_code this
  · intro m rest hc
    have := inv.guard t; rw [hc] at this
    simpa [guarded] using this

include hb in
/-- a goroutine holds at most one mutex at any time -/
theorem c06_one_lock (g : G) (r : Reach grow bodies g) (t : Tid) : (g.thr t).held.length ≤ 1 :=
  guarded_held_le_one _ _ ((reach_lockInv grow bodies hb g r).guard t)

/-- the next micro-instruction of goroutine `t` is not a blocked lock operation -/
def canStep (g : G) (t : Tid) : Prop :=
  match (g.thr t).code with
  | .lock m :: _ => lockFree g m
  | .rlock m :: _ => noWriter g m
  | [] => False
  | _ => True

theorem canStep_steps (g : G) (t : Tid) (h : canStep g t) : ∃ g', Step grow bodies g g' := by
  unfold canStep at h
  cases hc : (g.thr t).code with
  | nil => simp [hc] at h
  | cons mi rest =>
    rw [hc] at h
    cases mi with
    | loc => exact ⟨_, Step.loc g t rest hc⟩
    | mayExit => exact ⟨_, Step.stay g t rest hc⟩
    | lock m => exact ⟨_, Step.lock g t m rest hc h⟩
    | unlock m => exact ⟨_, Step.unlock g t m rest hc⟩
    | rlock m => exact ⟨_, Step.rlock g t m rest hc h⟩
    | runlock m => exact ⟨_, Step.runlock g t m rest hc⟩
    | rdHdr m => exact ⟨_, Step.rdHdr g t m rest hc⟩
    | wrCell m => exact ⟨_, Step.wrCell g t m rest hc⟩
    | wrHdr m => exact ⟨_, Step.wrHdr g t m rest hc⟩
    | rdSnap m => exact ⟨_, Step.rdSnap g t m rest hc⟩
    | retSnap => exact ⟨_, Step.retSnap g t rest hc⟩
    | clear m => exact ⟨_, Step.clear g t m rest hc⟩
    | invoke m => exact ⟨_, Step.invoke g t m rest hc⟩

/-- a goroutine that holds something is inside generated code and its next instruction is
    enabled (it is never itself waiting for a mutex) -/
theorem holder_canStep (g : G) (inv : LockInv g) (t : Tid) (m : Str) (md : Mode)
    (hh : (m, md) ∈ (g.thr t).held) : canStep g t := by
  have hg := inv.guard t
  unfold canStep
  cases hc : (g.thr t).code with
  | nil => rw [hc] at hg; have := guarded_empty_code hg; rw [this] at hh; cases hh
  | cons mi rest =>
    rw [hc] at hg
    cases mi <;> simp [guarded] at hg ⊢
    case lock m' => rw [hg.1] at hh; cases hh
    case rlock m' => rw [hg.1] at hh; cases hh

include hb in
/-- **no schedule deadlocks inside generated code**: a goroutine inside generated code can
    step, or the holder of the mutex it waits for can -/
theorem c06_progress (g : G) (r : Reach grow bodies g) (t : Tid) (hin : (g.thr t).code ≠ []) :
    canStep g t ∨ ∃ t', t' ≠ t ∧ (g.thr t').code ≠ [] ∧ canStep g t' := by
  have inv := reach_lockInv grow bodies hb g r
  by_cases hcs : canStep g t
  · exact Or.inl hcs
  · right
    unfold canStep at hcs
    cases hc : (g.thr t).code with
    | nil => exact absurd hc hin
    | cons mi rest =>
      rw [hc] at hcs
      have hgt := inv.guard t; rw [hc] at hgt
      cases mi <;> simp at hcs
      case lock m =>
        -- somebody holds m
        simp [guarded] at hgt
        unfold lockFree at hcs
        have hcs : ∃ t' md, (m, md) ∈ (g.thr t').held := by
          apply Classical.byContradiction
          intro hne
          apply hcs
          intro t' md hm
          exact hne ⟨t', md, hm⟩
        obtain ⟨t', md, hh⟩ := hcs
        have hne : t' ≠ t := by intro e; subst e; rw [hgt.1] at hh; cases hh
        have hcs' := holder_canStep g inv t' m md hh
        refine ⟨t', hne, ?_, hcs'⟩
        intro e; unfold canStep at hcs'; rw [e] at hcs'; exact hcs'
      case rlock m =>
        simp [guarded] at hgt
        unfold noWriter at hcs
        have hcs : ∃ t', (m, Mode.w) ∈ (g.thr t').held := by
          apply Classical.byContradiction
          intro hne
          apply hcs
          intro t' hm
          exact hne ⟨t', hm⟩
        obtain ⟨t', hh⟩ := hcs
        have hne : t' ≠ t := by intro e; subst e; rw [hgt.1] at hh; cases hh
        have hcs' := holder_canStep g inv t' m Mode.w hh
        refine ⟨t', hne, ?_, hcs'⟩
        intro e; unfold canStep at hcs'; rw [e] at hcs'; exact hcs'

end Moq.Conc
