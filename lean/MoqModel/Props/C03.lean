import MoqModel.SeqLemmas
/-
  C03 — calls are delegated faithfully to the configured function.

  Statement, for *every* method description `m` (any arity, variadic or not, results or not),
  both stub modes, every argument list and every behaviour `b` of the configured function:
  calling `M(args)` on a mock whose `MFunc` is `b`
    * records the call, then
    * enters `b` exactly once with the very same argument values, in order, the variadic tail
      forwarded with `...` (same slice) exactly when the parameter is variadic, with no lock of
      the mock held, and
    * yields whatever `b` yields: its results, its panic, or the abnormal outcome of what it did.
  No other configured function is entered by the generated code itself (only `b`'s own
  operations can do that: they are the `evs` of `runOps`).
-/
namespace Moq.Seq
open Moq

/-- the record of a call: exported parameter names paired with the argument values -/
def recOf (m : MethodD) (args : List V) : Rec := (m.params.map fun p => exported p.name).zip args

def lastVariadic (m : MethodD) : Bool := ((m.params.map fun p => (p.name, p.variadic)).getLast?.map (·.2)).getD false

/-- **C03.**  With `MFunc` configured, the generated method records the call and then enters
    `MFunc` – through `cb`, whatever user code is – exactly once, in a state whose lock words
    are those of the caller, with the same argument values; the outcome is `MFunc`'s. -/
theorem c03_delegates (c : Cfg) (cb : Callback) (stub : Bool) (mockName ifaceName : Str) (m : MethodD)
    (b : Beh) (args : List V) (s : St)
    (hf : c.funcs m.name = some b)
    (hlen : args.length = m.params.length)
    (hnd : (m.params.map (·.name)).Nodup)
    (hfree : s.wlocked m.name = false ∧ s.rlocked m.name = 0) :
    execStmts c cb (genBody stub mockName ifaceName m)
        { params := (m.params.map (·.name)).zip args } s =
      let s1 := appendRec c.grow s m.name (recOf m args)
      let (s2, evs, o) := cb b s1
      (s2, .recorded m.name (recOf m args) :: .invoked m.name args (lastVariadic m) :: evs, o) := by
  have hl := lookupAll_zip (m.params.map (·.name)) args (by simpa using hlen) hnd
  have hr : upd (upd s.wlocked m.name true) m.name false = s.wlocked := upd_restore _ _ _ _ hfree.1
  cases stub <;>
  simp [genBody, execStmts, hf, hl, hfree.1, hfree.2, List.map_map, Function.comp_def,
        appendRec_locks, upd_same, hr, recOf, lastVariadic, appendRec_eta]

/-- the state the configured function is entered in holds none of the mock's locks that the
    caller did not hold already (C06, sequential face) -/
theorem c03_entry_state_locks (g : Nat → Nat) (s : St) (m : Str) (r : Rec) :
    (appendRec g s m r).wlocked = s.wlocked ∧ (appendRec g s m r).rlocked = s.rlocked :=
  ⟨appendRec_wlocked g s m r, appendRec_rlocked g s m r⟩

/-- non-vacuity: a two-parameter variadic method with distinct names meets the hypotheses -/
example : ((([⟨s%"a", s%"int", false⟩, ⟨s%"bs", s%"[]int", true⟩] : List ParamD).map (·.name)).Nodup) := by decide

end Moq.Seq
