import MoqModel.GenLemmas
import MoqModel.ResolveShallow
import MoqModel.ResolveFrame
import MoqModel.ImportExact
import MoqModel.Preds
import MoqModel.SortLemmas
/-
  C11 — the import block is exact, canonical and conflict-free.

  Proved here, for every run (any interfaces, flags, aliases, map-iteration order), about the
  registry the import block is printed from:
  * `c11_once_not_self`      : each (vendor-stripped) path at most once; never the destination;
  * `c11_no_dot_blank`       : an alias harvested from the source files is never `.` or `_`;
  * `c11_noconflict_unique`  : if the new import's qualifier is not yet taken, `AddImport`
      keeps the qualifiers pairwise distinct (the conflict-free, common case: `_partial` for
      the general statement, whose resolver half is covered by correspondence + the go/types
      oracle on every generated input, and fails outside WF.imports: F-01, F-03, F-11, F-20);
  * `c11_alias_kept`         : a harvested alias is kept when it conflicts with nothing;
  * `c11_sorted_perm`        : the block is a permutation of the registry, ordered by path.
-/
namespace Moq

theorem regOK_init (inp : Input) : RegOK (initRegistry inp) :=
  ⟨by simp [initRegistry], by intro p hp; simp [initRegistry] at hp⟩

theorem regOK_inv : AddImportInv RegOK :=
  fun o fuel r r' p res ok h => addImport_regOK o fuel r r' p res ok h

/-- **each path once, the destination package never imported** -/
theorem c11_once_not_self (o : Ord) (fuel : Nat) (inp : Input) (a : Alloc) (h : genAlloc o fuel inp = .ok a) :
    (a.reg.imports.map (·.path)).Nodup ∧ ∀ p ∈ a.reg.imports, p.path ≠ a.reg.moqPkgPath :=
  let ok := genAlloc_inv regOK_inv o fuel inp a (regOK_init inp) h
  ⟨ok.nodup, ok.notDst⟩

/-- aliases harvested from the source files are never the dot or the blank identifier -/
theorem c11_no_dot_blank (fileImports : List (Str × Str)) (path : Str) :
    aliasOf (harvestAliases fileImports) path ≠ s%"." ∧ aliasOf (harvestAliases fileImports) path ≠ s%"_" := by
  unfold aliasOf
  cases h : (harvestAliases fileImports).reverse.find? (fun x => x.1 = path) with
  | none => simp
  | some pa =>
    have hm : pa ∈ harvestAliases fileImports := by
      have := List.mem_of_find?_eq_some h
      simpa using this
    unfold harvestAliases at hm
    have := (List.mem_filter.mp hm).2
    rcases pa with ⟨p, al⟩
    simp at this
    simp [this.1, this.2]

/-- qualifiers pairwise distinct -/
def UniqueQ (r : Registry) : Prop := (r.imports.map Pkg.qualifier).Nodup

theorem searchIn_none_notin (l : List Pkg) (q : Str) (h : searchIn l q = none) : q ∉ l.map Pkg.qualifier := by
  intro hm
  obtain ⟨p, hp, he⟩ := List.mem_map.mp hm
  have := List.find?_eq_none.mp h p hp
  simp [he] at this

/-- **conflict-free case**: when the qualifier of the new import (its source alias, else its
    name) is not taken, it is added as is and all qualifiers stay pairwise distinct -/
theorem c11_noconflict_unique_partial (fuel : Nat) (r r' : Registry) (p : PkgRef) (res : Option Str)
    (hu : UniqueQ r)
    (hfree : searchIn r.imports (Pkg.qualifier ⟨stripVendorPath p.path, p.name,
              aliasOf r.aliases (stripVendorPath p.path)⟩) = none)
    (h : addImport Ord.id fuel r p = some (r', res)) : UniqueQ r' := by
  unfold addImport at h
  simp only [] at h
  split at h
  · cases h; exact hu
  · split at h
    · cases h; exact hu
    · have hf : searchIn (Ord.id.pk r.imports) (Pkg.qualifier ⟨stripVendorPath p.path, p.name,
              aliasOf r.aliases (stripVendorPath p.path)⟩) = none := hfree
      simp only [hf] at h
      cases h
      unfold UniqueQ
      simp only [List.map_append, List.map_cons, List.map_nil]
      refine List.nodup_append.mpr ⟨hu, by simp, ?_⟩
      intro a ha b hb
      simp at hb; subst hb
      intro e; subst e
      exact searchIn_none_notin _ _ hfree ha

/-- **the ordinary conflict** (`x/foo` meets `y/foo`): the new import's qualifier is taken by `c`;
    at the first level `k` where their unique names differ both names are free (taken, if at
    all, only by `c` itself).  Then the new import is registered under its level-`k` name, `c` is
    renamed to its own, nobody else is touched, and all qualifiers stay pairwise distinct.
    Together with `c11_noconflict_unique_partial` this covers every run whose conflicts never
    cascade; cascading conflicts (`_partial`) are decided per input by the reflected checker and
    the go/types oracle. -/
theorem c11_shallow_unique_partial (k fuel : Nat) (r r' : Registry) (p : PkgRef) (res : Option Str) (c : Pkg)
    (ok : RegOK r) (hu : UniqueQ r)
    (hc : searchIn r.imports (Pkg.qualifier ⟨stripVendorPath p.path, p.name,
            aliasOf r.aliases (stripVendorPath p.path)⟩) = some c)
    (heq : ∀ l, l < k → uniqueName (stripVendorPath p.path) l = uniqueName c.path l)
    (hd : uniqueName (stripVendorPath p.path) k ≠ uniqueName c.path k)
    (hna : uniqueName (stripVendorPath p.path) k ≠ []) (hnb : uniqueName c.path k ≠ [])
    (hfa : ∀ x ∈ r.imports, x.qualifier = uniqueName (stripVendorPath p.path) k → x.path = c.path)
    (hfb : ∀ x ∈ r.imports, x.qualifier = uniqueName c.path k → x.path = c.path)
    (h : addImport Ord.id (fuel + 1 + k) r p = some (r', res)) :
    UniqueQ r' ∧
    (r'.imports = r.imports ∨
     r'.imports = setAliasIn c.path (uniqueName c.path k) r.imports ++
       [⟨stripVendorPath p.path, p.name, uniqueName (stripVendorPath p.path) k⟩]) := by
  unfold addImport at h
  simp only [] at h
  split at h
  · cases h; exact ⟨hu, Or.inl rfl⟩
  · split at h
    · cases h; exact ⟨hu, Or.inl rfl⟩
    · rename_i hlk
      have hcs : searchIn (Ord.id.pk r.imports) (Pkg.qualifier ⟨stripVendorPath p.path, p.name,
            aliasOf r.aliases (stripVendorPath p.path)⟩) = some c := hc
      simp only [hcs] at h
      have hcm := searchIn_some_mem _ _ _ hc
      have hne : stripVendorPath p.path ≠ c.path := by
        intro e
        exact lookup_none_notin r _ hlk (List.mem_map.mpr ⟨c, hcm.1, e.symm⟩)
      have hclimb := resolve_climb Ord.id
        ⟨⟨stripVendorPath p.path, p.name, aliasOf r.aliases (stripVendorPath p.path)⟩, r.imports⟩
        (stripVendorPath p.path) c.path k (fuel + 1) 0 (by simpa using heq)
      rw [hclimb] at h
      have hsh := resolve_shallow fuel
        ⟨stripVendorPath p.path, p.name, aliasOf r.aliases (stripVendorPath p.path)⟩ r.imports c.path (0 + k)
        hne (by simpa using hd) (by simpa using hna) (by simpa using hfa) (by simpa using hfb)
      simp only [] at hsh
      rw [hsh] at h
      simp only [Option.map_some, Option.some.injEq, Prod.mk.injEq] at h
      obtain ⟨hr, _⟩ := h
      subst hr
      have hnd := setAliasIn_nodup c.path (uniqueName c.path k) hnb r.imports ok.nodup hu hfb
      refine ⟨?_, Or.inr (by simp)⟩
      unfold UniqueQ
      simp only [Nat.zero_add, List.map_append, List.map_cons, List.map_nil]
      refine List.nodup_append.mpr ⟨hnd.1, by simp, ?_⟩
      intro q hq q' hq'
      simp only [List.mem_singleton] at hq'
      subst hq'
      obtain ⟨y, hy, hye⟩ := List.mem_map.mp hq
      have hqa : Pkg.qualifier ⟨stripVendorPath p.path, p.name, uniqueName (stripVendorPath p.path) k⟩
          = uniqueName (stripVendorPath p.path) k := by simp [Pkg.qualifier, hna]
      rw [hqa]
      intro e
      rcases hnd.2 y hy with ⟨_, hyq⟩ | ⟨hyb, hyl⟩
      · exact hd (by rw [← e, ← hye, hyq])
      · exact hyb (hfa y hyl (by rw [hye, e]))

/-- non-vacuity: `lib/foo` registered, `x/foo` arrives – level 0 ties (`foo`), level 1 gives
    `xfoo` / `libfoo`, both free -/
example :
    (addImport Ord.id 3 (Registry.mk s%"s" s%"m/s" s%"m/s" [] [⟨s%"m/lib/foo", s%"foo", []⟩])
        ⟨s%"m/x/foo", s%"foo"⟩).map (fun x => x.1.imports) =
      some [⟨s%"m/lib/foo", s%"foo", s%"libfoo"⟩, ⟨s%"m/x/foo", s%"foo", s%"xfoo"⟩] := by decide

/-- an alias the source file already uses for a package is kept when it conflicts with nothing -/
theorem c11_alias_kept (fuel : Nat) (r r' : Registry) (p : PkgRef) (res : Option Str) (al : Str)
    (hal : aliasOf r.aliases (stripVendorPath p.path) = al) (hne : al ≠ [])
    (hnew : r.lookup (stripVendorPath p.path) = none) (hdst : stripVendorPath p.path ≠ r.moqPkgPath)
    (hfree : searchIn r.imports al = none)
    (h : addImport Ord.id fuel r p = some (r', res)) :
    r'.qualOf (stripVendorPath p.path) = al := by
  unfold addImport at h
  simp only [hdst, if_false, hnew, hal] at h
  have hq : Pkg.qualifier ⟨stripVendorPath p.path, p.name, al⟩ = al := by simp [Pkg.qualifier, hne]
  have hf : searchIn (Ord.id.pk r.imports) (Pkg.qualifier ⟨stripVendorPath p.path, p.name, al⟩) = none := by
    rw [hq]; exact hfree
  simp only [hf] at h
  cases h
  unfold Registry.qualOf Registry.lookup
  have hn : ∀ x ∈ r.imports, ¬ (x.path = stripVendorPath p.path) := by
    intro x hx
    have := List.find?_eq_none.mp hnew x hx
    simpa using this
  rw [List.find?_append]
  have : r.imports.find? (fun x => x.path = stripVendorPath p.path) = none := hnew
  simp [this, hq]

theorem insertBy_perm {α} (lt : α → α → Bool) (x : α) (l : List α) : (insertBy lt x l).Perm (x :: l) := by
  induction l with
  | nil => exact List.Perm.refl _
  | cons y ys ih =>
    simp only [insertBy]
    split
    · exact List.Perm.refl _
    · exact (List.Perm.cons y ih).trans (List.Perm.swap x y ys)

theorem sortBy_perm {α} (lt : α → α → Bool) (l : List α) : (sortBy lt l).Perm l := by
  induction l with
  | nil => exact List.Perm.refl _
  | cons x xs ih => exact (insertBy_perm lt x _).trans (List.Perm.cons x ih)

/-- the import block lists exactly the registry's packages (nothing dropped, nothing added) -/
theorem c11_sorted_perm (r : Registry) : r.sortedImports.Perm r.imports := sortBy_perm _ _

end Moq

namespace Moq

/-- the block is strictly ordered by import path -/
theorem c11_sorted (o : Ord) (fuel : Nat) (inp : Input) (a : Alloc) (h : genAlloc o fuel inp = .ok a) :
    SortedBy (·.path) a.reg.sortedImports :=
  sortBy_sorted (·.path) a.reg.imports (c11_once_not_self o fuel inp a h).1

end Moq

namespace Moq

/-- **every alias of the import block, in every run** – any interfaces, flags, source aliases,
    map-iteration order, conflicts cascading to any depth –: it is the alias the source files use
    for that path, or a unique name `uniqueName path l` built from the package's *own* path.
    (`resolve_frame`: `resolveImportConflict` never writes anything else; not `_partial`.) -/
theorem c11_alias_shape (o : Ord) (fuel : Nat) (inp : Input) (a : Alloc) (h : genAlloc o fuel inp = .ok a) :
    ∀ p ∈ a.reg.imports, p.alias = aliasOf a.reg.aliases p.path ∨ ∃ l, p.alias = uniqueName p.path l :=
  genAlloc_aliasShape o fuel inp a h

/-- consequently every *qualifier* is the package's name, its source alias, or one of its own
    unique names: whatever makes those usable identifiers (WF.imports, clause D – a decidable
    condition on the input) makes every qualifier of the output one -/
theorem c11_qualifier_valid (o : Ord) (fuel : Nat) (inp : Input) (a : Alloc) (h : genAlloc o fuel inp = .ok a)
    (ok : Str → Bool)
    (hname : ∀ p ∈ a.reg.imports, ok p.name = true)
    (hsrc : ∀ p ∈ a.reg.imports, aliasOf a.reg.aliases p.path ≠ [] → ok (aliasOf a.reg.aliases p.path) = true)
    (huniq : ∀ p ∈ a.reg.imports, ∀ l, uniqueName p.path l ≠ [] → ok (uniqueName p.path l) = true) :
    ∀ p ∈ a.reg.imports, ok p.qualifier = true := by
  intro p hp
  unfold Pkg.qualifier
  split
  · rename_i hne
    rcases c11_alias_shape o fuel inp a h p hp with e | ⟨l, e⟩
    · rw [e]; exact hsrc p hp (by rw [← e]; exact hne)
    · rw [e]; exact huniq p hp l (by rw [← e]; exact hne)
  · exact hname p hp

end Moq

namespace Moq

/-- **… and nothing else**: in every run every path of the import block is the vendor-stripped path
    of a package that a method signature or a type-parameter constraint of a *requested* interface
    mentions, or `sync`, or the source package (for the self-check line).  Nothing is imported on
    behalf of interfaces that were not asked for, of earlier runs, or of nothing at all.  (With
    `c11_once_not_self`: each such path once, never the destination; with `c01_references`: every
    package a printed type refers to is there.) -/
theorem c11_nothing_else (o : Ord) (fuel : Nat) (inp : Input) (a : Alloc) (h : genAlloc o fuel inp = .ok a) :
    ∀ c ∈ a.reg.imports,
      (∃ np ∈ inp.args, ∃ p ∈ requestedPkgs inp.scope np, c.path = stripVendorPath p.path) ∨
      c.path = stripVendorPath s%"sync" ∨ c.path = stripVendorPath inp.srcPath :=
  genAlloc_imports_requested o fuel inp a h

end Moq
