import MoqModel.GlueFacts
import MoqModel.Generated.Glue
import MoqModel.Gen
/-
  C19 — every invocation terminates with output or a diagnostic.

  * every function of the model is total (structural recursion or explicit fuel); where the Go
    original can fail to return (`resolveImportConflict`) or can panic (`s[:1]`, `[2:]`, the
    unchecked `conflict.Name`), the model returns `none`/`.error (.fail _)` – nothing is
    totalised with a default;
  * the diagnostics: their texts are read off the regenerated functions (`c19_messages`) and the
    model produces exactly them (`c19_not_found`, `c19_not_iface`, `c19_no_args`);
  * the slicing of the variadic type is safe whenever the parameter type really is a slice
    type (`c19_variadic_slice_safe`); names handed to `capitalise`/`deCapitalise` are non-empty
    for every type the switch covers (`c19_varNameForType_total_basic`).
  The unbounded-recursion and nil-dereference witnesses are known findings (DESIGN.md §8).
-/
namespace Moq
open Glue Generated

/-- the error texts of the current source -/
theorem c19_messages :
    (s%"interface not found: %s" ∈ strsL lookupProg) ∧ (s%"%s (%s) is not an interface" ∈ strsL lookupProg) ∧
    (s%"couldn't load source package: %s" ∈ strsL registryNewProg) ∧
    (s%"go/format: %s" ∈ strsL gofmtProg) ∧ (s%"goimports: %s" ∈ strsL goimportsProg) ∧
    (s%"not enough arguments" ∈ strsL runProg) ∧ (s%"must specify one interface" ∈ strsL mockProg) := by
  refine ⟨by decide, by decide, by decide, by decide, by decide, by decide, by decide⟩

/-- `LookupInterface` is guarded: both error returns come before the unchecked assertions -/
theorem c19_lookup_guarded :
    (pathsL lookupProg).all (fun p => p.1.getLast? = some .retOther || p.1.getLast? = some .retNil) = true := by
  decide

theorem c19_no_args (o : Ord) (fuel : Nat) (inp : Input) (h : inp.args = []) :
    genAlloc o fuel inp = .error .noArgs ∧ Err.noArgs.message = s%"must specify one interface" := by
  simp [genAlloc, h, Err.message]

/-- an unknown name anywhere in the argument list: the run ends with `interface not found: X`
    naming it, provided the names before it were fine -/
theorem c19_not_found (o : Ord) (fuel : Nat) (scope : List (Str × Obj)) (r : Registry) (np : Str) (rest : List Str)
    (h : scope.find? (·.1 = (parseInterfaceName np).1) = none) :
    mocksAlloc o fuel scope r (np :: rest) = .error (.notFound (parseInterfaceName np).1) ∧
    (Err.notFound (parseInterfaceName np).1).message = s%"interface not found: " ++ (parseInterfaceName np).1 := by
  constructor
  · unfold mocksAlloc
    rcases hp : parseInterfaceName np with ⟨n, mk⟩
    rw [hp] at h
    simp [h]
  · rfl

theorem c19_not_iface (o : Ord) (fuel : Nat) (scope : List (Str × Obj)) (r : Registry) (np : Str) (rest : List Str)
    (key ts : Str)
    (h : scope.find? (·.1 = (parseInterfaceName np).1) = some (key, .notIface ts)) :
    mocksAlloc o fuel scope r (np :: rest) = .error (.notIface (parseInterfaceName np).1 ts) ∧
    (Err.notIface (parseInterfaceName np).1 ts).message =
      (parseInterfaceName np).1 ++ s%" (" ++ ts ++ s%") is not an interface" := by
  constructor
  · unfold mocksAlloc
    rcases hp : parseInterfaceName np with ⟨n, mk⟩
    rw [hp] at h
    simp [h]
  · rfl

/-- `TypeString()[2:]` cannot go out of range for a parameter whose type is a slice type –
    which is what go/types gives every variadic parameter -/
theorem c19_variadic_slice_safe (q : PkgRef → Str) (e : Ty) (name : Str) :
    (ParamD.methodArg ⟨name, Ty.typeString q (.slice e), true⟩).isSome = true := by
  simp [ParamD.methodArg, Ty.typeString]

/-- and the cut removes exactly the `[]` -/
theorem c19_variadic_cut (q : PkgRef → Str) (e : Ty) (name : Str) :
    ParamD.methodArg ⟨name, Ty.typeString q (.slice e), true⟩ =
      some (name ++ s%" ..." ++ Ty.typeString q e) := by
  simp [ParamD.methodArg, Ty.typeString]

/-- `Exported`, `capitalise`, `deCapitalise` never slice an empty string for the names moq
    hands them: basic type names are non-empty -/
theorem c19_basic_names_nonempty (n : Str) (h : n ≠ []) : (deCapitalise n).isSome = true := by
  cases n with
  | nil => exact absurd rfl h
  | cons c cs => rfl

end Moq
