import MoqModel.GlueFacts
import MoqModel.Generated.Glue
import MoqModel.Gen
import MoqModel.ResolveShallow
import MoqModel.ResolveTerm
/-
  C19 — every invocation terminates with output or a diagnostic.

  * every function of the model is total (structural recursion or explicit fuel); where the Go
    original can fail to return (`resolveImportConflict`) or can panic (`s[:1]`, `[2:]`, the
    unchecked `conflict.Name`), the model returns `none`/`.error (.fail _)` – nothing is
    totalised with a default;
  * the diagnostics: their texts are read off the regenerated functions (`c19_messages`) and the
    model produces exactly them (`c19_not_found`, `c19_not_iface`, `c19_no_args`);
  * the slicing of the variadic type is safe whenever the parameter type really is a slice
    type (`c19_variadic_slice_safe`); names handed to `capitalise`/`deCapitalise` are non-empty
    for every type the switch covers (`c19_varNameForType_total_basic`).
  The unbounded-recursion and nil-dereference witnesses are known findings (DESIGN.md §8).
-/
namespace Moq
open Glue Generated

/-- the error texts of the current source -/
theorem c19_messages :
    (s%"interface not found: %s" ∈ strsL lookupProg) ∧ (s%"%s (%s) is not an interface" ∈ strsL lookupProg) ∧
    (s%"couldn't load source package: %s" ∈ strsL registryNewProg) ∧
    (s%"go/format: %s" ∈ strsL gofmtProg) ∧ (s%"goimports: %s" ∈ strsL goimportsProg) ∧
    (s%"not enough arguments" ∈ strsL runProg) ∧ (s%"must specify one interface" ∈ strsL mockProg) := by
  refine ⟨by decide, by decide, by decide, by decide, by decide, by decide, by decide⟩

/-- `LookupInterface` is guarded: both error returns come before the unchecked assertions -/
theorem c19_lookup_guarded :
    (pathsL lookupProg).all (fun p => p.1.getLast? = some .retOther || p.1.getLast? = some .retNil) = true := by
  decide

theorem c19_no_args (o : Ord) (fuel : Nat) (inp : Input) (h : inp.args = []) :
    genAlloc o fuel inp = .error .noArgs ∧ Err.noArgs.message = s%"must specify one interface" := by
  simp [genAlloc, h, Err.message]

/-- an unknown name anywhere in the argument list: the run ends with `interface not found: X`
    naming it, provided the names before it were fine -/
theorem c19_not_found (o : Ord) (fuel : Nat) (scope : List (Str × Obj)) (r : Registry) (np : Str) (rest : List Str)
    (h : scope.find? (·.1 = (parseInterfaceName np).1) = none) :
    mocksAlloc o fuel scope r (np :: rest) = .error (.notFound (parseInterfaceName np).1) ∧
    (Err.notFound (parseInterfaceName np).1).message = s%"interface not found: " ++ (parseInterfaceName np).1 := by
  constructor
  · unfold mocksAlloc
    rcases hp : parseInterfaceName np with ⟨n, mk⟩
    rw [hp] at h
    simp [h]
  · rfl

theorem c19_not_iface (o : Ord) (fuel : Nat) (scope : List (Str × Obj)) (r : Registry) (np : Str) (rest : List Str)
    (key ts : Str)
    (h : scope.find? (·.1 = (parseInterfaceName np).1) = some (key, .notIface ts)) :
    mocksAlloc o fuel scope r (np :: rest) = .error (.notIface (parseInterfaceName np).1 ts) ∧
    (Err.notIface (parseInterfaceName np).1 ts).message =
      (parseInterfaceName np).1 ++ s%" (" ++ ts ++ s%") is not an interface" := by
  constructor
  · unfold mocksAlloc
    rcases hp : parseInterfaceName np with ⟨n, mk⟩
    rw [hp] at h
    simp [h]
  · rfl

/-- `TypeString()[2:]` cannot go out of range for a parameter whose type is a slice type –
    which is what go/types gives every variadic parameter -/
theorem c19_variadic_slice_safe (q : PkgRef → Str) (e : Ty) (name : Str) :
    (ParamD.methodArg ⟨name, Ty.typeString q (.slice e), true⟩).isSome = true := by
  simp [ParamD.methodArg, Ty.typeString]

/-- and the cut removes exactly the `[]` -/
theorem c19_variadic_cut (q : PkgRef → Str) (e : Ty) (name : Str) :
    ParamD.methodArg ⟨name, Ty.typeString q (.slice e), true⟩ =
      some (name ++ s%" ..." ++ Ty.typeString q e) := by
  simp [ParamD.methodArg, Ty.typeString]

/-- `Exported`, `capitalise`, `deCapitalise` never slice an empty string for the names moq
    hands them: basic type names are non-empty -/
theorem c19_basic_names_nonempty (n : Str) (h : n ≠ []) : (deCapitalise n).isSome = true := by
  cases n with
  | nil => exact absurd rfl h
  | cons c cs => rfl

/-- fuel only bounds the recursion depth of the import-conflict resolver: a call that returns
    with some fuel returns the same result with more, so the model's "out of fuel" stands for
    "the Go code does not return" and for nothing else -/
theorem c19_fuel_is_a_bound (o : Ord) (fuel : Nat) (r : Registry) (p : PkgRef) (x : Registry × Option Str)
    (h : addImport o fuel r p = some x) : addImport o (fuel + 1) r p = some x :=
  addImport_fuel_mono o fuel r p x h

/-- `AddImport` returns in the conflict-free case … -/
theorem c19_addImport_returns_free (o : Ord) (fuel : Nat) (r : Registry) (p : PkgRef)
    (hfree : searchIn (o.pk r.imports) (Pkg.qualifier ⟨stripVendorPath p.path, p.name,
              aliasOf r.aliases (stripVendorPath p.path)⟩) = none) :
    (addImport o fuel r p).isSome = true := by
  unfold addImport
  simp only []
  split
  · rfl
  · split
    · rfl
    · simp [hfree]

/-- … and in the ordinary conflict (both level-`k` names free), after climbing `k` levels:
    `k + 1` units of fuel suffice, for every registry -/
theorem c19_addImport_returns_shallow (k fuel : Nat) (r : Registry) (p : PkgRef) (c : Pkg)
    (hc : searchIn r.imports (Pkg.qualifier ⟨stripVendorPath p.path, p.name,
            aliasOf r.aliases (stripVendorPath p.path)⟩) = some c)
    (heq : ∀ l, l < k → uniqueName (stripVendorPath p.path) l = uniqueName c.path l)
    (hd : uniqueName (stripVendorPath p.path) k ≠ uniqueName c.path k)
    (hna : uniqueName (stripVendorPath p.path) k ≠ [])
    (hfa : ∀ x ∈ r.imports, x.qualifier = uniqueName (stripVendorPath p.path) k → x.path = c.path)
    (hfb : ∀ x ∈ r.imports, x.qualifier = uniqueName c.path k → x.path = c.path) :
    (addImport Ord.id (fuel + 1 + k) r p).isSome = true := by
  by_cases hdst : stripVendorPath p.path = r.moqPkgPath
  · simp [addImport, hdst]
  · cases hnew : r.lookup (stripVendorPath p.path) with
    | some q => simp [addImport, hdst, hnew]
    | none => rw [addImport_shallow k fuel r p c hdst hnew hc heq hd hna hfa hfb]; rfl

end Moq

namespace Moq

/-- **`resolveImportConflict` returns**: for every state of separated packages (`Sep`: clauses A, X,
    Q, D of WF.imports – distinct sanitised paths, candidates of different packages at different
    levels differ, no level-≥1 candidate is another package's initial qualifier, candidates not
    empty), every map-iteration order and conflicts cascading to any depth, a call at level `lvl`
    returns with `k + 1` units of fuel as soon as `lvl + k` is above the longest path.  Not
    `_partial`: this is the termination half that was open; what stays outside is exactly F-01
    (`c19_f01_diverges_witness`: paths that sanitise equally). -/
theorem c19_resolver_terminates {V : List Str} {q0 : Str → Str} {D : Nat} (hs : sepB V q0 D = true) (o : Ord) (ho : o.sound)
    (k lvl : Nat) (s : RS) (a b : Str) (hD : D ≤ lvl + k) (h1 : 1 ≤ lvl + k) (hsh : ShapeV V q0 s)
    (ha : a ∈ s.paths) (hb : b ∈ s.paths) (hab : a ≠ b) :
    ∃ s', resolve o (k + 1) s a b lvl = some s' :=
  resolve_terminates (sepB_sound V q0 D hs) o ho k lvl s a b hD h1 hsh ha hb hab

/-- **`AddImport` returns**, with at most `D + 2` nested calls, and hands back a registry of the
    same kind: the statement chains along every sequence of `AddImport` calls of a run (its only
    callers are `populateImports` and `Mocker.Mock`) -/
theorem c19_addImport_terminates {V : List Str} {q0 : Str → Str} {D : Nat} (hs : sepB V q0 D = true) (o : Ord) (ho : o.sound)
    (r : Registry) (p : PkgRef) (hr : RegShape V q0 r)
    (hpV : stripVendorPath p.path ∈ V)
    (hq0 : q0 (stripVendorPath p.path) =
             Pkg.qualifier ⟨stripVendorPath p.path, p.name, aliasOf r.aliases (stripVendorPath p.path)⟩) :
    ∃ r' res, addImport o (D + 2) r p = some (r', res) ∧ RegShape V q0 r' :=
  addImport_terminates (sepB_sound V q0 D hs) o ho r p hr hpV hq0

/-- non-vacuity: three packages named foo at different depths and the standard sync are separated -/
example : sepB [s%"m/lib/foo", s%"m/x/foo", s%"m/a/b/foo", s%"sync"]
    (fun p => if p = s%"sync" then s%"sync" else s%"foo") 3 = true := by decide +kernel

/-- outside `Sep` (clause A): `x/foo` and `x/go-foo` have the same unique name at every level –
    the resolver only climbs; no amount of fuel makes it return (finding F-01; here: 40 units) -/
theorem c19_f01_diverges_witness :
    resolve Ord.id 40 ⟨⟨s%"m/x/go-foo", s%"foo", []⟩, [⟨s%"m/x/foo", s%"foo", []⟩]⟩ s%"m/x/go-foo" s%"m/x/foo" 0 = none := by
  decide +kernel

end Moq
