import MoqModel.GoFile
/-
  C20 — one mock per requested interface, named as requested, independent of the others.

  * `c20_one_per_arg` : the mocks of a successful run are, in argument order, exactly the parsed
    arguments – `I` gives (`I`, `IMock`), `I:N` gives (`I`, `N`) (first `:` splits).
  * `c20_file_mocks`  : the same holds of the structured file, and of its type declarations.
  * independence of the mocks as *types* (joint vs solo generation) rests on the shared import
    registry only through qualifiers; it is decided by correspondence plus the go/types
    comparison of joint and solo generations (DESIGN.md §6 C20), with the witness F-12 outside.
-/
namespace Moq

theorem mocksAlloc_names (o : Ord) (fuel : Nat) (scope : List (Str × Obj)) :
    ∀ (args : List Str) (r r' : Registry) (ms : List MockAlloc),
      mocksAlloc o fuel scope r args = .ok (r', ms) →
      ms.map (fun m => (m.ifaceName, m.mockName)) = args.map parseInterfaceName := by
  intro args
  induction args with
  | nil => intro r r' ms h; simp [mocksAlloc] at h; rw [h.2]; rfl
  | cons np nps ih =>
    intro r r' ms h
    unfold mocksAlloc at h
    rcases hp : parseInterfaceName np with ⟨name, mockName⟩
    simp only [hp] at h
    cases hs : scope.find? (fun x => x.1 = name) with
    | none => simp [hs] at h
    | some kv =>
      rcases kv with ⟨k, obj⟩
      cases obj with
      | notIface ts => simp [hs] at h
      | iface msIn generic tps tn ts =>
        cases tn with
        | false => simp [hs] at h
        | true =>
        simp only [hs] at h
        cases hma : methodsAlloc o fuel r msIn with
        | error e => simp [hma] at h
        | ok rm =>
          rcases rm with ⟨r1, mas⟩
          simp only [hma] at h
          cases htp : (if generic then tparamsAlloc o fuel r1 tps else .ok (r1, [])) with
          | error e => simp [htp] at h
          | ok rt =>
            rcases rt with ⟨r2, tvs⟩
            simp only [htp] at h
            cases hrest : mocksAlloc o fuel scope r2 nps with
            | error e => simp [hrest] at h
            | ok rr =>
              rcases rr with ⟨r3, rest⟩
              simp only [hrest] at h
              cases h
              simp only [List.map_cons, hp]
              rw [ih r2 _ rest hrest]

theorem splitAtColon_plain (np : Str) (h : ':' ∉ np) : splitAtColon np = (np, none) := by
  induction np with
  | nil => rfl
  | cons c cs ih =>
    have hc : c ≠ ':' := fun e => h (e ▸ List.mem_cons_self)
    have hcs : ':' ∉ cs := fun m => h (List.mem_cons_of_mem _ m)
    simp [splitAtColon, hc, ih hcs]

theorem splitAtColon_pair (a b : Str) (h : ':' ∉ a) : splitAtColon (a ++ ':' :: b) = (a, some b) := by
  induction a with
  | nil => simp [splitAtColon]
  | cons c cs ih =>
    have hc : c ≠ ':' := fun e => h (e ▸ List.mem_cons_self)
    have hcs : ':' ∉ cs := fun m => h (List.mem_cons_of_mem _ m)
    simp [splitAtColon, hc, ih hcs]

/-- `I` ↦ (`I`, `IMock`) when the argument has no colon -/
theorem parse_plain (np : Str) (h : ':' ∉ np) : parseInterfaceName np = (np, np ++ s%"Mock") := by
  simp [parseInterfaceName, splitAtColon_plain np h]

/-- `I:N` ↦ (`I`, `N`): the first colon splits, the mock gets exactly the requested name -/
theorem parse_pair (a b : Str) (h : ':' ∉ a) : parseInterfaceName (a ++ ':' :: b) = (a, b) := by
  simp [parseInterfaceName, splitAtColon_pair a b h]

/-- **one mock per argument, in argument order, named as requested** -/
theorem c20_one_per_arg (o : Ord) (fuel : Nat) (inp : Input) (a : Alloc) (h : genAlloc o fuel inp = .ok a) :
    a.mocks.map (fun m => (m.ifaceName, m.mockName)) = inp.args.map parseInterfaceName := by
  unfold genAlloc at h
  split at h
  · cases h
  · cases hm : mocksAlloc o fuel inp.scope (initRegistry inp) inp.args with
    | error e => simp [hm] at h
    | ok rm =>
      rcases rm with ⟨r1, mocks⟩
      have hn := mocksAlloc_names o fuel inp.scope inp.args _ r1 mocks hm
      simp only [hm] at h
      cases hs : addSync o fuel r1 mocks with
      | none => simp [hs] at h
      | some r2 =>
        simp only [hs] at h
        cases hq : addSrc o fuel inp r2 with
        | none => simp [hq] at h
        | some rq =>
          rcases rq with ⟨r3, q⟩
          simp only [hq] at h
          cases h
          exact hn

theorem mapM_option_length {α β} (f : α → Option β) :
    ∀ (l : List α) (r : List β), l.mapM f = some r → r.length = l.length := by
  intro l
  induction l with
  | nil => intro r h; simp at h; subst h; rfl
  | cons a as ih =>
    intro r h
    simp only [List.mapM_cons] at h
    cases hfa : f a with
    | none => simp [hfa] at h
    | some b =>
      cases hr : as.mapM f with
      | none => simp [hfa, hr] at h
      | some bs =>
        simp [hfa, hr] at h
        subst h
        simp [ih bs hr]

theorem mapM_option_map {α β γ} (f : α → Option β) (g : α → γ) (g' : β → γ)
    (hfg : ∀ a b, f a = some b → g' b = g a) :
    ∀ (l : List α) (r : List β), l.mapM f = some r → r.map g' = l.map g := by
  intro l
  induction l with
  | nil => intro r h; simp at h; subst h; rfl
  | cons a as ih =>
    intro r h
    simp only [List.mapM_cons] at h
    cases hfa : f a with
    | none => simp [hfa] at h
    | some b =>
      cases hr : as.mapM f with
      | none => simp [hfa, hr] at h
      | some bs =>
        simp [hfa, hr] at h
        subst h
        simp [ih bs hr, hfg a b hfa]

/-- the structured file declares exactly those mocks, in that order -/
theorem c20_file_mocks (d : Data) (f : GoFile) (h : genFile d = some f) :
    f.mocks.map (fun m => (m.ifaceName, m.mockName)) = d.mocks.map (fun m => (m.ifaceName, m.mockName)) := by
  unfold genFile at h
  cases hm : d.mocks.mapM (genMockF d) with
  | none => simp [hm] at h
  | some ms =>
    simp [hm] at h
    subst h
    apply mapM_option_map (genMockF d) _ _ _ d.mocks ms hm
    intro mk mf hg
    unfold genMockF at hg
    cases hmm : mk.methods.mapM (genMethodF d mk) with
    | none => simp [hmm] at hg
    | some mfs => simp [hmm] at hg; subst hg; rfl

/-- non-vacuity: parsing the three argument shapes -/
example : parseInterfaceName s%"Store" = (s%"Store", s%"StoreMock") ∧
          parseInterfaceName s%"Store:Fake" = (s%"Store", s%"Fake") ∧
          parseInterfaceName s%"A:B:C" = (s%"A", s%"B:C") := by decide

end Moq
