import MoqModel.GoFile
import MoqModel.AllocLemmas
/-
  C20 — one mock per requested interface, named as requested, independent of the others.

  * `c20_one_per_arg` : the mocks of a successful run are, in argument order, exactly the parsed
    arguments – `I` gives (`I`, `IMock`), `I:N` gives (`I`, `N`) (first `:` splits).
  * `c20_file_mocks`  : the same holds of the structured file, and of its type declarations.
  * independence of the mocks as *types* (joint vs solo generation) rests on the shared import
    registry only through qualifiers; it is decided by correspondence plus the go/types
    comparison of joint and solo generations (DESIGN.md §6 C20), with the witness F-12 outside.
-/
namespace Moq

theorem mocksAlloc_names (o : Ord) (fuel : Nat) (scope : List (Str × Obj)) :
    ∀ (args : List Str) (r r' : Registry) (ms : List MockAlloc),
      mocksAlloc o fuel scope r args = .ok (r', ms) →
      ms.map (fun m => (m.ifaceName, m.mockName)) = args.map parseInterfaceName := by
  intro args
  induction args with
  | nil => intro r r' ms h; simp [mocksAlloc] at h; rw [h.2]; rfl
  | cons np nps ih =>
    intro r r' ms h
    unfold mocksAlloc at h
    rcases hp : parseInterfaceName np with ⟨name, mockName⟩
    simp only [hp] at h
    cases hs : scope.find? (fun x => x.1 = name) with
    | none => simp [hs] at h
    | some kv =>
      rcases kv with ⟨k, obj⟩
      cases obj with
      | notIface ts => simp [hs] at h
      | iface msIn generic tps tn ts =>
        cases tn with
        | false => simp [hs] at h
        | true =>
        simp only [hs] at h
        cases hma : methodsAlloc o fuel r msIn with
        | error e => simp [hma] at h
        | ok rm =>
          rcases rm with ⟨r1, mas⟩
          simp only [hma] at h
          cases htp : (if generic then tparamsAlloc o fuel r1 tps else .ok (r1, [])) with
          | error e => simp [htp] at h
          | ok rt =>
            rcases rt with ⟨r2, tvs⟩
            simp only [htp] at h
            cases hrest : mocksAlloc o fuel scope r2 nps with
            | error e => simp [hrest] at h
            | ok rr =>
              rcases rr with ⟨r3, rest⟩
              simp only [hrest] at h
              cases h
              simp only [List.map_cons, hp]
              rw [ih r2 _ rest hrest]

theorem splitAtColon_plain (np : Str) (h : ':' ∉ np) : splitAtColon np = (np, none) := by
  induction np with
  | nil => rfl
  | cons c cs ih =>
    have hc : c ≠ ':' := fun e => h (e ▸ List.mem_cons_self)
    have hcs : ':' ∉ cs := fun m => h (List.mem_cons_of_mem _ m)
    simp [splitAtColon, hc, ih hcs]

theorem splitAtColon_pair (a b : Str) (h : ':' ∉ a) : splitAtColon (a ++ ':' :: b) = (a, some b) := by
  induction a with
  | nil => simp [splitAtColon]
  | cons c cs ih =>
    have hc : c ≠ ':' := fun e => h (e ▸ List.mem_cons_self)
    have hcs : ':' ∉ cs := fun m => h (List.mem_cons_of_mem _ m)
    simp [splitAtColon, hc, ih hcs]

/-- `I` ↦ (`I`, `IMock`) when the argument has no colon -/
theorem parse_plain (np : Str) (h : ':' ∉ np) : parseInterfaceName np = (np, np ++ s%"Mock") := by
  simp [parseInterfaceName, splitAtColon_plain np h]

/-- `I:N` ↦ (`I`, `N`): the first colon splits, the mock gets exactly the requested name -/
theorem parse_pair (a b : Str) (h : ':' ∉ a) : parseInterfaceName (a ++ ':' :: b) = (a, b) := by
  simp [parseInterfaceName, splitAtColon_pair a b h]

/-- **one mock per argument, in argument order, named as requested** -/
theorem c20_one_per_arg (o : Ord) (fuel : Nat) (inp : Input) (a : Alloc) (h : genAlloc o fuel inp = .ok a) :
    a.mocks.map (fun m => (m.ifaceName, m.mockName)) = inp.args.map parseInterfaceName := by
  unfold genAlloc at h
  split at h
  · cases h
  · cases hm : mocksAlloc o fuel inp.scope (initRegistry inp) inp.args with
    | error e => simp [hm] at h
    | ok rm =>
      rcases rm with ⟨r1, mocks⟩
      have hn := mocksAlloc_names o fuel inp.scope inp.args _ r1 mocks hm
      simp only [hm] at h
      cases hs : addSync o fuel r1 mocks with
      | none => simp [hs] at h
      | some r2 =>
        simp only [hs] at h
        cases hq : addSrc o fuel inp r2 with
        | none => simp [hq] at h
        | some rq =>
          rcases rq with ⟨r3, q⟩
          simp only [hq] at h
          cases h
          exact hn

theorem mapM_option_length {α β} (f : α → Option β) :
    ∀ (l : List α) (r : List β), l.mapM f = some r → r.length = l.length := by
  intro l
  induction l with
  | nil => intro r h; simp at h; subst h; rfl
  | cons a as ih =>
    intro r h
    simp only [List.mapM_cons] at h
    cases hfa : f a with
    | none => simp [hfa] at h
    | some b =>
      cases hr : as.mapM f with
      | none => simp [hfa, hr] at h
      | some bs =>
        simp [hfa, hr] at h
        subst h
        simp [ih bs hr]

theorem mapM_option_map {α β γ} (f : α → Option β) (g : α → γ) (g' : β → γ)
    (hfg : ∀ a b, f a = some b → g' b = g a) :
    ∀ (l : List α) (r : List β), l.mapM f = some r → r.map g' = l.map g := by
  intro l
  induction l with
  | nil => intro r h; simp at h; subst h; rfl
  | cons a as ih =>
    intro r h
    simp only [List.mapM_cons] at h
    cases hfa : f a with
    | none => simp [hfa] at h
    | some b =>
      cases hr : as.mapM f with
      | none => simp [hfa, hr] at h
      | some bs =>
        simp [hfa, hr] at h
        subst h
        simp [ih bs hr, hfg a b hfa]

/-- the structured file declares exactly those mocks, in that order -/
theorem c20_file_mocks (d : Data) (f : GoFile) (h : genFile d = some f) :
    f.mocks.map (fun m => (m.ifaceName, m.mockName)) = d.mocks.map (fun m => (m.ifaceName, m.mockName)) := by
  unfold genFile at h
  cases hm : d.mocks.mapM (genMockF d) with
  | none => simp [hm] at h
  | some ms =>
    simp [hm] at h
    subst h
    apply mapM_option_map (genMockF d) _ _ _ d.mocks ms hm
    intro mk mf hg
    unfold genMockF at hg
    cases hmm : mk.methods.mapM (genMethodF d mk) with
    | none => simp [hmm] at hg
    | some mfs => simp [hmm] at hg; subst hg; rfl

/-- non-vacuity: parsing the three argument shapes -/
example : parseInterfaceName s%"Store" = (s%"Store", s%"StoreMock") ∧
          parseInterfaceName s%"Store:Fake" = (s%"Store", s%"Fake") ∧
          parseInterfaceName s%"A:B:C" = (s%"A", s%"B:C") := by decide

end Moq

namespace Moq

/-- scope entries are well-shaped: as many names as types in every signature (Go syntax) -/
def ScopeShaped (scope : List (Str × Obj)) : Prop :=
  ∀ kv ∈ scope, match kv.2 with
    | .iface ms _ _ _ _ => ∀ m ∈ ms, m.pnames.length = m.ptys.length ∧ m.rnames.length = m.rtys.length
    | _ => True

/-- every mock of a successful run is the mock of the interface the package scope holds under
    its name: same methods, same order, same arity and variadic-ness, and exactly the
    interface's parameter and result types – whatever the registry held when it was built -/
theorem mocksAlloc_mock_shape (o : Ord) (fuel : Nat) (scope : List (Str × Obj)) (hs : ScopeShaped scope) :
    ∀ (args : List Str) (r r' : Registry) (ms : List MockAlloc),
      mocksAlloc o fuel scope r args = .ok (r', ms) →
      ∀ m ∈ ms, ∃ k msIn generic tps ts,
        scope.find? (fun x => x.1 = m.ifaceName) = some (k, .iface msIn generic tps true ts) ∧
        m.methods.map MethodAlloc.sigView = msIn.map MethodIn.sigView := by
  intro args
  induction args with
  | nil => intro r r' ms h m hm; simp [mocksAlloc] at h; rw [h.2] at hm; cases hm
  | cons np nps ih =>
    intro r r' ms h m hm
    unfold mocksAlloc at h
    rcases hp : parseInterfaceName np with ⟨name, mockName⟩
    simp only [hp] at h
    cases hsf : scope.find? (fun x => x.1 = name) with
    | none => simp [hsf] at h
    | some kv =>
      rcases kv with ⟨k, obj⟩
      cases obj with
      | notIface ts => simp [hsf] at h
      | iface msIn generic tps tn ts =>
        cases tn with
        | false => simp [hsf] at h
        | true =>
        simp only [hsf] at h
        cases hma : methodsAlloc o fuel r msIn with
        | error e => simp [hma] at h
        | ok rm =>
          rcases rm with ⟨r1, mas⟩
          simp only [hma] at h
          cases htp : (if generic then tparamsAlloc o fuel r1 tps else .ok (r1, [])) with
          | error e => simp [htp] at h
          | ok rt =>
            rcases rt with ⟨r2, tvs⟩
            simp only [htp] at h
            cases hrest : mocksAlloc o fuel scope r2 nps with
            | error e => simp [hrest] at h
            | ok rr =>
              rcases rr with ⟨r3, rest⟩
              simp only [hrest] at h
              cases h
              rcases List.mem_cons.mp hm with rfl | hm
              · refine ⟨k, msIn, generic, tps, ts, hsf, ?_⟩
                have hmem := List.mem_of_find?_eq_some hsf
                have hshape := hs _ hmem
                simp only [] at hshape
                exact methodsAlloc_shape o fuel msIn r r1 mas hshape hma
              · exact ih r2 _ rest hrest m hm

/-- **independence**: the mock of an interface has the same methods with the same types in any
    two successful runs over the same package – other interfaces requested alongside, their
    order, the flags that shape the registry, even the map-iteration order change qualifiers and
    parameter *names* at most, never the mock as a type -/
theorem c20_independent (o1 o2 : Ord) (f1 f2 : Nat) (scope : List (Str × Obj)) (hs : ScopeShaped scope)
    (args1 args2 : List Str) (r1 r1' r2 r2' : Registry) (ms1 ms2 : List MockAlloc)
    (h1 : mocksAlloc o1 f1 scope r1 args1 = .ok (r1', ms1))
    (h2 : mocksAlloc o2 f2 scope r2 args2 = .ok (r2', ms2))
    (m1 m2 : MockAlloc) (hm1 : m1 ∈ ms1) (hm2 : m2 ∈ ms2) (hn : m1.ifaceName = m2.ifaceName) :
    m1.methods.map MethodAlloc.sigView = m2.methods.map MethodAlloc.sigView := by
  obtain ⟨k1, msIn1, g1, tps1, ts1, hf1, hv1⟩ := mocksAlloc_mock_shape o1 f1 scope hs args1 r1 r1' ms1 h1 m1 hm1
  obtain ⟨k2, msIn2, g2, tps2, ts2, hf2, hv2⟩ := mocksAlloc_mock_shape o2 f2 scope hs args2 r2 r2' ms2 h2 m2 hm2
  rw [hn] at hf1
  rw [hf1] at hf2
  cases hf2
  rw [hv1, hv2]

end Moq
