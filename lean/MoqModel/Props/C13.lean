import MoqModel.Names
import MoqModel.Preds
/-
  C13 — call-record field names follow the parameter names predictably.
-/
namespace Moq
open Generated

/-- closed form of `Exported` -/
def exportedSpec (s : Str) : Str :=
  if s = [] then []
  else if Str.upper s ∈ initialisms then Str.upper s
  else match s with
    | [] => []
    | c :: cs => Str.upperC c :: cs

theorem find_eq_self {l : List Str} {x : Str} (h : x ∈ l) :
    l.find? (fun i => x = i) = some x := by
  induction l with
  | nil => cases h
  | cons a as ih =>
    by_cases hx : x = a
    · subst hx; simp
    · have : x ∈ as := by
        cases h with
        | head => exact absurd rfl hx
        | tail _ h' => exact h'
      simp [List.find?, hx, ih this]

theorem find_none_of_not_mem {l : List Str} {x : Str} (h : x ∉ l) :
    l.find? (fun i => x = i) = none := by
  induction l with
  | nil => rfl
  | cons a as ih =>
    have h1 : x ≠ a := fun e => h (e ▸ List.mem_cons_self)
    have h2 : x ∉ as := fun m => h (List.mem_cons_of_mem _ m)
    simp [List.find?, h1, ih h2]

/-- `Exported` is: empty stays empty; a name that is an initialism ignoring case becomes that
    initialism; anything else gets its first letter upper-cased. -/
theorem c13_exported_spec (s : Str) : exported s = exportedSpec s := by
  unfold exported exportedSpec
  cases s with
  | nil => rfl
  | cons c cs =>
    by_cases h : Str.upper (c :: cs) ∈ initialisms
    · simp only [find_eq_self h]; simp [h]
    · simp only [find_none_of_not_mem h]; simp [h]

/-- the initialism table of the current source is golint's list of 38 (regenerated, so removing or
    misspelling an entry breaks this theorem and names the table) -/
theorem c13_table :
    initialisms = [s%"ACL", s%"API", s%"ASCII", s%"CPU", s%"CSS", s%"DNS", s%"EOF", s%"GUID", s%"HTML", s%"HTTP",
      s%"HTTPS", s%"ID", s%"IP", s%"JSON", s%"LHS", s%"QPS", s%"RAM", s%"RHS", s%"RPC", s%"SLA", s%"SMTP", s%"SQL",
      s%"SSH", s%"TCP", s%"TLS", s%"TTL", s%"UDP", s%"UI", s%"UID", s%"UUID", s%"URI", s%"URL", s%"UTF8", s%"VM",
      s%"XML", s%"XMPP", s%"XSRF", s%"XSS"] := by
  decide

/-- a parameter name written in the interface is kept verbatim (plus the `Out` suffix for
    results); only collisions handled later by `AddVar` can change it -/
theorem c13_user_name_verbatim (n : Str) (t : Ty) (sfx : Str) (h1 : n ≠ []) (h2 : n ≠ s%"_") :
    varName n t sfx = some (n ++ sfx) := by
  simp [varName, h1, h2]

/-- unnamed (or blank) parameters: the type-derived default, `MoqParam` appended when that is a
    reserved word -/
theorem c13_unnamed_rule (n : Str) (t : Ty) (sfx : Str) (h : n = [] ∨ n = s%"_") :
    varName n t sfx = (varNameForType t).map fun g =>
      if g ++ sfx ∈ reservedNames then g ++ sfx ++ moqParamSuffix else g ++ sfx := by
  rcases h with h | h <;> subst h <;> simp [varName]

/-- the fixed rule for type-derived names, constructor by constructor -/
theorem c13_type_rule (p : PkgRef) (o : Str) (targs : List Ty) (u : Bool) (e k v : Ty) (n : Nat) (d : ChanDir) :
    varNameForType (.basic s%"string") = some s%"s" ∧
    varNameForType (.basic s%"int") = some s%"n" ∧ varNameForType (.basic s%"int64") = some s%"n" ∧
    varNameForType (.basic s%"float64") = some s%"f" ∧ varNameForType (.basic s%"bool") = some s%"b" ∧
    varNameForType (.basic s%"uint") = some s%"v" ∧
    varNameForType (.named ⟨[], []⟩ s%"error" [] false) = some s%"err" ∧
    varNameForType (.ptr e) = varNameForType e ∧
    varNameForType (.sig [] [] [] [] false) = some s%"fn" ∧
    varNameForType (.struct [] [] [] []) = some s%"val" ∧
    varNameForType (.iface [] [] [] false) = some s%"ifaceVal" ∧
    varNameForType (.tparam o) = some s%"v" ∧
    varNameForType (.slice (.basic s%"int")) = some s%"ints" ∧
    varNameForType (.map (.basic s%"string") (.basic s%"int")) = some s%"stringToInt" ∧
    varNameForType (.chan d (.basic s%"int")) = some s%"intCh" ∧
    varNameForType (.named p s%"MyType" targs u) = some s%"myType" ∧
    varNameForType (.slice (.named p s%"MyType" targs u)) = some s%"myTypes" ∧
    varNameForType (.named p s%"lower" targs u) = some s%"lowerMoqParam" := by
  refine ⟨by decide, by decide, by decide, by decide, by decide, by decide, by decide, rfl, rfl, rfl, rfl, rfl,
    by decide, by decide, ?_, ?_, ?_, ?_⟩
  · cases d <;> decide
  · simp [varNameForType, deCapitalise]; decide
  · simp [varNameForType, deCapitalise]; decide
  · simp [varNameForType, deCapitalise]; decide

/-- the reserved list covers the Go keywords, the basic type names, and the two locals of the
    generated method -/
theorem c13_reserved_covers :
    (goKeywords.all fun k => k ∈ reservedNames) = true ∧ (basicTypeNames.all fun k => k ∈ reservedNames) = true ∧
    s%"mock" ∈ reservedNames ∧ s%"callInfo" ∈ reservedNames := by
  refine ⟨by decide, by decide, by decide, by decide⟩

end Moq
