import MoqModel.Names
/-
  C13 — call-record field names follow the parameter names predictably.
-/
namespace Moq
open Generated

/-- closed form of `Exported` -/
def exportedSpec (s : Str) : Str :=
  if s = [] then []
  else if Str.upper s ∈ initialisms then Str.upper s
  else match s with
    | [] => []
    | c :: cs => Str.upperC c :: cs

theorem find_eq_self {l : List Str} {x : Str} (h : x ∈ l) :
    l.find? (fun i => x = i) = some x := by
  induction l with
  | nil => cases h
  | cons a as ih =>
    by_cases hx : x = a
    · subst hx; simp
    · have : x ∈ as := by
        cases h with
        | head => exact absurd rfl hx
        | tail _ h' => exact h'
      simp [List.find?, hx, ih this]

theorem find_none_of_not_mem {l : List Str} {x : Str} (h : x ∉ l) :
    l.find? (fun i => x = i) = none := by
  induction l with
  | nil => rfl
  | cons a as ih =>
    have h1 : x ≠ a := fun e => h (e ▸ List.mem_cons_self)
    have h2 : x ∉ as := fun m => h (List.mem_cons_of_mem _ m)
    simp [List.find?, h1, ih h2]

/-- `Exported` is: empty stays empty; a name that is an initialism ignoring case becomes that
    initialism; anything else gets its first letter upper-cased. -/
theorem c13_exported_spec (s : Str) : exported s = exportedSpec s := by
  unfold exported exportedSpec
  cases s with
  | nil => rfl
  | cons c cs =>
    by_cases h : Str.upper (c :: cs) ∈ initialisms
    · simp only [find_eq_self h]; simp [h]
    · simp only [find_none_of_not_mem h]; simp [h]

end Moq
