import MoqModel.Props.C06
/-
  C05 — concurrent use is data-race free and loses no call record.

  Over the interleaving semantics (`Conc`), for every mock file moq generates, any number of
  goroutines, every schedule:
  * `c05_mutual_exclusion` : a mutex held for writing is held by nobody else;
  * `c05_header_race_free` : no two goroutines are ever about to access the same slice header
      `mock.calls.M` with one of the accesses being a write (the accesses of `append`, of the
      accessor and of the resets all happen under `lockM` in the right mode);
  * `c05_append_atomic`    : between the header read and the header write of an `append` the
      goroutine holds `lockM` for writing, so no other goroutine can write that header: no lost
      update (the three micro-steps compose to Go's `append`: `cellStep_is_append`).
  Cells of the backing arrays, prefix-ordering of snapshots and the record count at quiescence
  are in ConcHeap (`c05_cell_race_free`, `c05_log`).
  Trusted: the Go memory model's DRF-SC guarantee, and "simultaneously enabled conflicting
  accesses" as the definition of a race; a theorem here cannot exhibit a weak-memory execution.
-/
namespace Moq.Conc
open Moq Moq.Seq

variable (grow : Nat → Nat) (bodies : List (List MI)) (hb : ∀ b ∈ bodies, guarded [] b = true)

include hb in
theorem c05_mutual_exclusion (g : G) (r : Reach grow bodies g) (t t' : Tid) (m : Str) (md : Mode)
    (hne : t ≠ t') (hw : (m, Mode.w) ∈ (g.thr t).held) : (m, md) ∉ (g.thr t').held :=
  (reach_lockInv grow bodies hb g r).excl t t' m md hne hw

/-- the slice header the next micro-instruction of `t` touches, and whether it writes it -/
def hdrAccess (g : G) (t : Tid) : Option (Str × Bool) :=
  match (g.thr t).code with
  | .rdHdr m :: _ => some (m, false)
  | .rdSnap m :: _ => some (m, false)
  | .wrHdr m :: _ => some (m, true)
  | .clear m :: _ => some (m, true)
  | _ => none

theorem hdrAccess_held (g : G) (inv : LockInv g) (t : Tid) (m : Str) (w : Bool)
    (h : hdrAccess g t = some (m, w)) :
    (w = true → (m, Mode.w) ∈ (g.thr t).held) ∧ (∃ md, (m, md) ∈ (g.thr t).held) := by
  have hg := inv.guard t
  unfold hdrAccess at h
  cases hc : (g.thr t).code with
  | nil => simp [hc] at h
  | cons mi rest =>
    rw [hc] at h hg
    cases mi <;> simp at h
    case rdHdr m' =>
      obtain ⟨rfl, rfl⟩ := h
      simp [guarded] at hg
      exact ⟨by simp, ⟨Mode.w, by simp [hg.1]⟩⟩
    case rdSnap m' =>
      obtain ⟨rfl, rfl⟩ := h
      simp [guarded] at hg
      rcases hg.1 with e | e
      · exact ⟨by simp, ⟨Mode.r, by simp [e]⟩⟩
      · exact ⟨by simp, ⟨Mode.w, by simp [e]⟩⟩
    case wrHdr m' =>
      obtain ⟨rfl, rfl⟩ := h
      simp [guarded] at hg
      exact ⟨fun _ => by simp [hg.1], ⟨Mode.w, by simp [hg.1]⟩⟩
    case clear m' =>
      obtain ⟨rfl, rfl⟩ := h
      simp [guarded] at hg
      exact ⟨fun _ => by simp [hg.1], ⟨Mode.w, by simp [hg.1]⟩⟩

include hb in
/-- **no data race on a slice header, in any schedule** -/
theorem c05_header_race_free (g : G) (r : Reach grow bodies g) (t t' : Tid) (hne : t ≠ t') (m : Str)
    (w w' : Bool) (ha : hdrAccess g t = some (m, w)) (ha' : hdrAccess g t' = some (m, w')) :
    w = false ∧ w' = false := by
  have inv := reach_lockInv grow bodies hb g r
  have h1 := hdrAccess_held g inv t m w ha
  have h2 := hdrAccess_held g inv t' m w' ha'
  constructor
  · cases w with
    | false => rfl
    | true =>
      obtain ⟨md, hmd⟩ := h2.2
      exact absurd hmd (inv.excl t t' m md hne (h1.1 rfl))
  · cases w' with
    | false => rfl
    | true =>
      obtain ⟨md, hmd⟩ := h1.2
      exact absurd hmd (inv.excl t' t m md (fun e => hne e.symm) (h2.1 rfl))

include hb in
/-- between reading and writing back the header, `append` holds the method's mutex for writing:
    nobody else can be about to write that header (no lost update) -/
theorem c05_append_atomic (g : G) (r : Reach grow bodies g) (t t' : Tid) (hne : t ≠ t') (m : Str)
    (rest : List MI) (hc : (g.thr t).code = .wrCell m :: rest ∨ (g.thr t).code = .wrHdr m :: rest)
    (w' : Bool) : hdrAccess g t' ≠ some (m, w') := by
  have inv := reach_lockInv grow bodies hb g r
  intro ha'
  have hw : (m, Mode.w) ∈ (g.thr t).held := by
    have hg := inv.guard t
    rcases hc with hc | hc <;> rw [hc] at hg <;> simp [guarded] at hg <;> simp [hg.1]
  obtain ⟨md, hmd⟩ := (hdrAccess_held g inv t' m w' ha').2
  exact inv.excl t t' m md hne hw hmd

/-- the three micro-steps of `append` compose to Go's `append` as the sequential model has it -/
theorem cellStep_is_append (grow : Nat → Nat) (s : St) (m : Str) (r : Rec) :
    appendRec grow s m r =
      { s with arrays := upd s.arrays m (cellStep grow (s.arrays m) (s.hdr m) r).1,
               hdr := upd s.hdr m (cellStep grow (s.arrays m) (s.hdr m) r).2 } := by
  simp only [appendRec, cellStep]
  split <;> rfl

end Moq.Conc
