import MoqModel.Props.C06
import MoqModel.ConcHeap
/-
  C05 — concurrent use is data-race free and loses no call record.

  Over the interleaving semantics (`Conc`), for every mock file moq generates, any number of
  goroutines, every schedule:
  * `c05_mutual_exclusion` : a mutex held for writing is held by nobody else;
  * `c05_header_race_free` : no two goroutines are ever about to access the same slice header
      `mock.calls.M` with one of the accesses being a write (the accesses of `append`, of the
      accessor and of the resets all happen under `lockM` in the right mode);
  * `c05_append_atomic`    : between the header read and the header write of an `append` the
      goroutine holds `lockM` for writing, so no other goroutine can write that header: no lost
      update (the three micro-steps compose to Go's `append`: `cellStep_is_append`).
  Cells of the backing arrays, prefix-ordering of snapshots and the record count at quiescence
  are in ConcHeap (`c05_cell_race_free`, `c05_log`).
  Trusted: the Go memory model's DRF-SC guarantee, and "simultaneously enabled conflicting
  accesses" as the definition of a race; a theorem here cannot exhibit a weak-memory execution.
-/
namespace Moq.Conc
open Moq Moq.Seq

variable (grow : Nat → Nat) (bodies : List (List MI)) (hb : ∀ b ∈ bodies, guarded [] b = true)

include hb in
theorem c05_mutual_exclusion (g : G) (r : Reach grow bodies g) (t t' : Tid) (m : Str) (md : Mode)
    (hne : t ≠ t') (hw : (m, Mode.w) ∈ (g.thr t).held) : (m, md) ∉ (g.thr t').held :=
  (reach_lockInv grow bodies hb g r).excl t t' m md hne hw

/-- the slice header the next micro-instruction of `t` touches, and whether it writes it -/
def hdrAccess (g : G) (t : Tid) : Option (Str × Bool) :=
  match (g.thr t).code with
  | .rdHdr m :: _ => some (m, false)
  | .rdSnap m :: _ => some (m, false)
  | .wrHdr m :: _ => some (m, true)
  | .clear m :: _ => some (m, true)
  | _ => none

theorem hdrAccess_held (g : G) (inv : LockInv g) (t : Tid) (m : Str) (w : Bool)
    (h : hdrAccess g t = some (m, w)) :
    (w = true → (m, Mode.w) ∈ (g.thr t).held) ∧ (∃ md, (m, md) ∈ (g.thr t).held) := by
  have hg := inv.guard t
  unfold hdrAccess at h
  cases hc : (g.thr t).code with
  | nil => simp [hc] at h
  | cons mi rest =>
    rw [hc] at h hg
    cases mi <;> simp at h
    case rdHdr m' =>
      obtain ⟨rfl, rfl⟩ := h
      simp [guarded] at hg
      exact ⟨by simp, ⟨Mode.w, by simp [hg.1]⟩⟩
    case rdSnap m' =>
      obtain ⟨rfl, rfl⟩ := h
      simp [guarded] at hg
      rcases hg.1 with e | e
      · exact ⟨by simp, ⟨Mode.r, by simp [e]⟩⟩
      · exact ⟨by simp, ⟨Mode.w, by simp [e]⟩⟩
    case wrHdr m' =>
      obtain ⟨rfl, rfl⟩ := h
      simp [guarded] at hg
      exact ⟨fun _ => by simp [hg.1], ⟨Mode.w, by simp [hg.1]⟩⟩
    case clear m' =>
      obtain ⟨rfl, rfl⟩ := h
      simp [guarded] at hg
      exact ⟨fun _ => by simp [hg.1], ⟨Mode.w, by simp [hg.1]⟩⟩

include hb in
/-- **no data race on a slice header, in any schedule** -/
theorem c05_header_race_free (g : G) (r : Reach grow bodies g) (t t' : Tid) (hne : t ≠ t') (m : Str)
    (w w' : Bool) (ha : hdrAccess g t = some (m, w)) (ha' : hdrAccess g t' = some (m, w')) :
    w = false ∧ w' = false := by
  have inv := reach_lockInv grow bodies hb g r
  have h1 := hdrAccess_held g inv t m w ha
  have h2 := hdrAccess_held g inv t' m w' ha'
  constructor
  · cases w with
    | false => rfl
    | true =>
      obtain ⟨md, hmd⟩ := h2.2
      exact absurd hmd (inv.excl t t' m md hne (h1.1 rfl))
  · cases w' with
    | false => rfl
    | true =>
      obtain ⟨md, hmd⟩ := h1.2
      exact absurd hmd (inv.excl t' t m md (fun e => hne e.symm) (h2.1 rfl))

include hb in
/-- between reading and writing back the header, `append` holds the method's mutex for writing:
    nobody else can be about to write that header (no lost update) -/
theorem c05_append_atomic (g : G) (r : Reach grow bodies g) (t t' : Tid) (hne : t ≠ t') (m : Str)
    (rest : List MI) (hc : (g.thr t).code = .wrCell m :: rest ∨ (g.thr t).code = .wrHdr m :: rest)
    (w' : Bool) : hdrAccess g t' ≠ some (m, w') := by
  have inv := reach_lockInv grow bodies hb g r
  intro ha'
  have hw : (m, Mode.w) ∈ (g.thr t).held := by
    have hg := inv.guard t
    rcases hc with hc | hc <;> rw [hc] at hg <;> simp [guarded] at hg <;> simp [hg.1]
  obtain ⟨md, hmd⟩ := (hdrAccess_held g inv t' m w' ha').2
  exact inv.excl t t' m md hne hw hmd

/-- the three micro-steps of `append` compose to Go's `append` as the sequential model has it -/
theorem cellStep_is_append (grow : Nat → Nat) (s : St) (m : Str) (r : Rec) :
    appendRec grow s m r =
      { s with arrays := upd s.arrays m (cellStep grow (s.arrays m) (s.hdr m) r).1,
               hdr := upd s.hdr m (cellStep grow (s.arrays m) (s.hdr m) r).2 } := by
  simp only [appendRec, cellStep]
  split <;> rfl

end Moq.Conc

namespace Moq.Conc
open Moq Moq.Seq

variable (grow : Nat → Nat) (bodies : List (List MI)) (hb : BodiesOK bodies)

include hb in
/-- **the records behave like one atomic append-only list per method**: in every reachable
    state what `MCalls()` would return is exactly the ghost log – the records committed (one per
    completed `append`, each exactly the `callInfo` of its call: `Step.wrHdr`) since the last
    reset, in commit order -/
theorem c05_log (g : G) (r : Reach grow bodies g) (m : Str) : g.contents m (g.hdr m) = g.log m :=
  (reach_inv grow bodies hb g r).2.log m

include hb in
/-- a slice handed out earlier denotes, in every later state of every schedule, exactly the
    records it denoted when it was taken (no tearing, no later change) -/
theorem c05_snapshot_stable (g : G) (r : Reach grow bodies g) (t : Tid) (x : Snap)
    (hx : x ∈ (g.thr t).snaps) : g.contents x.1 x.2.1 = x.2.2.1 :=
  (reach_inv grow bodies hb g r).2.ghost t x hx

theorem prefix_comparable {α} (a b l : List α) (ha : a <+: l) (hb : b <+: l) : a <+: b ∨ b <+: a := by
  by_cases h : a.length ≤ b.length
  · exact Or.inl (List.prefix_of_prefix_length_le ha hb h)
  · exact Or.inr (List.prefix_of_prefix_length_le hb ha (by omega))

include hb in
/-- **between resets, every snapshot is a prefix of every later one**: two snapshots of the same
    method taken in the current reset epoch are comparable by the prefix order -/
theorem c05_prefix (g : G) (r : Reach grow bodies g) (t t' : Tid) (x y : Snap)
    (hx : x ∈ (g.thr t).snaps) (hy : y ∈ (g.thr t').snaps) (hm : x.1 = y.1)
    (ex : x.2.2.2 = g.epoch x.1) (ey : y.2.2.2 = g.epoch y.1) :
    x.2.2.1 <+: y.2.2.1 ∨ y.2.2.1 <+: x.2.2.1 := by
  have inv := (reach_inv grow bodies hb g r).2
  have px := inv.pref t x hx ex
  have py := inv.pref t' y hy ey
  rw [hm] at px
  exact prefix_comparable _ _ _ px py

/-- the cell an in-place `append` is about to store into -/
def cellWrite (g : G) (t : Tid) : Option (Str × Nat × Nat) :=
  match (g.thr t).code with
  | .wrCell m :: _ => if (g.thr t).h.len < (g.thr t).h.cap then some (m, (g.thr t).h.arr, (g.thr t).h.len) else none
  | _ => none

/-- cells a goroutine may read without any lock: those of the slices it was handed -/
def snapReads (g : G) (t : Tid) (m : Str) (a i : Nat) : Prop :=
  ∃ x ∈ (g.thr t).snaps, x.1 = m ∧ x.2.1.arr = a ∧ i < x.2.1.len

include hb in
/-- **no data race on the backing arrays**: the cell an in-place `append` writes is beyond the
    length of every slice of that array that was ever handed out, so user code reading its
    snapshots never touches it -/
theorem c05_cell_race_free (g : G) (r : Reach grow bodies g) (t t' : Tid) (m : Str) (a i : Nat)
    (hw : cellWrite g t = some (m, a, i)) : ¬ snapReads g t' m a i := by
  obtain ⟨linv, inv⟩ := reach_inv grow bodies hb g r
  unfold cellWrite at hw
  cases hc : (g.thr t).code with
  | nil => simp [hc] at hw
  | cons mi rest =>
    rw [hc] at hw
    cases mi <;> simp at hw
    case wrCell m' =>
      obtain ⟨_, rfl, rfl, rfl⟩ := hw
      have hh := inv.rd t m' rest hc
      rintro ⟨x, hx, hxm, hxa, hxi⟩
      have s := inv.snapOK t' x hx
      have := s.below (by simp only [G.toSt, hxm]; rw [hxa, hh])
      simp only [G.toSt, hxm] at this
      rw [hh] at hxi
      omega

include hb in
/-- two goroutines are never both inside the memory steps of an `append` on the same method -/
theorem c05_cell_writers_exclusive (g : G) (r : Reach grow bodies g) (t t' : Tid) (m : Str) (rest rest' : List MI)
    (h1 : (g.thr t).code = .wrCell m :: rest ∨ (g.thr t).code = .wrHdr m :: rest)
    (h2 : (g.thr t').code = .wrCell m :: rest' ∨ (g.thr t').code = .wrHdr m :: rest') : t = t' := by
  obtain ⟨linv, _⟩ := reach_inv grow bodies hb g r
  apply Classical.byContradiction
  intro hne
  have w1 := holdsW_of_code g linv t m rest (by rcases h1 with h | h; exact Or.inl h; exact Or.inr (Or.inl h))
  have w2 := holdsW_of_code g linv t' m rest' (by rcases h2 with h | h; exact Or.inl h; exact Or.inr (Or.inl h))
  exact linv.excl t t' m Mode.w hne w1 w2

/-- every compiled body of every generated mock is guarded and keeps `append`'s steps together -/
theorem c05_bodies_ok (d : Data) (mk : MockD) (f : MockF) (h : genMockF d mk = some f) :
    BodiesOK (mockBodies f) := by
  intro b hbm
  refine ⟨c06_bodies_guarded d mk f h b hbm, ?_⟩
  -- every body is `compile` of a statement list
  unfold mockBodies at hbm
  rcases List.mem_append.mp hbm with h1 | h2
  · obtain ⟨mf, _, hbm'⟩ := List.mem_flatMap.mp h1
    rcases List.mem_append.mp hbm' with h3 | h4
    · simp at h3; rcases h3 with e | e <;> subst e <;> exact wfCode_compile _
    · cases hrb : mf.resetBody with
      | none => simp [hrb] at h4
      | some rb => simp [hrb] at h4; subst h4; exact wfCode_compile _
  · cases hra : f.resetAll with
    | none => simp [hra] at h2
    | some rb => simp [hra] at h2; subst h2; exact wfCode_compile _

end Moq.Conc
