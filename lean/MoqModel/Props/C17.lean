import MoqModel.CliSpec
import MoqModel.GlueFacts
/-
  C17 — output is all-or-nothing: failures write nothing.

  About `main.run` (regenerated, via `run_eq_spec`), for every flag value, prior file system,
  library behaviour and fault plan.  The library contract used here – `Mocker.Mock` either
  fails having written nothing or writes the complete text once – is the C17 statement about
  `Mocker.Mock`, decided on `Generated.mockProg` below (`c17_mock_shape`).
-/
namespace Moq.Cli
open Moq Moq.Glue

theorem writeStage_fail (c : Ctx) (w : World) (text : Str) (e : ErrV)
    (h : (writeStage c w text).err = some e)
    (hself : isAncestorOrSelf c.flags.outFile (dirOf c.flags.outFile) = false) :
    (writeStage c w text).world.stdout = w.stdout ∧
    (writeStage c w text).world.fs c.flags.outFile = w.fs c.flags.outFile := by
  unfold writeStage at h ⊢
  cases hk : c.faults.mkdir with
  | some e' => simp [mkdirW, loaded, eff]
  | none =>
    cases hw : c.faults.write with
    | some e' => simp [writeW, mkdirW, loaded, eff, hself]
    | none => simp [hk, hw] at h

theorem afterRemove_fail (c : Ctx) (w : World) (e : ErrV) (h : (afterRemove c w).err = some e)
    (hself : isAncestorOrSelf c.flags.outFile (dirOf c.flags.outFile) = false) :
    (afterRemove c w).world.stdout = w.stdout ∧
    (afterRemove c w).world.fs c.flags.outFile = w.fs c.flags.outFile := by
  unfold afterRemove at h ⊢
  cases hn : c.lib.new w.fs (srcDirOf c) c.flags with
  | error m => simp [loaded, eff]
  | ok hd =>
    cases hm : c.lib.mock hd (restArgs c) with
    | error m => simp [hm, loaded, eff]
    | ok text =>
      by_cases ho : c.flags.outFile = []
      · simp [hn, hm, ho] at h
      · simp only [hn, hm, ho, if_false] at h ⊢
        exact writeStage_fail c w text e h hself

/-- **failure**: if `run` returns an error, nothing was written to standard output, and the
    `-out` file is byte-for-byte what it was – or, with `-rm`, just gone -/
theorem c17_fail (c : Ctx) (fs : FS) (r : RunResult) (e : ErrV)
    (hself : isAncestorOrSelf c.flags.outFile (dirOf c.flags.outFile) = false)
    (hr : run Generated.runProg c fs = some r) (he : r.err = some e) :
    r.world.stdout = [] ∧
    (r.world.fs c.flags.outFile = fs c.flags.outFile ∨
      (c.flags.remove = true ∧ r.world.fs c.flags.outFile = .absent)) := by
  rw [run_eq_spec] at hr
  cases hr
  unfold runSpec at he ⊢
  by_cases hl : c.flags.args.length < 2
  · simp [hl]
  · simp only [hl, if_false] at he ⊢
    by_cases hrm : (c.flags.remove && decide (c.flags.outFile ≠ [])) = true
    · have hrem : c.flags.remove = true := by
        cases h : c.flags.remove <;> simp [h] at hrm ⊢
      simp only [hrm, if_true] at he ⊢
      cases hf : c.faults.remove with
      | some e' =>
        cases e' with
        | notExist =>
          simp only [hf] at he ⊢
          obtain ⟨h1, h2⟩ := afterRemove_fail c _ e he hself
          refine ⟨by rw [h1]; simp [eff], ?_⟩
          rw [h2]; simp [eff]
        | msg m => simp [eff]
      | none =>
        simp only [hf] at he ⊢
        cases hfs : fs c.flags.outFile with
        | absent =>
          simp only [hfs] at he ⊢
          obtain ⟨h1, h2⟩ := afterRemove_fail c _ e he hself
          refine ⟨by rw [h1]; simp [eff], ?_⟩
          rw [h2]; simp [eff, hfs]
        | file b =>
          simp only [hfs] at he ⊢
          obtain ⟨h1, h2⟩ := afterRemove_fail c _ e he hself
          refine ⟨by rw [h1]; simp [eff], ?_⟩
          rw [h2]; simp [eff, setNode, hrem]
        | dir =>
          simp only [hfs] at he ⊢
          obtain ⟨h1, h2⟩ := afterRemove_fail c _ e he hself
          refine ⟨by rw [h1]; simp [eff], ?_⟩
          rw [h2]; simp [eff, setNode, hrem]
    · simp only [hrm, Bool.false_eq_true, if_false] at he ⊢
      obtain ⟨h1, h2⟩ := afterRemove_fail c _ e he hself
      exact ⟨by rw [h1], Or.inl (by rw [h2])⟩

theorem afterRemove_ok (c : Ctx) (w : World) (h : (afterRemove c w).err = none) :
    ∃ text,
      (c.flags.outFile = [] → (afterRemove c w).world.stdout = w.stdout ++ text ∧
                               (afterRemove c w).world.fs = w.fs) ∧
      (c.flags.outFile ≠ [] → (afterRemove c w).world.stdout = w.stdout ∧
          (afterRemove c w).world.fs c.flags.outFile = .file text ∧
          ∀ q, q ≠ c.flags.outFile → isAncestorOrSelf q (dirOf c.flags.outFile) = true →
            (afterRemove c w).world.fs q = .dir) := by
  unfold afterRemove at h ⊢
  cases hn : c.lib.new w.fs (srcDirOf c) c.flags with
  | error m => simp [hn] at h
  | ok hd =>
    cases hm : c.lib.mock hd (restArgs c) with
    | error m => simp [hn, hm] at h
    | ok text =>
      refine ⟨text, ?_, ?_⟩
      · intro ho; simp [hm, ho, loaded, eff]
      · intro ho
        simp only [hn, hm, ho, if_false] at h ⊢
        unfold writeStage at h ⊢
        cases hk : c.faults.mkdir with
        | some e' => simp [hk] at h
        | none =>
          cases hw : c.faults.write with
          | some e' => simp [hk, hw] at h
          | none =>
            refine ⟨by simp [writeW, mkdirW, loaded, eff], by simp [writeW, mkdirW, loaded, eff, setNode], ?_⟩
            intro q hq hanc
            simp [writeW, mkdirW, loaded, eff, setNode, hq, hanc]

/-- **success**: exit status zero means exactly the complete text was written once – to
    standard output without `-out` (and the file system is untouched), into the file with
    `-out` (nothing on standard output, missing parent directories created) -/
theorem c17_ok (c : Ctx) (fs : FS) (r : RunResult)
    (hr : run Generated.runProg c fs = some r) (he : r.err = none) :
    ∃ text,
      (c.flags.outFile = [] → r.world.stdout = text ∧ r.world.fs = fs) ∧
      (c.flags.outFile ≠ [] → r.world.stdout = [] ∧ r.world.fs c.flags.outFile = .file text ∧
        ∀ q, q ≠ c.flags.outFile → isAncestorOrSelf q (dirOf c.flags.outFile) = true → r.world.fs q = .dir) := by
  rw [run_eq_spec] at hr
  cases hr
  unfold runSpec at he ⊢
  by_cases hl : c.flags.args.length < 2
  · simp [hl] at he
  · simp only [hl, if_false] at he ⊢
    by_cases hrm : (c.flags.remove && decide (c.flags.outFile ≠ [])) = true
    · have hne : c.flags.outFile ≠ [] := by
        intro h; simp [h] at hrm
      simp only [hrm, if_true] at he ⊢
      cases hf : c.faults.remove with
      | some e' =>
        cases e' with
        | notExist =>
          simp only [hf] at he ⊢
          obtain ⟨text, _, h2⟩ := afterRemove_ok c _ he
          exact ⟨text, fun h => absurd h hne, fun _ => by simpa [eff] using h2 hne⟩
        | msg m => simp [hf] at he
      | none =>
        simp only [hf] at he ⊢
        cases hfs : fs c.flags.outFile with
        | absent =>
          simp only [hfs] at he ⊢
          obtain ⟨text, _, h2⟩ := afterRemove_ok c _ he
          exact ⟨text, fun h => absurd h hne, fun _ => by simpa [eff] using h2 hne⟩
        | file b =>
          simp only [hfs] at he ⊢
          obtain ⟨text, _, h2⟩ := afterRemove_ok c _ he
          exact ⟨text, fun h => absurd h hne, fun _ => by simpa [eff] using h2 hne⟩
        | dir =>
          simp only [hfs] at he ⊢
          obtain ⟨text, _, h2⟩ := afterRemove_ok c _ he
          exact ⟨text, fun h => absurd h hne, fun _ => by simpa [eff] using h2 hne⟩
    · simp only [hrm, Bool.false_eq_true, if_false] at he ⊢
      obtain ⟨text, h1, h2⟩ := afterRemove_ok c _ he
      exact ⟨text, fun h => by simpa using h1 h, fun h => by simpa using h2 h⟩

end Moq.Cli

namespace Moq.Glue
open Moq

/-- **`Mocker.Mock` writes all or nothing** (decided on the regenerated body of `Mock`):
    on every control-flow path `w.Write` is called at most once; a path returns `nil` only after
    calling it exactly once; once it has been called nothing else is called; it is never called
    inside a loop; and it comes after the template has been executed and the result formatted.
    So every error path before the single write has offered zero bytes to `w`. -/
theorem c17_mock_shape :
    onceAndLast s%"w.Write" (pathsL Generated.mockProg) = true ∧
    before s%"m.format" s%"w.Write" (pathsL Generated.mockProg) = true ∧
    before s%"m.tmpl.Execute" s%"m.format" (pathsL Generated.mockProg) = true ∧
    (s%"w.Write" ∈ loopCallsL Generated.mockProg) = False := by
  refine ⟨by decide, by decide, by decide, by decide⟩

/-- every lookup error is returned before anything is rendered: the k-th bad name fails the
    run regardless of the good ones before it (all `LookupInterface` calls precede `Execute`) -/
theorem c17_lookups_first :
    notAfter s%"m.registry.LookupInterface" s%"m.tmpl.Execute" (pathsL Generated.mockProg) = true ∧
    notAfter s%"m.registry.LookupInterface" s%"w.Write" (pathsL Generated.mockProg) = true := by
  constructor <;> decide

end Moq.Glue
