import MoqModel.Props.C11
import MoqModel.ImportLemmas
/-
  C10 — type references respect the package the mock is generated into.

  The destination decision (`findPkgPath`, modelled as written: it compares the package *name*
  probed in directory `-pkg` with an import *path*) and its consequences for qualification.
-/
namespace Moq

/-- no `-pkg`: the destination is the source package -/
theorem c10_dest_default (srcPath : Str) (probe : Option Str) : findPkgPath [] srcPath probe = srcPath := rfl

/-- a `-pkg` value that names no loadable directory (the usual case for `<src>_test` and for any
    other name): destination unknown – every source type will be qualified -/
theorem c10_dest_unknown (pkgFlag srcPath : Str) (h : pkgFlag ≠ []) : findPkgPath pkgFlag srcPath none = [] := by
  simp [findPkgPath, h]

/-- **the file never imports the package it is generated into** (whenever moq knows it) -/
theorem c10_never_imports_destination (o : Ord) (fuel : Nat) (inp : Input) (a : Alloc)
    (h : genAlloc o fuel inp = .ok a) :
    ∀ i ∈ (a.toData inp).imports, i.path ≠ a.reg.moqPkgPath := by
  intro i hi
  simp only [Alloc.toData, List.mem_map] at hi
  obtain ⟨p, hp, rfl⟩ := hi
  have hmem : p ∈ a.reg.imports := (c11_sorted_perm a.reg).subset hp
  exact (c11_once_not_self o fuel inp a h).2 p hmem

/-- types of the destination package are written unqualified -/
theorem c10_unqualified_in_destination (r : Registry) (v : Var) (p : PkgRef)
    (hd : r.moqPkgPath ≠ []) (hp : stripVendorPath p.path = r.moqPkgPath) :
    varQualifier r v p = [] := by
  simp [varQualifier, hd, hp]

/-- types of any other package the variable's type walk recorded are written with the
    *current* qualifier of that package's import -/
theorem c10_qualified_elsewhere (r : Registry) (v : Var) (p : PkgRef)
    (hp : stripVendorPath p.path ≠ r.moqPkgPath) (hin : stripVendorPath p.path ∈ v.imports) :
    varQualifier r v p = r.qualOf (stripVendorPath p.path) := by
  unfold varQualifier
  have : ¬ (r.moqPkgPath ≠ [] ∧ r.moqPkgPath = stripVendorPath p.path) := fun ⟨_, e⟩ => hp e.symm
  simp [this, hin]

/-- with `-skip-ensure` the self-check line does not import the source package: the registry
    is left as the signatures made it (so the source package is imported only if some signature
    mentions one of its types) -/
theorem c10_skip_ensure (o : Ord) (fuel : Nat) (inp : Input) (r r' : Registry) (q : Str)
    (hs : inp.skip = true) (h : addSrc o fuel inp r = some (r', q)) : r' = r := by
  unfold addSrc at h
  split at h
  · simp [hs] at h; exact h.1.symm
  · cases h; rfl

/-- generated into the source package under its own name: no source-package qualifier at all -/
theorem c10_inplace_no_qualifier (o : Ord) (fuel : Nat) (inp : Input) (r r' : Registry) (q : Str)
    (hn : inp.pkgFlag = []) (h : addSrc o fuel inp r = some (r', q)) : q = [] ∧ r' = r := by
  unfold addSrc at h
  have : inp.srcName = mockPkgName inp := by simp [mockPkgName, hn]
  simp [this] at h
  exact ⟨h.2, h.1.symm⟩

/-- generated into another package without `-skip-ensure`: the interface in the self-check line
    is qualified through an import of the source package (which the registry now has), unless
    the source package *is* the known destination -/
theorem c10_other_pkg_imports_source (o : Ord) (fuel : Nat) (inp : Input) (r r' : Registry) (q : Str)
    (hne : inp.srcName ≠ mockPkgName inp) (hs : inp.skip = false)
    (hd : stripVendorPath inp.srcPath ≠ r.moqPkgPath)
    (h : addSrc o fuel inp r = some (r', q)) :
    r'.has (stripVendorPath inp.srcPath) ∧ q = r'.qualOf (stripVendorPath inp.srcPath) ++ s%"." := by
  unfold addSrc at h
  rw [if_pos hne] at h
  simp only [hs, Bool.not_false, if_true] at h
  cases ha : addImport o fuel r ⟨inp.srcPath, inp.srcName⟩ with
  | none => simp [ha] at h
  | some x =>
    rcases x with ⟨rr, res⟩
    simp [ha] at h
    rcases addImport_result o fuel r rr _ res ha with ⟨e, _⟩ | ⟨_, hres, hhas⟩
    · exact absurd e hd
    · obtain ⟨h1, h2⟩ := h
      subst h1
      refine ⟨hhas, ?_⟩
      rw [← h2, hres]

end Moq
