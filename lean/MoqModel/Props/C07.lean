import MoqModel.Props.C03
/-
  C07 — unset function: identifying panic by default, zero values with -stub.
-/
namespace Moq.Seq
open Moq

/-- by default a call with a nil function field panics with a message naming the mock type,
    the function field and the interface method; nothing is recorded, nothing is invoked and
    the state is untouched -/
theorem c07_default_panics (c : Cfg) (cb : Callback) (mockName ifaceName : Str) (m : MethodD) (e : Env) (s : St)
    (hf : c.funcs m.name = none) :
    execStmts c cb (genBody false mockName ifaceName m) e s =
      (s, [], .panicNil (mockName ++ s%"." ++ m.name ++ s%"Func: method is nil but " ++ ifaceName ++ s%"." ++
                         m.name ++ s%" was just called")) := by
  simp [genBody, execStmts, hf, panicMsg]

/-- with `-stub` the same call never panics: it is recorded like any other call and returns one
    zero value per result (none for result-less methods); no user code runs -/
theorem c07_stub_zero (c : Cfg) (cb : Callback) (mockName ifaceName : Str) (m : MethodD) (args : List V) (s : St)
    (hf : c.funcs m.name = none)
    (hlen : args.length = m.params.length)
    (hnd : (m.params.map (·.name)).Nodup)
    (hfree : s.wlocked m.name = false ∧ s.rlocked m.name = 0) :
    execStmts c cb (genBody true mockName ifaceName m) { params := (m.params.map (·.name)).zip args } s =
      (appendRec c.grow s m.name (recOf m args), [.recorded m.name (recOf m args)],
       .ret (List.replicate m.returns.length 0)) := by
  have hl := lookupAll_zip (m.params.map (·.name)) args (by simpa using hlen) hnd
  have hr : upd (upd s.wlocked m.name true) m.name false = s.wlocked := upd_restore _ _ _ _ hfree.1
  simp [genBody, execStmts, hf, hl, hfree.1, hfree.2, List.map_map, Function.comp_def,
        appendRec_locks, upd_same, hr, recOf, appendRec_eta]
  induction m.returns with
  | nil => rfl
  | cons r rs ih => simp [List.replicate_succ, ih]

/-- the stub branch declares one variable per result, named and typed like that result, and
    returns them in order -/
theorem c07_stub_vars (mockName ifaceName : Str) (m : MethodD) :
    Stmt.stubReturn m.name (m.returns.map fun r => (r.name, r.typeStr)) ∈ genBody true mockName ifaceName m := by
  simp [genBody]

/-- the nil check that panics exists only without `-stub`; the stub check only with it -/
theorem c07_modes (mockName ifaceName : Str) (m : MethodD) :
    (∀ msg, Stmt.nilPanic m.name msg ∉ genBody true mockName ifaceName m) ∧
    (∀ vs, Stmt.stubReturn m.name vs ∉ genBody false mockName ifaceName m) := by
  constructor <;> intro x <;> simp [genBody]

end Moq.Seq
