import MoqModel.CliSpec
/-
  C18 — moq modifies nothing but the requested output file.
-/
namespace Moq.Cli
open Moq

/-- the file-system effects `afterRemove` performs are the load of the source directory and,
    with `-out`, `MkdirAll(dir(out))` and `WriteFile(out)`; everything else is untouched -/
theorem afterRemove_only_out (c : Ctx) (w : World) (p : Str)
    (hp : p ≠ c.flags.outFile) (ha : isAncestorOrSelf p (dirOf c.flags.outFile) = false) :
    (afterRemove c w).world.fs p = w.fs p := by
  unfold afterRemove
  cases hn : c.lib.new w.fs (srcDirOf c) c.flags with
  | error m => simp [loaded, eff]
  | ok hd =>
    cases hm : c.lib.mock hd (restArgs c) with
    | error m => simp [hm, loaded, eff]
    | ok text =>
      by_cases ho : c.flags.outFile = []
      · simp [hm, ho, loaded, eff]
      · simp only [hm, ho, if_false]
        unfold writeStage
        cases c.faults.mkdir with
        | some e => simp [mkdirW, loaded, eff]
        | none =>
          cases c.faults.write with
          | some e => simp [writeW, mkdirW, loaded, eff, ha]
          | none => simp [writeW, mkdirW, loaded, eff, ha, setNode, hp]

/-- **C18.**  Whatever happens – success, any failure of the library, any failing file-system
    call – a path other than `-out` and the directories leading to it holds after the run what
    it held before. -/
theorem c18_only_out (c : Ctx) (fs : FS) (p : Str)
    (hp : p ≠ c.flags.outFile) (ha : isAncestorOrSelf p (dirOf c.flags.outFile) = false) :
    ∀ r, run Generated.runProg c fs = some r → r.world.fs p = fs p := by
  intro r hr
  rw [run_eq_spec] at hr
  cases hr
  unfold runSpec
  by_cases hl : c.flags.args.length < 2
  · simp [hl]
  · simp only [hl, if_false]
    by_cases hrm : (c.flags.remove && decide (c.flags.outFile ≠ [])) = true
    · simp only [hrm, if_true]
      cases hf : c.faults.remove with
      | some e =>
        cases e with
        | notExist => simp [afterRemove_only_out c _ p hp ha, eff]
        | msg m => simp [eff]
      | none =>
        cases hfs : fs c.flags.outFile with
        | absent => simp [afterRemove_only_out c _ p hp ha, eff]
        | file b => simp [afterRemove_only_out c _ p hp ha, eff, setNode, hp]
        | dir => simp [afterRemove_only_out c _ p hp ha, eff, setNode, hp]
    · simp only [hrm]
      simp [afterRemove_only_out c _ p hp ha]

/-- without `-out` nothing in the file system is written at all -/
theorem c18_no_out_no_write (c : Ctx) (fs : FS) (ho : c.flags.outFile = []) :
    ∀ r, run Generated.runProg c fs = some r → r.world.fs = fs := by
  intro r hr
  rw [run_eq_spec] at hr
  cases hr
  unfold runSpec afterRemove
  by_cases hl : c.flags.args.length < 2
  · simp [hl]
  · simp only [hl, if_false, ho]
    simp only [ne_eq, not_true_eq_false, decide_false, Bool.and_false, Bool.false_eq_true, if_false]
    cases hn : c.lib.new fs (srcDirOf c) c.flags with
    | error m => simp [loaded, eff]
    | ok hd =>
      cases hm : c.lib.mock hd (restArgs c) with
      | error m => simp [hm, loaded, eff]
      | ok text => simp [hm, loaded, eff]

/-- the only references into `os`, `io/ioutil`, `os/exec`, `syscall`, `io/fs` in moq's own
    non-test code (regenerated list, any order, any multiplicity): the three file-system calls
    that `run` interprets – and they occur in `main.go:run` only –, the standard streams, the
    sentinel error and `os.Exit` -/
theorem c18_fs_calls :
    Generated.fsCalls.all (fun x =>
      ([s%"os.Remove", s%"os.MkdirAll", s%"os.WriteFile"].contains x.2.2 && x.1 = s%"main.go" && x.2.1 = s%"run") ||
      [s%"os.Exit", s%"os.Stderr", s%"os.Stdout", s%"os.ErrNotExist"].contains x.2.2) = true := by
  decide

/-- non-vacuity of the side condition: for an ordinary output path the file is not one of the
    directories leading to it -/
example : isAncestorOrSelf s%"mocks/out.go" (dirOf s%"mocks/out.go") = false ∧
          isAncestorOrSelf s%"go.mod" (dirOf s%"mocks/out.go") = false := by decide

end Moq.Cli
