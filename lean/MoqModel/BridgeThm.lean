import MoqModel.BridgeTop
/-
  Bridge (part 3): the printer of the structured model against the closed form of the template,
  and the bridge theorem itself.
-/
namespace Moq
open Tmpl Generated

theorem printResetAll_flatMap (ms : List MethodD) :
    printResetAll (ms.flatMap fun m => [Stmt.lock m.name, Stmt.clearCalls m.name, Stmt.unlock m.name]) =
      (ms.map fun m =>
        s%"\n\tmock.lock" ++ m.name ++ s%".Lock()\n\tmock.calls." ++ m.name ++ s%" = nil\n\tmock.lock" ++
          m.name ++ s%".Unlock()\n\t").flatten := by
  induction ms with
  | nil => simp [printResetAll]
  | cons m ms ih =>
    rw [List.flatMap_cons]
    simp only [List.cons_append, List.nil_append, printResetAll]
    rw [ih]
    simp [printStmt, List.append_assoc]

@[simp] theorem methodFT_name (d : Data) (mk : MockD) (m : MethodD) : (methodFT d mk m).name = m.name := rfl
@[simp] theorem methodFT_params (d : Data) (mk : MockD) (m : MethodD) : (methodFT d mk m).params = m.params := rfl
@[simp] theorem methodFT_argList (d : Data) (mk : MockD) (m : MethodD) : (methodFT d mk m).argList = alOf m := rfl
@[simp] theorem methodFT_retTypes (d : Data) (mk : MockD) (m : MethodD) : (methodFT d mk m).retTypes = m.returnArgTypeList := rfl

theorem targOf_eq : targOf = TParamD.typeArg := rfl

section proj
variable (d : Data) (mk : MockD)
@[simp] theorem mockFT_iface : (mockFT d mk).ifaceName = mk.ifaceName := rfl
@[simp] theorem mockFT_mock : (mockFT d mk).mockName = mk.mockName := rfl
@[simp] theorem mockFT_tparams : (mockFT d mk).tparams = mk.tparams := rfl
@[simp] theorem mockFT_ensure : (mockFT d mk).ensure = if d.skip then none else some (mk.tparams.map TParamD.typeArg) := rfl
@[simp] theorem mockFT_methods : (mockFT d mk).methods = mk.methods.map (methodFT d mk) := rfl
@[simp] theorem mockFT_resetAll : (mockFT d mk).resetAll =
    if d.resets then some (mk.methods.flatMap fun m => genResetBody m.name) else none := rfl
@[simp] theorem fileFT_srcQual : (fileFT d).srcQual = d.srcPkgQualifier := rfl
@[simp] theorem fileFT_syncQual : (fileFT d).syncQual = syncQualifier d.imports := rfl
@[simp] theorem fileFT_pkgName : (fileFT d).pkgName = d.pkgName := rfl
@[simp] theorem fileFT_imports : (fileFT d).imports = d.imports := rfl
@[simp] theorem fileFT_mocks : (fileFT d).mocks = d.mocks.map (mockFT d) := rfl
end proj

set_option maxRecDepth 100000 in
set_option maxHeartbeats 3200000 in
theorem printMock_eq (d : Data) (mk : MockD) : printMock (fileFT d) (mockFT d mk) = mockText d mk := by
  have hr := recvD d mk
  have hra := printResetAll_flatMap mk.methods
  have hm : ∀ m, printMethod (fileFT d) (mockFT d mk) (methodFT d mk m) = methodText d mk m (alOf m) :=
    fun m => printMethod_eq d mk m
  unfold printMock mockText ensureText instText declText resetAllText
  rw [hr]
  cases hs : d.skip <;> cases hrs : d.resets <;> cases ht : mk.tparams <;>
    simp [genResetBody, tparamDecl, List.map_map, Function.comp_def, hs, hrs, ht, hra, targOf_eq, hm]


theorem printFile_eq (d : Data) : printFile (fileFT d) = fileText d := by
  unfold printFile fileText
  simp [List.map_map, Function.comp_def, printMock_eq]

/-- **the bridge**: for *all* template data, the regenerated template executed by the
    interpreter prints exactly what the printer of the structured model prints for `genFile d`;
    and the one is undefined (a Go panic in `MethodArg`) exactly when the other is. -/
theorem bridge (d : Data) : renderNoop d = (genFile d).map printFile := by
  by_cases hex : ∃ mk, mk ∈ d.mocks ∧ ∃ m, m ∈ mk.methods ∧ m.argList = none
  · -- some method has no argument list: both sides are undefined
    obtain ⟨mk, hmk, m, hm, hn⟩ := hex
    have h1 : MethodD.toVal m = none := by simp [MethodD.toVal, hn]
    have h2 : MockD.toVal mk = none := by
      unfold MockD.toVal
      rw [mapM_none MethodD.toVal mk.methods ⟨m, hm, h1⟩]; rfl
    have h3 : d.toVal = none := by
      unfold Data.toVal
      rw [mapM_none MockD.toVal d.mocks ⟨mk, hmk, h2⟩]; rfl
    have g1 : genMethodF d mk m = none := by simp [genMethodF, hn]
    have g2 : genMockF d mk = none := by
      unfold genMockF
      rw [mapM_none (genMethodF d mk) mk.methods ⟨m, hm, g1⟩]; rfl
    have g3 : genFile d = none := by
      unfold genFile
      rw [mapM_none (genMockF d) d.mocks ⟨mk, hmk, g2⟩]; rfl
    simp [renderNoop, h3, g3]
  · have h : ArgsOK d := fun mk hmk m hm hn => hex ⟨mk, hmk, m, hm, hn⟩
    rw [renderNoop_ok d h, genFile_ok d h, Option.map_some, printFile_eq]

end Moq

namespace Moq

/-- the form the property theorems use: whatever text the regenerated template prints for some
    data is the print-out of the structured file `genFile` builds from the same data – so every
    theorem about the bodies (`Stmt` lists) of `genFile d` is a theorem about the text moq's own
    template produces, for all data at once -/
theorem bridge_file (d : Data) (t : Str) (h : renderNoop d = some t) :
    ∃ f, genFile d = some f ∧ printFile f = t := by
  rw [bridge] at h
  cases hg : genFile d with
  | none => simp [hg] at h
  | some f => exact ⟨f, rfl, by simpa [hg] using h⟩

end Moq

namespace Moq

theorem renderNoop_some_argsOK (d : Data) (t : Str) (h : renderNoop d = some t) : ArgsOK d := by
  intro mk hmk m hm hn
  have h1 : MethodD.toVal m = none := by simp [MethodD.toVal, hn]
  have h2 : MockD.toVal mk = none := by
    unfold MockD.toVal
    rw [mapM_none MethodD.toVal mk.methods ⟨m, hm, h1⟩]; rfl
  have h3 : d.toVal = none := by
    unfold Data.toVal
    rw [mapM_none MockD.toVal d.mocks ⟨mk, hmk, h2⟩]; rfl
  simp [renderNoop, h3] at h

/-- **what the template's text is made of**: whenever the regenerated template prints a text `t`
    for data `d`, `t` is the print-out of a structured file in which every mock comes from a mock
    of `d`, every method from a method of that mock, and the three function bodies of the method
    are exactly `genBody`, `genCallsBody` and (with `-with-resets`) `genResetBody` – the `Stmt`
    lists the theorems of C03–C08 are about.  For all data; not checked per input. -/
theorem bridge_bodies (d : Data) (t : Str) (h : renderNoop d = some t) :
    ∃ f, genFile d = some f ∧ printFile f = t ∧ f.mocks.length = d.mocks.length ∧
      ∀ mkF ∈ f.mocks, ∃ mk ∈ d.mocks,
        mkF.mockName = mk.mockName ∧ mkF.ifaceName = mk.ifaceName ∧
        mkF.methods.length = mk.methods.length ∧
        (mkF.resetAll = if d.resets then some (mk.methods.flatMap fun m => genResetBody m.name) else none) ∧
        ∀ mF ∈ mkF.methods, ∃ m ∈ mk.methods,
          mF.name = m.name ∧
          mF.body = genBody d.stub mk.mockName mk.ifaceName m ∧
          mF.callsBody = genCallsBody m ∧
          mF.resetBody = (if d.resets then some (genResetBody m.name) else none) := by
  have hok := renderNoop_some_argsOK d t h
  have hf := genFile_ok d hok
  have ht : printFile (fileFT d) = t := by
    have := bridge d
    rw [h, hf, Option.map_some] at this
    exact (Option.some.inj this).symm
  refine ⟨fileFT d, hf, ht, by simp [fileFT], ?_⟩
  intro mkF hmkF
  simp only [fileFT, List.mem_map] at hmkF
  obtain ⟨mk, hmk, rfl⟩ := hmkF
  refine ⟨mk, hmk, rfl, rfl, by simp [mockFT], rfl, ?_⟩
  intro mF hmF
  simp only [mockFT, List.mem_map] at hmF
  obtain ⟨m, hm, rfl⟩ := hmF
  exact ⟨m, hm, rfl, rfl, rfl, rfl⟩

end Moq

namespace Moq

/-- C16, header clause, for all data: whatever the regenerated template prints begins with the
    generated-code marker, then the package clause, then the import block in the order of
    `Data.imports` – before any declaration -/
theorem bridge_header (d : Data) (t : Str) (h : renderNoop d = some t) :
    ∃ rest, t = s%"// Code generated by moq; DO NOT EDIT.\n// github.com/matryer/moq\n\npackage " ++ d.pkgName ++
      s%"\n\nimport (" ++ (d.imports.map fun i => s%"\n\t" ++ importStatement i).flatten ++ s%"\n)\n\n" ++ rest := by
  have hok := renderNoop_some_argsOK d t h
  rw [renderNoop_ok d hok] at h
  refine ⟨(d.mocks.map (mockText d)).flatten, ?_⟩
  rw [← Option.some.inj h]
  unfold fileText
  simp [List.append_assoc]

end Moq
