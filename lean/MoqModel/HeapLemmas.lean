import MoqModel.SeqLemmas
/-
  Heap lemmas: Go's `append` on `mock.calls.M` as an abstract list, and the stability of slice
  headers that were handed out earlier.
-/
namespace Moq.Seq
open Moq

/-- what `MCalls()` would return now -/
def St.view (s : St) (m : Str) : List Rec := s.contents m (s.hdr m)

/-- heap well-formedness: the header of every method points into its arrays, within capacity;
    array 0 is the empty array -/
structure St.WF (s : St) : Prop where
  inb : ∀ m, (s.hdr m).arr < (s.arrays m).length
  cap : ∀ m, ((s.arrays m).getD (s.hdr m).arr []).length = (s.hdr m).cap
  len : ∀ m, (s.hdr m).len ≤ (s.hdr m).cap
  zero : ∀ m, (s.arrays m).getD 0 [] = []

/-- a header `h` handed out for method `m` is still safe: it points to an existing array, fits
    into it, and if it shares the array of the current header it is not longer than it -/
structure SnapOK (s : St) (m : Str) (h : Hdr) : Prop where
  inb : h.arr < (s.arrays m).length
  fits : h.len ≤ ((s.arrays m).getD h.arr []).length
  below : h.arr = (s.hdr m).arr → h.len ≤ (s.hdr m).len

theorem init_wf : St.init.WF := by
  constructor <;> intro m <;> simp [St.init, Hdr.nil]

theorem init_view (m : Str) : St.init.view m = [] := by
  simp [St.view, St.contents, St.init, Hdr.nil]

theorem getD_modify_ne {α} (l : List (List α)) (i j : Nat) (f : List α → List α) (h : i ≠ j) :
    (l.modify i f).getD j [] = l.getD j [] := by
  simp [List.getD, h]

theorem getD_modify_eq {α} (l : List (List α)) (i : Nat) (f : List α → List α) (h : i < l.length) :
    (l.modify i f).getD i [] = f (l.getD i []) := by
  simp [List.getD, h]

theorem getD_append_lt {α} (l : List (List α)) (x : List α) (i : Nat) (h : i < l.length) :
    (l ++ [x]).getD i [] = l.getD i [] := by
  simp [List.getD, List.getElem?_append_left h]

theorem getD_append_len {α} (l : List (List α)) (x : List α) :
    (l ++ [x]).getD l.length [] = x := by
  simp [List.getD]

theorem take_set_ge {α} (l : List α) (i n : Nat) (x : α) (h : n ≤ i) : (l.set i x).take n = l.take n := by
  apply List.ext_getElem?
  intro k
  simp only [List.getElem?_take]
  by_cases hk : k < n
  · have : i ≠ k := by omega
    simp [hk, this]
  · simp [hk]

theorem take_succ_set {α} (l : List α) (n : Nat) (x : α) (h : n < l.length) :
    (l.set n x).take (n + 1) = l.take n ++ [x] := by
  rw [List.take_add_one, take_set_ge _ _ _ _ (Nat.le_refl n)]
  simp [h]

theorem upd_ne {β} (f : Str → β) (k x : Str) (v : β) (h : x ≠ k) : upd f k v x = f x := by simp [upd, h]

/-- `append` on method `m` leaves every other method's header and arrays alone -/
theorem appendRec_other (g : Nat → Nat) (s : St) (m m' : Str) (r : Rec) (h : m' ≠ m) :
    (appendRec g s m r).hdr m' = s.hdr m' ∧ (appendRec g s m r).arrays m' = s.arrays m' := by
  simp only [appendRec]; split <;> simp [upd, h]

/-- **append is list append** on the abstract view, and keeps the heap well-formed -/
theorem appendRec_view (g : Nat → Nat) (s : St) (m : Str) (r : Rec) (wf : s.WF) :
    (appendRec g s m r).view m = s.view m ++ [r] ∧ (appendRec g s m r).WF := by
  have hin := wf.inb m
  have hcap := wf.cap m
  have hlen := wf.len m
  have hcap' : ((s.arrays m)[(s.hdr m).arr]?.getD []).length = (s.hdr m).cap := by simpa using hcap
  by_cases hlt : (s.hdr m).len < (s.hdr m).cap
  · -- in place
    have e : appendRec g s m r =
        { s with arrays := upd s.arrays m ((s.arrays m).modify (s.hdr m).arr (fun cells => cells.set (s.hdr m).len r)),
                 hdr := upd s.hdr m { s.hdr m with len := (s.hdr m).len + 1 } } := by
      simp [appendRec, hlt]
    rw [e]
    refine ⟨?_, ?_⟩
    · simp only [St.view, St.contents, upd_same]
      rw [getD_modify_eq _ _ _ hin]
      exact take_succ_set _ _ _ (by omega)
    · constructor
      · intro m'
        by_cases hm : m' = m
        · subst hm; simp [upd_same, hin]
        · simp [upd_ne _ _ _ _ hm]; exact wf.inb m'
      · intro m'
        by_cases hm : m' = m
        · subst hm; simp only [upd_same]; rw [getD_modify_eq _ _ _ hin]; simp [hcap']
        · simp [upd_ne _ _ _ _ hm]; exact wf.cap m'
      · intro m'
        by_cases hm : m' = m
        · subst hm; simp only [upd_same]; omega
        · simp [upd_ne _ _ _ _ hm]; exact wf.len m'
      · intro m'
        by_cases hm : m' = m
        · subst hm
          simp only [upd_same]
          by_cases h0 : (s.hdr m').arr = 0
          · -- array 0 has capacity 0, so an in-place write is impossible
            have := wf.zero m'
            rw [h0] at hcap; rw [this] at hcap; simp at hcap; omega
          · rw [getD_modify_ne _ _ _ _ h0]; exact wf.zero m'
        · simp [upd_ne _ _ _ _ hm]; exact wf.zero m'
  · -- reallocate and copy
    have e : appendRec g s m r =
        { s with arrays := upd s.arrays m (s.arrays m ++
                  [(((s.arrays m).getD (s.hdr m).arr []).take (s.hdr m).len ++ [r]) ++
                    List.replicate (max (g (s.hdr m).cap) ((s.hdr m).len + 1) - ((s.hdr m).len + 1)) []]),
                 hdr := upd s.hdr m ⟨(s.arrays m).length, (s.hdr m).len + 1,
                                      max (g (s.hdr m).cap) ((s.hdr m).len + 1)⟩ } := by
      simp [appendRec, hlt]
    rw [e]
    have hfull : (((s.arrays m).getD (s.hdr m).arr []).take (s.hdr m).len).length = (s.hdr m).len := by
      simp [hcap']; omega
    refine ⟨?_, ?_⟩
    · simp only [St.view, St.contents, upd_same]
      rw [getD_append_len]
      exact List.take_left' (by rw [List.length_append, hfull]; rfl)
    · constructor
      · intro m'
        by_cases hm : m' = m
        · subst hm; simp [upd_same]
        · simp [upd_ne _ _ _ _ hm]; exact wf.inb m'
      · intro m'
        by_cases hm : m' = m
        · subst hm; simp only [upd_same]; rw [getD_append_len]; simp [hfull]; omega
        · simp [upd_ne _ _ _ _ hm]; exact wf.cap m'
      · intro m'
        by_cases hm : m' = m
        · subst hm; simp only [upd_same]; omega
        · simp [upd_ne _ _ _ _ hm]; exact wf.len m'
      · intro m'
        by_cases hm : m' = m
        · subst hm; simp only [upd_same]; rw [getD_append_lt _ _ _ (by omega)]; exact wf.zero m'
        · simp [upd_ne _ _ _ _ hm]; exact wf.zero m'

/-- the header just read is a safe snapshot -/
theorem snapOK_current (s : St) (m : Str) (wf : s.WF) : SnapOK s m (s.hdr m) :=
  ⟨wf.inb m, by rw [wf.cap m]; exact wf.len m, fun _ => Nat.le_refl _⟩

/-- **a slice already returned is never changed by a later append** -/
theorem appendRec_snap (g : Nat → Nat) (s : St) (m : Str) (r : Rec) (wf : s.WF) (m' : Str) (h : Hdr)
    (ok : SnapOK s m' h) :
    (appendRec g s m r).contents m' h = s.contents m' h ∧ SnapOK (appendRec g s m r) m' h := by
  by_cases hm : m' = m
  · subst hm
    have hin := wf.inb m'
    by_cases hlt : (s.hdr m').len < (s.hdr m').cap
    · have e : appendRec g s m' r =
          { s with arrays := upd s.arrays m' ((s.arrays m').modify (s.hdr m').arr (fun cells => cells.set (s.hdr m').len r)),
                   hdr := upd s.hdr m' { s.hdr m' with len := (s.hdr m').len + 1 } } := by
        simp [appendRec, hlt]
      rw [e]
      by_cases ha : h.arr = (s.hdr m').arr
      · have hb := ok.below ha
        refine ⟨?_, ?_, ?_, ?_⟩
        · simp only [St.contents, upd_same]
          rw [ha, getD_modify_eq _ _ _ hin]
          exact take_set_ge _ _ _ _ hb
        · simpa [upd_same] using ok.inb
        · simp only [upd_same]; rw [ha, getD_modify_eq _ _ _ hin]
          have := ok.fits; rw [ha] at this; simpa using this
        · intro _; simp only [upd_same]; omega
      · have ha' : (s.hdr m').arr ≠ h.arr := fun e => ha e.symm
        refine ⟨?_, ?_, ?_, ?_⟩
        · simp only [St.contents, upd_same]; rw [getD_modify_ne _ _ _ _ ha']
        · simpa [upd_same] using ok.inb
        · simp only [upd_same]; rw [getD_modify_ne _ _ _ _ ha']; exact ok.fits
        · intro e'; simp only [upd_same] at e'; exact absurd e' ha
    · have e : appendRec g s m' r =
          { s with arrays := upd s.arrays m' (s.arrays m' ++
                    [(((s.arrays m').getD (s.hdr m').arr []).take (s.hdr m').len ++ [r]) ++
                      List.replicate (max (g (s.hdr m').cap) ((s.hdr m').len + 1) - ((s.hdr m').len + 1)) []]),
                   hdr := upd s.hdr m' ⟨(s.arrays m').length, (s.hdr m').len + 1,
                                        max (g (s.hdr m').cap) ((s.hdr m').len + 1)⟩ } := by
        simp [appendRec, hlt]
      rw [e]
      refine ⟨?_, ?_, ?_, ?_⟩
      · simp only [St.contents, upd_same]; rw [getD_append_lt _ _ _ ok.inb]
      · simp only [upd_same, List.length_append]; have := ok.inb; omega
      · simp only [upd_same]; rw [getD_append_lt _ _ _ ok.inb]; exact ok.fits
      · intro e'; simp only [upd_same] at e'; have := ok.inb; omega
  · have o := appendRec_other g s m m' r hm
    refine ⟨?_, ?_, ?_, ?_⟩
    · simp only [St.contents, o.2]
    · rw [o.2]; exact ok.inb
    · rw [o.2]; exact ok.fits
    · rw [o.1]; exact ok.below

/-- `mock.calls.M = nil` -/
def clearHdr (s : St) (m : Str) : St := { s with hdr := upd s.hdr m Hdr.nil }

theorem clearHdr_view (s : St) (m : Str) (wf : s.WF) :
    (clearHdr s m).view m = [] ∧ (∀ m', m' ≠ m → (clearHdr s m).view m' = s.view m') ∧ (clearHdr s m).WF := by
  refine ⟨?_, ?_, ?_⟩
  · simp [clearHdr, St.view, St.contents, upd_same, Hdr.nil]
  · intro m' hm; simp [clearHdr, St.view, St.contents, upd_ne _ _ _ _ hm]
  · constructor
    · intro m'
      by_cases hm : m' = m
      · subst hm; simp only [clearHdr, upd_same, Hdr.nil]; have := wf.inb m'; omega
      · simp only [clearHdr, upd_ne _ _ _ _ hm]; exact wf.inb m'
    · intro m'
      by_cases hm : m' = m
      · subst hm; simp only [clearHdr, upd_same, Hdr.nil]; rw [wf.zero m']; rfl
      · simp only [clearHdr, upd_ne _ _ _ _ hm]; exact wf.cap m'
    · intro m'
      by_cases hm : m' = m
      · subst hm; simp [clearHdr, upd_same, Hdr.nil]
      · simp only [clearHdr, upd_ne _ _ _ _ hm]; exact wf.len m'
    · intro m'; exact wf.zero m'

/-- **a slice already returned is never changed by a reset** -/
theorem clearHdr_snap (s : St) (m : Str) (wf : s.WF) (m' : Str) (h : Hdr) (ok : SnapOK s m' h) :
    (clearHdr s m).contents m' h = s.contents m' h ∧ SnapOK (clearHdr s m) m' h := by
  refine ⟨rfl, ok.inb, ok.fits, ?_⟩
  intro e
  by_cases hm : m' = m
  · subst hm
    simp only [clearHdr, upd_same, Hdr.nil] at e ⊢
    have := ok.fits; rw [e, wf.zero m'] at this; simpa using this
  · simp only [clearHdr, upd_ne _ _ _ _ hm] at e ⊢; exact ok.below e

end Moq.Seq
