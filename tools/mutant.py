#!/usr/bin/env python3
"""tools/mutant.py <mutant-id> <prop> [checks...]: confirm a seeded change (suite still passes, demo fails with it and
passes without it) and run our checks against it.  Patches are applied to /repo and reverted straight afterwards."""
import json, os, shutil, subprocess, sys, time
ENV = dict(os.environ, GOFLAGS="-mod=mod", GOPROXY="off")

def sh(cmd, cwd=None, timeout=3600):
    p = subprocess.run(cmd, cwd=cwd, env=ENV, shell=isinstance(cmd, str), capture_output=True, text=True, timeout=timeout)
    return p.returncode, (p.stdout + p.stderr)

def main():
    mid, prop = sys.argv[1], sys.argv[2]
    checks = [prop] + [c for c in sys.argv[3:] if c != prop]
    out = "/tmp/wt-out/" + mid
    wt = "/tmp/wt/" + mid
    sd = "/verif/seeded/" + mid
    meta = {"id": mid, "breaks": prop}
    patch = os.path.join(out, "patch.diff")
    if not os.path.exists(patch) or not os.path.isdir(wt):
        # re-create the scratch worktree from the kept patch
        patch = os.path.join(sd, "patch.diff")
        out = sd
        sh(["git", "-C", "/repo", "worktree", "prune"])
        if not os.path.isdir(wt):
            sh(["git", "-C", "/repo", "worktree", "add", "--detach", wt, "HEAD"])
            sh(["git", "-C", wt, "apply", patch])
    # 1. suite on the worktree with the change
    rc, o = sh("go build ./... && go test -count=1 ./... 2>&1 | tail -15", cwd=wt)
    fails = [l for l in o.splitlines() if l.startswith("--- FAIL") or l.startswith("FAIL")]
    meta["suite_with_change"] = {"fail_lines": fails}
    rc2, o2 = sh("go test -count=1 ./pkg/moq/ 2>&1 | grep -E '^--- FAIL' ", cwd=wt)
    meta["suite_with_change"]["failing_tests"] = o2.split()
    # 2. demo
    demo = None
    for cand in ("demo.sh", "demo/demo.sh"):
        if os.path.exists(os.path.join(out, cand)):
            demo = os.path.join(out, cand)
    rc_m, o_m = sh(["bash", demo, wt], cwd=os.path.dirname(demo), timeout=1200)
    rc_p, o_p = sh(["bash", demo, "/repo"], cwd=os.path.dirname(demo), timeout=1200)
    meta["demo"] = {"script": os.path.relpath(demo, out), "with_change_exit": rc_m, "pristine_exit": rc_p,
                    "with_change_tail": o_m[-600:], "pristine_tail": o_p[-300:]}
    # 3. our checks against it
    rc, o = sh(["git", "-C", "/repo", "apply", "--check", patch])
    if rc != 0:
        print("patch does not apply:", o); sys.exit(1)
    sh(["git", "-C", "/repo", "apply", patch])
    results = {}
    try:
        for c in checks:
            t = time.time()
            rc, o = sh(["./check", c], cwd="/verif", timeout=3600)
            lines = [l for l in o.splitlines() if l.startswith("VIOLATION") or l.startswith("[check] " + c) or l.startswith("KNOWN")]
            results[c] = {"exit": rc, "lines": lines[-6:], "s": round(time.time() - t, 1)}
            print(c, rc, "\n   " + "\n   ".join(lines[-5:]))
    finally:
        sh(["git", "-C", "/repo", "checkout", "--", "."])
    meta["checks"] = results
    rc, o = sh(["git", "-C", "/repo", "status", "--short"])
    meta["repo_clean_after"] = (o.strip() == "")
    os.makedirs(sd, exist_ok=True)
    if out == sd:
        json.dump(meta, open(os.path.join(sd, "meta.json"), "w"), indent=1)
        print(json.dumps({k: meta[k] for k in ("suite_with_change", "repo_clean_after")}), "demo:", rc_m, rc_p)
        return
    shutil.copy(patch, os.path.join(sd, "patch.diff"))
    for f in ("notes.md",):
        if os.path.exists(os.path.join(out, f)):
            shutil.copy(os.path.join(out, f), os.path.join(sd, f))
    ddir = os.path.join(sd, "demo")
    shutil.rmtree(ddir, ignore_errors=True)
    os.makedirs(ddir)
    if os.path.isdir(os.path.join(out, "demo")):
        shutil.copytree(os.path.join(out, "demo"), ddir, dirs_exist_ok=True,
                        ignore=shutil.ignore_patterns("work", "*.test", "moq", "bin", "*.out"))
    if os.path.exists(os.path.join(out, "demo.sh")):
        shutil.copy(os.path.join(out, "demo.sh"), os.path.join(sd, "demo.sh"))
    json.dump(meta, open(os.path.join(sd, "meta.json"), "w"), indent=1)
    print(json.dumps({k: meta[k] for k in ("suite_with_change", "repo_clean_after")}), "demo:", rc_m, rc_p)

main()
