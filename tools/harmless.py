#!/usr/bin/env python3
"""tools/harmless.py [patch...]: apply each behaviour-preserving patch of /verif/harmless to /repo, run moq's own
suite and all twenty quick checks, undo the patch, and record which checks alarmed (results.json).
A check that alarms here is noise: the property still holds."""
import glob, json, os, subprocess, sys, time
ENV = dict(os.environ, GOFLAGS="-mod=mod", GOPROXY="off")
PROPS = ["C%02d" % i for i in range(1, 21)]


def sh(cmd, cwd=None, timeout=7200):
    p = subprocess.run(cmd, cwd=cwd, env=ENV, shell=isinstance(cmd, str), capture_output=True, text=True, timeout=timeout)
    return p.returncode, (p.stdout + p.stderr)


def main():
    patches = sys.argv[1:] or sorted(glob.glob("/verif/harmless/*.diff"))
    resf = "/verif/harmless/results.json"
    results = json.load(open(resf)) if os.path.exists(resf) else {}
    for patch in patches:
        name = os.path.basename(patch)
        rc, o = sh(["git", "-C", "/repo", "status", "--short"])
        assert o.strip() == "", "repo not clean"
        rc, o = sh(["git", "-C", "/repo", "apply", patch])
        if rc != 0:
            print(name, "does not apply", o)
            continue
        res = {}
        try:
            rc, o = sh("go build ./... && go test -count=1 ./... 2>&1 | grep -E '^(--- FAIL|FAIL|ok)'", cwd="/repo")
            res["suite_fail_lines"] = [l for l in o.splitlines() if "FAIL" in l]
            for c in PROPS:
                t = time.time()
                rc, o = sh(["./check", c], cwd="/verif")
                v = [l for l in o.splitlines() if l.startswith("VIOLATION")]
                if rc != 0 or v:
                    res[c] = {"exit": rc, "lines": v[:3] + [l for l in o.splitlines() if l.startswith("[check] " + c)][-3:]}
                    print(name, c, "ALARM", res[c]["lines"][:2], flush=True)
            print(name, "alarms:", [c for c in PROPS if c in res], "%.0fs" % 0, flush=True)
        finally:
            sh(["git", "-C", "/repo", "checkout", "--", "."])
        results[name] = res
        json.dump(results, open(resf, "w"), indent=1)


main()
