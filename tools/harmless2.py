#!/usr/bin/env python3
"""tools/harmless2.py [patch...]: every behaviour-preserving patch of /verif/harmless in its own scratch worktree
(nothing is applied to /repo), moq's own suite on it, then all twenty quick checks from a private copy of /verif with
VERIF_REPO=<worktree>.  Alarms are recorded in harmless/results.json.  Up to three patches side by side."""
import glob, json, os, shutil, subprocess, sys, time
from concurrent.futures import ThreadPoolExecutor
ENV = dict(os.environ, GOFLAGS="-mod=mod", GOPROXY="off", VERIF_NO_EXTRA_SEARCH="")
PROPS = ["C%02d" % i for i in range(1, 21)]


def sh(cmd, cwd=None, env=None, timeout=7200):
    p = subprocess.run(cmd, cwd=cwd, env=env or ENV, shell=isinstance(cmd, str), capture_output=True, text=True, timeout=timeout)
    return p.returncode, p.stdout + p.stderr


def one(patch):
    name = os.path.basename(patch)[:-5]
    wt, snap = "/tmp/wt/H-" + name, "/tmp/vsnap/H-" + name
    sh(["git", "-C", "/repo", "worktree", "remove", "--force", wt])
    sh(["git", "-C", "/repo", "worktree", "add", "--detach", wt, "HEAD"])
    rc, o = sh(["git", "-C", wt, "apply", patch])
    if rc != 0:
        return name, {"error": "patch does not apply: " + o[-300:]}
    rc, o = sh("go build ./... && go test -count=1 ./... 2>&1 | grep -E '^(--- FAIL|FAIL|ok)'", cwd=wt)
    suite_fail = sorted({l.split()[2] for l in o.splitlines() if l.startswith("--- FAIL")})
    shutil.rmtree(snap, ignore_errors=True)
    os.makedirs("/tmp/vsnap", exist_ok=True)
    sh(["rsync", "-a", "--exclude", ".cache", "--exclude", "replays", "--exclude", ".git", "--exclude", "seeded", "/verif/", snap + "/"])
    env = dict(ENV, VERIF_REPO=wt)
    alarms, t0 = {}, time.time()
    bridge = None
    for c in PROPS:
        rc, o = sh(["./check", c], cwd=snap, env=env)
        lines = [l[:300] for l in o.splitlines() if l.startswith("VIOLATION") or "broken obligation" in l or "disagreement" in l]
        if rc != 0:
            alarms[c] = lines[:3] or ["exit %d: %s" % (rc, o[-200:])]
    try:
        ev = json.load(open(os.path.join(snap, "evidence", "C03.json")))
        bridge = ev["coverage"].get("bridge_theorem", {}).get("proved_on_this_tree")
        fast = ev["coverage"].get("corr_distribution") is not None
    except Exception:
        pass
    shutil.rmtree(snap, ignore_errors=True)
    sh(["git", "-C", "/repo", "worktree", "remove", "--force", wt])
    return name, {"suite_failures": suite_fail, "alarms": alarms, "bridge_theorem_still_proved": bridge, "s": round(time.time() - t0)}


def main():
    patches = sys.argv[1:] or sorted(glob.glob("/verif/harmless/*.diff"))
    with ThreadPoolExecutor(3) as ex:
        res = dict(ex.map(one, patches))
    old = {}
    rf = "/verif/harmless/results.json"
    if os.path.exists(rf):
        try:
            old = json.load(open(rf))
        except Exception:
            old = {}
    old.update(res)
    json.dump(old, open(rf, "w"), indent=1, sort_keys=True)
    for k, v in sorted(res.items()):
        print(k, json.dumps(v)[:400])


main()
