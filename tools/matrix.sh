#!/bin/bash
# tools/matrix.sh: every seeded change against the check of the property it breaks (results in seeded/*/meta.json)
cd /verif
for m in C01 C02 C03 C04 C05 C06 C07 C08 C09 C10 C11 C12 C13 C14 C15 C16 C17 C18 C19 C20; do
  echo "=== $m"
  python3 tools/mutant.py $m $m 2>&1 | tail -8
  git -C /repo checkout -- . 2>/dev/null
done
git -C /repo worktree list
