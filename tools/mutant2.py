#!/usr/bin/env python3
"""tools/mutant2.py <mutant-id> <prop> [checks...] [--keep-wt]

Confirms a seeded change (suite still passes, demo fails with it and passes on the pristine tree) and runs
our checks against it WITHOUT touching /repo: the change lives in a scratch worktree /tmp/wt/<id>, the checks
run from a private copy of /verif (so that editing /verif meanwhile does not disturb them) with
VERIF_REPO=/tmp/wt/<id>.  Several of these can run side by side.  The registered procedure (apply to /repo,
run, revert) is tools/mutant.py; both give the same verdicts, this one is for development."""
import json, os, shutil, subprocess, sys, time
ENV = dict(os.environ, GOFLAGS="-mod=mod", GOPROXY="off")


def sh(cmd, cwd=None, timeout=3600, env=None):
    p = subprocess.run(cmd, cwd=cwd, env=env or ENV, shell=isinstance(cmd, str), capture_output=True, text=True,
                       timeout=timeout)
    return p.returncode, (p.stdout + p.stderr)


def main():
    args = [a for a in sys.argv[1:] if not a.startswith("--")]
    keep_wt = "--keep-wt" in sys.argv
    mid, prop = args[0], args[1]
    checks = [prop] + [c for c in args[2:] if c != prop]
    out = "/tmp/wt-out/" + mid
    wt = "/tmp/wt/" + mid
    sd = "/verif/seeded/" + mid
    meta = {"id": mid, "breaks": prop}
    patch = os.path.join(out, "patch.diff")
    if not os.path.exists(patch):
        patch, out = os.path.join(sd, "patch.diff"), sd
    if not os.path.isdir(wt):
        sh(["git", "-C", "/repo", "worktree", "prune"])
        sh(["git", "-C", "/repo", "worktree", "add", "--detach", wt, "HEAD"])
        rc, o = sh(["git", "-C", wt, "apply", patch])
        if rc != 0:
            print("patch does not apply:", o)
            sys.exit(1)
    # 1. suite on the worktree with the change
    rc, o = sh("go build ./... && go test -count=1 ./... 2>&1 | tail -15", cwd=wt)
    fails = [l for l in o.splitlines() if l.startswith("--- FAIL") or l.startswith("FAIL")]
    rc2, o2 = sh("go test -count=1 ./pkg/moq/ ./internal/... 2>&1 | grep -E '^--- FAIL' ", cwd=wt)
    meta["suite_with_change"] = {"fail_lines": fails, "failing_tests": [l.split()[2] for l in o2.splitlines() if len(l.split()) > 2]}
    # 2. demo: fails with the change, passes on the pristine tree (an export of HEAD)
    demo = None
    for cand in ("demo.sh", "demo/demo.sh"):
        if os.path.exists(os.path.join(out, cand)):
            demo = os.path.join(out, cand)
    pristine = "/tmp/wt/pristine-" + mid
    shutil.rmtree(pristine, ignore_errors=True)
    os.makedirs(pristine)
    sh("git -C /repo archive HEAD | tar -x -C " + pristine)
    rc_m, o_m = sh(["bash", demo, wt], cwd=os.path.dirname(demo), timeout=1200)
    rc_p, o_p = sh(["bash", demo, pristine], cwd=os.path.dirname(demo), timeout=1200)
    shutil.rmtree(pristine, ignore_errors=True)
    meta["demo"] = {"script": os.path.relpath(demo, out), "with_change_exit": rc_m, "pristine_exit": rc_p,
                    "with_change_tail": o_m[-600:], "pristine_tail": o_p[-300:]}
    # 3. our checks, from a private copy of /verif, against the worktree
    snap = "/tmp/vsnap/" + mid
    shutil.rmtree(snap, ignore_errors=True)
    os.makedirs("/tmp/vsnap", exist_ok=True)
    sh(["rsync", "-a", "--exclude", ".cache", "--exclude", "replays", "--exclude", ".git", "--exclude", "seeded",
        "/verif/", snap + "/"])
    results = {}
    env = dict(ENV, VERIF_REPO=wt)
    for c in checks:
        t = time.time()
        rc, o = sh(["./check", c], cwd=snap, timeout=3600, env=env)
        lines = [l for l in o.splitlines() if l.startswith("VIOLATION") or l.startswith("[check] " + c) or l.startswith("KNOWN")]
        if rc not in (0, 1) or not lines:
            lines.append("CHECK CRASHED: " + o[-400:])
        results[c] = {"exit": rc, "lines": [l.replace(snap, "/verif")[:600] for l in lines[-6:]], "s": round(time.time() - t, 1)}
        print(mid, c, rc, "\n   " + "\n   ".join(l[:300] for l in lines[-5:]))
        # keep the replays of this run for inspection
        rp = os.path.join(snap, "replays")
        if os.path.isdir(rp):
            dst = "/tmp/wt-out/%s/replays-%s" % (mid, c)
            shutil.rmtree(dst, ignore_errors=True)
            shutil.copytree(rp, dst)
            shutil.rmtree(rp, ignore_errors=True)
    meta["checks"] = results
    meta["how_run"] = "tools/mutant2.py: checks run from a copy of /verif with VERIF_REPO=<scratch worktree with the change>"
    shutil.rmtree(snap, ignore_errors=True)
    os.makedirs(sd, exist_ok=True)
    if out != sd:
        shutil.copy(patch, os.path.join(sd, "patch.diff"))
        if os.path.exists(os.path.join(out, "notes.md")):
            shutil.copy(os.path.join(out, "notes.md"), os.path.join(sd, "notes.md"))
        ddir = os.path.join(sd, "demo")
        shutil.rmtree(ddir, ignore_errors=True)
        if os.path.isdir(os.path.join(out, "demo")):
            shutil.copytree(os.path.join(out, "demo"), ddir,
                            ignore=shutil.ignore_patterns("work*", "*.test", "moq", "bin*", "*.out", "replays*"))
        if os.path.exists(os.path.join(out, "demo.sh")):
            shutil.copy(os.path.join(out, "demo.sh"), os.path.join(sd, "demo.sh"))
    json.dump(meta, open(os.path.join(sd, "meta.json"), "w"), indent=1)
    print(mid, json.dumps(meta["suite_with_change"]), "demo:", rc_m, rc_p)
    if not keep_wt:
        sh(["git", "-C", "/repo", "worktree", "remove", "--force", wt])


main()
