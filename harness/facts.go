package main

import (
	"fmt"
	"go/types"
	"strconv"
	"strings"

	"golang.org/x/tools/go/packages"
)

// q quotes a string for the S-expression protocol.
func q(s string) string {
	var b strings.Builder
	b.WriteByte('"')
	for _, r := range s {
		switch r {
		case '"':
			b.WriteString(`\"`)
		case '\\':
			b.WriteString(`\\`)
		case '\n':
			b.WriteString(`\n`)
		case '\t':
			b.WriteString(`\t`)
		default:
			b.WriteRune(r)
		}
	}
	b.WriteByte('"')
	return b.String()
}

func pkgOf(o types.Object) (string, string) {
	if o.Pkg() == nil {
		return "", ""
	}
	return o.Pkg().Path(), o.Pkg().Name()
}

func isSliceU(t types.Type) bool {
	_, ok := t.Underlying().(*types.Slice)
	return ok
}

// tySexp renders a go/types type as the protocol's Ty term.
func tySexp(t types.Type) string {
	switch t := t.(type) {
	case *types.Basic:
		return "(basic " + q(t.Name()) + ")"
	case *types.Named:
		p, n := pkgOf(t.Obj())
		var b strings.Builder
		fmt.Fprintf(&b, "(named %s %s %s %v", q(p), q(n), q(t.Obj().Name()), isSliceU(t))
		if ta := t.TypeArgs(); ta != nil {
			for i := 0; i < ta.Len(); i++ {
				b.WriteString(" " + tySexp(ta.At(i)))
			}
		}
		b.WriteString(")")
		return b.String()
	case *types.Alias:
		p, n := pkgOf(t.Obj())
		var b strings.Builder
		fmt.Fprintf(&b, "(alias %s %s %s %v", q(p), q(n), q(t.Obj().Name()), isSliceU(t))
		if ta := t.TypeArgs(); ta != nil {
			for i := 0; i < ta.Len(); i++ {
				b.WriteString(" " + tySexp(ta.At(i)))
			}
		}
		b.WriteString(")")
		return b.String()
	case *types.Pointer:
		return "(ptr " + tySexp(t.Elem()) + ")"
	case *types.Slice:
		return "(slice " + tySexp(t.Elem()) + ")"
	case *types.Array:
		return "(array " + strconv.FormatInt(t.Len(), 10) + " " + tySexp(t.Elem()) + ")"
	case *types.Map:
		return "(map " + tySexp(t.Key()) + " " + tySexp(t.Elem()) + ")"
	case *types.Chan:
		d := "both"
		switch t.Dir() {
		case types.SendOnly:
			d = "send"
		case types.RecvOnly:
			d = "recv"
		}
		return "(chan " + d + " " + tySexp(t.Elem()) + ")"
	case *types.Signature:
		return sigSexp(t)
	case *types.Struct:
		var b strings.Builder
		b.WriteString("(struct")
		for i := 0; i < t.NumFields(); i++ {
			f := t.Field(i)
			fmt.Fprintf(&b, " (f %s %v %s %s)", q(f.Name()), f.Embedded(), q(t.Tag(i)), tySexp(f.Type()))
		}
		b.WriteString(")")
		return b.String()
	case *types.Interface:
		var b strings.Builder
		fmt.Fprintf(&b, "(iface %v (methods", t.IsImplicit())
		for i := 0; i < t.NumExplicitMethods(); i++ {
			m := t.ExplicitMethod(i)
			fmt.Fprintf(&b, " (%s %s)", q(m.Name()), sigSexp(m.Type().(*types.Signature)))
		}
		b.WriteString(") (embeds")
		for i := 0; i < t.NumEmbeddeds(); i++ {
			b.WriteString(" " + tySexp(t.EmbeddedType(i)))
		}
		b.WriteString("))")
		return b.String()
	case *types.TypeParam:
		return "(tparam " + q(t.Obj().Name()) + ")"
	case *types.Union:
		var b strings.Builder
		b.WriteString("(union")
		for i := 0; i < t.Len(); i++ {
			fmt.Fprintf(&b, " (%v %s)", t.Term(i).Tilde(), tySexp(t.Term(i).Type()))
		}
		b.WriteString(")")
		return b.String()
	}
	return "(basic " + q("<unsupported "+t.String()+">") + ")"
}

func tupleSexp(tag string, tup *types.Tuple) string {
	var b strings.Builder
	b.WriteString("(" + tag)
	for i := 0; i < tup.Len(); i++ {
		v := tup.At(i)
		fmt.Fprintf(&b, " (%s %s)", q(v.Name()), tySexp(v.Type()))
	}
	b.WriteString(")")
	return b.String()
}

func sigSexp(s *types.Signature) string {
	return fmt.Sprintf("(sig %v %s %s)", s.Variadic(), tupleSexp("params", s.Params()), tupleSexp("results", s.Results()))
}

// JobCfg is one moq invocation.
type JobCfg struct {
	ID         string   `json:"id"`
	Dir        string   `json:"dir"`
	PkgName    string   `json:"pkg"`
	Formatter  string   `json:"fmt"`
	StubImpl   bool     `json:"stub"`
	SkipEnsure bool     `json:"skip"`
	WithResets bool     `json:"resets"`
	Args       []string `json:"args"`
}

// scopeSexp dumps what Scope().Lookup would find for every name of the package scope.
func scopeSexp(pkg *types.Package) string {
	var b strings.Builder
	b.WriteString("(scope")
	for _, name := range pkg.Scope().Names() {
		obj := pkg.Scope().Lookup(name)
		if !types.IsInterface(obj.Type()) {
			fmt.Fprintf(&b, " (%s (notiface %s))", q(name), q(obj.Type().String()))
			continue
		}
		var tparams *types.TypeParamList
		if named, ok := obj.Type().(*types.Named); ok {
			tparams = named.TypeParams()
		}
		iface := obj.Type().Underlying().(*types.Interface).Complete()
		_, isTN := obj.(*types.TypeName)
		fmt.Fprintf(&b, " (%s (iface %v %v %s (tparams", q(name), tparams != nil && tparams.Len() > 0, isTN, q(obj.Type().String()))
		if tparams != nil {
			for i := 0; i < tparams.Len(); i++ {
				tp := tparams.At(i)
				fmt.Fprintf(&b, " (%s %s (embeds", q(tp.Obj().Name()), tySexp(tp.Constraint()))
				if u, ok := tp.Constraint().Underlying().(*types.Interface); ok {
					for j := 0; j < u.NumEmbeddeds(); j++ {
						b.WriteString(" " + tySexp(u.EmbeddedType(j)))
					}
				}
				b.WriteString("))")
			}
		}
		b.WriteString(") (methods")
		for j := 0; j < iface.NumMethods(); j++ {
			m := iface.Method(j)
			s := m.Type().(*types.Signature)
			fmt.Fprintf(&b, " (%s %s %s %v)", q(m.Name()), tupleSexp("params", s.Params()), tupleSexp("results", s.Results()), s.Variadic())
		}
		b.WriteString(")))")
	}
	b.WriteString(")")
	return b.String()
}

// loadSrc loads the source package the way moq does.
func loadSrc(dir string) (*packages.Package, error) {
	pkgs, err := packages.Load(&packages.Config{
		Mode: packages.NeedName | packages.NeedSyntax | packages.NeedTypes,
		Dir:  dir,
	})
	if err != nil {
		return nil, err
	}
	if len(pkgs) != 1 {
		return nil, fmt.Errorf("%d packages", len(pkgs))
	}
	if len(pkgs[0].Errors) != 0 {
		return nil, pkgs[0].Errors[0]
	}
	return pkgs[0], nil
}

// probeDir is what registry.pkgInDir observes: the name of the package in directory dir.
func probeDir(dir string) (string, bool) {
	if fastOn {
		return fastProbeFn(dir)
	}
	pkgs, err := packages.Load(&packages.Config{Mode: packages.NeedName, Dir: dir})
	if err != nil || len(pkgs) != 1 || len(pkgs[0].Errors) != 0 {
		return "", false
	}
	return pkgs[0].Name, true
}

// caseSexp builds the `(case …)` line for the Lean driver.
func caseSexp(job JobCfg, src *packages.Package) string {
	var b strings.Builder
	fmt.Fprintf(&b, "(case %s (src %s %s) (fileimports", q(job.ID), q(src.Name), q(src.PkgPath))
	for _, f := range src.Syntax {
		for _, im := range f.Imports {
			if im.Name != nil {
				fmt.Fprintf(&b, " (%s %s)", q(strings.Trim(im.Path.Value, `"`)), q(im.Name.Name))
			}
		}
	}
	b.WriteString(") ")
	b.WriteString(scopeSexp(src.Types))
	fmt.Fprintf(&b, " (pkg %s) (probe", q(job.PkgName))
	if job.PkgName != "" {
		if n, ok := probeDir(job.PkgName); ok {
			b.WriteString(" " + q(n))
		}
	}
	fmt.Fprintf(&b, ") (fmt %s) (flags %v %v %v) (args", q(job.Formatter), job.StubImpl, job.SkipEnsure, job.WithResets)
	for _, a := range job.Args {
		b.WriteString(" " + q(a))
	}
	b.WriteString("))")
	return b.String()
}
