module verif/harness

go 1.24

require (
	github.com/matryer/moq v0.0.0
	golang.org/x/tools v0.30.0
)

require (
	golang.org/x/mod v0.23.0 // indirect
	golang.org/x/sync v0.11.0 // indirect
)

replace github.com/matryer/moq => /repo
