package main

import (
	"fmt"
	"go/ast"
	"go/format"
	"go/importer"
	"go/parser"
	"go/token"
	"go/types"
	"io"
	"os"
	"regexp"
	"sort"
	"strconv"
	"strings"

	"golang.org/x/tools/go/packages"
)

// srcInfo is a source package parsed and type-checked from source, with dependencies read from
// the export data listed in $VERIF_EXPORTS (lines "importpath=file", from `go list -export -deps`).
type srcInfo struct {
	fset    *token.FileSet
	files   []*ast.File
	names   []string
	pkgPath string
	pkgName string
	types   *types.Package
	imp     types.Importer
	err     error
}

var (
	srcCache   = map[string]*srcInfo{}
	exportMap  map[string]string
	sharedFset = token.NewFileSet()
	sharedImp  types.Importer
)

func loadExports() {
	if exportMap != nil {
		return
	}
	exportMap = map[string]string{}
	data, err := os.ReadFile(os.Getenv("VERIF_EXPORTS"))
	if err == nil {
		for _, line := range strings.Split(string(data), "\n") {
			if i := strings.IndexByte(line, '='); i > 0 && i+1 < len(line) {
				exportMap[line[:i]] = line[i+1:]
			}
		}
	}
	sharedImp = importer.ForCompiler(sharedFset, "gc", func(path string) (io.ReadCloser, error) {
		f, ok := exportMap[path]
		if !ok {
			return nil, fmt.Errorf("no export data for %q", path)
		}
		return os.Open(f)
	})
}

func loadFull(dir string) *srcInfo {
	if fastOn {
		return fastLoadDirFn(dir)
	}
	if si, ok := srcCache[dir]; ok {
		return si
	}
	loadExports()
	si := &srcInfo{fset: sharedFset, imp: sharedImp}
	srcCache[dir] = si
	pkgs, err := packages.Load(&packages.Config{Mode: packages.NeedName | packages.NeedFiles, Dir: dir})
	if err != nil || len(pkgs) != 1 || len(pkgs[0].Errors) != 0 {
		si.err = fmt.Errorf("cannot list source package: %v", err)
		return si
	}
	si.pkgPath, si.pkgName = pkgs[0].PkgPath, pkgs[0].Name
	for _, fn := range pkgs[0].GoFiles {
		f, err := parser.ParseFile(si.fset, fn, nil, parser.ParseComments|parser.SkipObjectResolution)
		if err != nil {
			si.err = err
			return si
		}
		si.files = append(si.files, f)
		si.names = append(si.names, fn)
	}
	conf := types.Config{Importer: si.imp}
	si.types, si.err = conf.Check(si.pkgPath, si.fset, si.files, nil)
	return si
}

// Checked is the type-checked output in its intended destination.
type Checked struct {
	fset    *token.FileSet
	file    *ast.File
	pkg     *types.Package
	info    *types.Info
	src     *types.Package // the source package as seen from the destination
	inPlace bool
	errs    []string
	errPos  []token.Pos
}

// destination decides where the property says the output lives.
func inPlaceIntended(job JobCfg, srcName string) bool {
	return job.PkgName == "" || job.PkgName == srcName
}

// typeCheck parses the real output and type-checks it in its destination package.
// exclude names files of the source directory that must be ignored (an earlier output).
func typeCheck(job JobCfg, out string, exclude string) (*Checked, string) {
	si := loadFull(job.Dir)
	if si.err != nil {
		return nil, "oracle-load: " + si.err.Error()
	}
	fset := si.fset
	f, err := parser.ParseFile(fset, "moq_out.go", out, parser.ParseComments|parser.SkipObjectResolution)
	if err != nil {
		return nil, "parse: " + err.Error()
	}
	c := &Checked{fset: fset, file: f, inPlace: inPlaceIntended(job, si.pkgName)}
	conf := types.Config{
		Importer: si.imp,
		Error: func(err error) {
			if len(c.errs) < 6 {
				c.errs = append(c.errs, err.Error())
				if te, ok := err.(types.Error); ok {
					c.errPos = append(c.errPos, te.Pos)
				} else {
					c.errPos = append(c.errPos, token.NoPos)
				}
			}
		},
	}
	c.info = &types.Info{Defs: map[*ast.Ident]types.Object{}, Uses: map[*ast.Ident]types.Object{}}
	if c.inPlace {
		files := []*ast.File{}
		for i, sf := range si.files {
			if exclude != "" && strings.HasSuffix(si.names[i], exclude) {
				continue
			}
			files = append(files, sf)
		}
		files = append(files, f)
		for _, im := range f.Imports {
			if strings.Trim(im.Path.Value, `"`) == si.pkgPath {
				c.errs = append(c.errs, "output imports its own package "+si.pkgPath)
			}
		}
		c.pkg, _ = conf.Check(si.pkgPath, fset, files, c.info)
		c.src = c.pkg
	} else {
		path := si.pkgPath + "_verifdst"
		if job.PkgName == si.pkgName+"_test" {
			path = si.pkgPath + "_test"
		}
		c.pkg, _ = conf.Check(path, fset, []*ast.File{f}, c.info)
		c.src = nil
		for _, ip := range c.pkg.Imports() {
			if ip.Path() == si.pkgPath {
				c.src = ip
			}
		}
		if c.src == nil {
			// not imported by the output (-skip-ensure): read it for the comparison
			c.src, _ = si.imp.Import(si.pkgPath)
		}
	}
	if f.Name.Name != mockPkgNameOf(job, si.pkgName) {
		c.errs = append(c.errs, "package clause is "+f.Name.Name)
	}
	if len(c.errs) > 0 {
		return c, "typecheck: " + strings.Join(c.errs, " | ")
	}
	return c, ""
}

func mockPkgNameOf(job JobCfg, srcName string) string {
	if job.PkgName != "" {
		return job.PkgName
	}
	return srcName
}

func splitArg(a string) (string, string) {
	parts := strings.SplitN(a, ":", 2)
	if len(parts) == 2 {
		return parts[0], parts[1]
	}
	return a, a + "Mock"
}

func sigNoRecv(s *types.Signature) *types.Signature {
	return types.NewSignatureType(nil, nil, nil, s.Params(), s.Results(), s.Variadic())
}

// checkImplements is the C02 / C09 / C08 / C20 oracle on a type-checked output.
func checkImplements(job JobCfg, c *Checked) map[string]string {
	res := map[string]string{}
	add := func(k, v string) {
		if res[k] == "" {
			res[k] = v
		}
	}
	// C20: one mock type per argument, in order
	var typeDecls []string
	for _, d := range c.file.Decls {
		if gd, ok := d.(*ast.GenDecl); ok && gd.Tok == token.TYPE {
			for _, sp := range gd.Specs {
				typeDecls = append(typeDecls, sp.(*ast.TypeSpec).Name.Name)
			}
		}
	}
	var want []string
	for _, a := range job.Args {
		_, mk := splitArg(a)
		want = append(want, mk)
	}
	if strings.Join(typeDecls, ",") != strings.Join(want, ",") {
		add("C20", fmt.Sprintf("mock types %v, arguments ask for %v", typeDecls, want))
	}
	for _, a := range job.Args {
		in, mk := splitArg(a)
		iobj := c.src.Scope().Lookup(in)
		mobj := c.pkg.Scope().Lookup(mk)
		if iobj == nil || mobj == nil {
			add("C20", "missing "+in+" or "+mk)
			continue
		}
		mnamed, ok := mobj.Type().(*types.Named)
		if !ok {
			add("C20", mk+" is not a named type")
			continue
		}
		var itparams *types.TypeParamList
		if n, ok := iobj.Type().(*types.Named); ok {
			itparams = n.TypeParams()
		}
		mt := types.Type(mnamed)
		it := iobj.Type()
		// C09: same number, order, spelling and constraints of type parameters
		nI, nM := 0, 0
		if itparams != nil {
			nI = itparams.Len()
		}
		if mnamed.TypeParams() != nil {
			nM = mnamed.TypeParams().Len()
		}
		if nI != nM {
			add("C09", fmt.Sprintf("%s has %d type parameters, %s has %d", in, nI, mk, nM))
			continue
		}
		if nI > 0 {
			targs := make([]types.Type, nI)
			for i := 0; i < nI; i++ {
				targs[i] = itparams.At(i)
				if itparams.At(i).Obj().Name() != mnamed.TypeParams().At(i).Obj().Name() {
					add("C09", fmt.Sprintf("type parameter %d is spelled %s, interface has %s", i, mnamed.TypeParams().At(i).Obj().Name(), itparams.At(i).Obj().Name()))
				}
			}
			inst, err := types.Instantiate(types.NewContext(), mnamed, targs, true)
			if err != nil {
				add("C09", "mock cannot be instantiated with the interface's own type parameters: "+err.Error())
				continue
			}
			mt = inst
			// the mock's constraints, instantiated the same way, must equal the interface's
			for i := 0; i < nI; i++ {
				ci := itparams.At(i).Constraint()
				cm := mnamed.TypeParams().At(i).Constraint()
				if types.TypeString(ci, nil) != types.TypeString(cm, nil) {
					// spelling of referenced type parameters coincides, so strings are comparable
					add("C09", fmt.Sprintf("constraint %d: %s vs %s", i, types.TypeString(cm, nil), types.TypeString(ci, nil)))
				}
			}
		}
		iface, _ := it.Underlying().(*types.Interface)
		if iface == nil {
			continue
		}
		ptr := types.NewPointer(mt)
		mset := types.NewMethodSet(ptr)
		st, _ := mt.Underlying().(*types.Struct)
		for i := 0; i < iface.NumMethods(); i++ {
			m := iface.Method(i)
			sel := mset.Lookup(m.Pkg(), m.Name())
			if sel == nil {
				add("C02", mk+" lacks method "+m.Name())
				continue
			}
			ms := sel.Type().(*types.Signature)
			is := m.Type().(*types.Signature)
			if !types.Identical(sigNoRecv(ms), sigNoRecv(is)) {
				add("C02", fmt.Sprintf("%s.%s has signature %s, interface has %s", mk, m.Name(), ms, is))
			}
			// exactly one companion field MFunc of identical function type
			cnt := 0
			if st != nil {
				for j := 0; j < st.NumFields(); j++ {
					if st.Field(j).Name() == m.Name()+"Func" {
						cnt++
						fs, _ := st.Field(j).Type().(*types.Signature)
						if fs == nil || !types.Identical(fs, sigNoRecv(is)) {
							add("C02", fmt.Sprintf("%s.%sFunc has type %s, method is %s", mk, m.Name(), st.Field(j).Type(), is))
						}
					}
				}
			}
			if cnt != 1 {
				add("C02", fmt.Sprintf("%s has %d fields %sFunc", mk, cnt, m.Name()))
			}
		}
		if !types.Implements(ptr, iface) && !types.Satisfies(ptr, iface) {
			add("C02", "*"+mk+" does not implement "+in)
		}
		// C08: the method set of *Mock is exactly the interface methods, one accessor per method and,
		// with -with-resets only, one reset per method plus ResetCalls
		want := map[string]string{}
		for i := 0; i < iface.NumMethods(); i++ {
			n := iface.Method(i).Name()
			want[n] = "method"
			want[n+"Calls"] = "accessor"
			if job.WithResets {
				want["Reset"+n+"Calls"] = "reset"
			}
		}
		if job.WithResets {
			want["ResetCalls"] = "reset"
		}
		have := map[string]bool{}
		for i := 0; i < mset.Len(); i++ {
			have[mset.At(i).Obj().Name()] = true
		}
		var missing, extra []string
		for n, kind := range want {
			if !have[n] && kind == "reset" {
				missing = append(missing, n)
			}
		}
		for n := range have {
			if _, ok := want[n]; !ok {
				extra = append(extra, n)
			}
		}
		sort.Strings(missing)
		sort.Strings(extra)
		if len(missing) > 0 || len(extra) > 0 {
			add("C08", fmt.Sprintf("%s (with-resets=%v): missing reset methods %v, unexpected methods %v", mk, job.WithResets, missing, extra))
		}
		// every method has its Calls accessor
		for i := 0; i < iface.NumMethods(); i++ {
			if mset.Lookup(c.pkg, iface.Method(i).Name()+"Calls") == nil {
				add("C04", mk+" lacks accessor "+iface.Method(i).Name()+"Calls")
			}
		}
	}
	return res
}

// checkImports is the C11 / C10 oracle: the import block against what go/types resolved.
func checkImports(job JobCfg, c *Checked, srcPath string) map[string]string {
	res := map[string]string{}
	seenPath := map[string]bool{}
	seenName := map[string]bool{}
	for _, im := range c.file.Imports {
		p := strings.Trim(im.Path.Value, `"`)
		if seenPath[p] {
			res["C11"] = "path imported twice: " + p
		}
		seenPath[p] = true
		if strings.Contains(p, "/vendor/") || strings.HasPrefix(p, "vendor/") {
			res["C11"] = "vendored path in import: " + p
		}
		if im.Name != nil && (im.Name.Name == "." || im.Name.Name == "_") {
			res["C11"] = "dot or blank import of " + p
		}
		name := ""
		if im.Name != nil {
			name = im.Name.Name
		} else if pk := c.pkg.Imports(); pk != nil {
			for _, ip := range pk {
				if ip.Path() == p {
					name = ip.Name()
				}
			}
		}
		if name != "" && seenName[name] {
			res["C11"] = "qualifier used twice: " + name
		}
		seenName[name] = true
	}
	if _, ok := seenPath["sync"]; ok != hasMethods(job, c) {
		res["C11"] = fmt.Sprintf("sync imported=%v but some mock has a method=%v", ok, hasMethods(job, c))
	}
	if c.inPlace && seenPath[srcPath] {
		res["C10"] = "file generated into the source package imports it"
	}
	return res
}

func hasMethods(job JobCfg, c *Checked) bool {
	for _, a := range job.Args {
		in, _ := splitArg(a)
		if o := c.src.Scope().Lookup(in); o != nil {
			if it, ok := o.Type().Underlying().(*types.Interface); ok && it.NumMethods() > 0 {
				return true
			}
		}
	}
	return false
}

// checkFormat is the C16 oracle on the three real outputs.
func checkFormat(noop, gofmtOut, goimportsOut string, haveGoimports bool) string {
	want, err := format.Source([]byte(noop))
	if err != nil {
		return "noop output does not parse: " + err.Error()
	}
	if string(want) != gofmtOut {
		return "gofmt(noop output) differs from the default output"
	}
	again, err := format.Source([]byte(gofmtOut))
	if err != nil || string(again) != gofmtOut {
		return "default output is not a gofmt fixed point"
	}
	if !strings.HasPrefix(gofmtOut, "// Code generated by moq; DO NOT EDIT.\n") {
		return "first line is not the generated-code marker"
	}
	if idx := strings.Index(gofmtOut, "\npackage "); idx < 0 || strings.Contains(gofmtOut[:idx], "\nimport") {
		return "marker is not before the package clause"
	}
	if haveGoimports {
		if d := declDiff(gofmtOut, goimportsOut); d != "" {
			return "goimports output: " + d
		}
	}
	return ""
}

func declDiff(a, b string) string {
	fs := token.NewFileSet()
	fa, err1 := parser.ParseFile(fs, "a.go", a, parser.SkipObjectResolution)
	fb, err2 := parser.ParseFile(fs, "b.go", b, parser.SkipObjectResolution)
	if err1 != nil || err2 != nil {
		return "does not parse"
	}
	imps := func(f *ast.File) string {
		var l []string
		for _, im := range f.Imports {
			// the property speaks of the set of imported paths; goimports may add an explicit
			// name where the package name differs from the last path element
			l = append(l, im.Path.Value)
		}
		sort.Strings(l)
		return strings.Join(l, ";")
	}
	if imps(fa) != imps(fb) {
		return "import sets differ: " + imps(fa) + " vs " + imps(fb)
	}
	decls := func(f *ast.File) []string {
		var l []string
		for _, d := range f.Decls {
			if gd, ok := d.(*ast.GenDecl); ok && gd.Tok == token.IMPORT {
				continue
			}
			var sb strings.Builder
			format.Node(&sb, token.NewFileSet(), d)
			l = append(l, sb.String())
		}
		return l
	}
	da, db := decls(fa), decls(fb)
	if len(da) != len(db) {
		return fmt.Sprintf("%d vs %d declarations", len(da), len(db))
	}
	for i := range da {
		if da[i] != db[i] {
			return "declaration " + fmt.Sprint(i) + " differs"
		}
	}
	return ""
}

func anonTuple(t *types.Tuple) *types.Tuple {
	vars := make([]*types.Var, t.Len())
	for i := 0; i < t.Len(); i++ {
		vars[i] = types.NewParam(token.NoPos, nil, "", t.At(i).Type())
	}
	return types.NewTuple(vars...)
}

func anonSig(s *types.Signature) string {
	return types.TypeString(types.NewSignatureType(nil, nil, nil, anonTuple(s.Params()), anonTuple(s.Results()), s.Variadic()), nil)
}

// typeView describes a mock as types only: type parameters, fields, record layouts and method
// signatures, with parameter spellings and import qualifiers forgotten (C20).
func typeView(c *Checked, mockName string) string {
	obj := c.pkg.Scope().Lookup(mockName)
	if obj == nil {
		return "<missing " + mockName + ">"
	}
	named, ok := obj.Type().(*types.Named)
	if !ok {
		return "<not named>"
	}
	var b strings.Builder
	if tp := named.TypeParams(); tp != nil {
		for i := 0; i < tp.Len(); i++ {
			fmt.Fprintf(&b, "tparam %s %s\n", tp.At(i).Obj().Name(), types.TypeString(tp.At(i).Constraint(), nil))
		}
	}
	if st, ok := named.Underlying().(*types.Struct); ok {
		for i := 0; i < st.NumFields(); i++ {
			f := st.Field(i)
			switch ft := f.Type().(type) {
			case *types.Signature:
				fmt.Fprintf(&b, "field %s %s\n", f.Name(), anonSig(ft))
			case *types.Struct:
				if f.Name() == "calls" {
					for j := 0; j < ft.NumFields(); j++ {
						fmt.Fprintf(&b, "calls.%s", ft.Field(j).Name())
						if sl, ok := ft.Field(j).Type().(*types.Slice); ok {
							if rec, ok := sl.Elem().(*types.Struct); ok {
								for k := 0; k < rec.NumFields(); k++ {
									fmt.Fprintf(&b, " %s", types.TypeString(rec.Field(k).Type(), nil))
								}
							}
						}
						b.WriteString("\n")
						continue
					}
				} else {
					fmt.Fprintf(&b, "field %s %s\n", f.Name(), types.TypeString(ft, nil))
				}
			default:
				fmt.Fprintf(&b, "field %s %s\n", f.Name(), types.TypeString(ft, nil))
			}
		}
	}
	ms := types.NewMethodSet(types.NewPointer(named))
	for i := 0; i < ms.Len(); i++ {
		sig := ms.At(i).Type().(*types.Signature)
		if strings.HasSuffix(ms.At(i).Obj().Name(), "Calls") && sig.Results().Len() == 1 {
			// accessor: element layout is compared through the calls struct above
			fmt.Fprintf(&b, "method %s (accessor)\n", ms.At(i).Obj().Name())
			continue
		}
		fmt.Fprintf(&b, "method %s %s\n", ms.At(i).Obj().Name(), anonSig(sig))
	}
	return b.String()
}

// checkSolo is the C20 oracle: each mock of a joint run against the same mock generated alone.
// checkSolo regenerates every requested interface alone.  A solo run is a moq run of its own:
// when its output does not type-check, that is reported (second result) under the properties the
// errors belong to – C01 and what classify says – with the solo command line in the text.
func checkSolo(job JobCfg, joint *Checked) (string, map[string]string) {
	if len(job.Args) < 2 {
		return "", nil
	}
	for _, a := range job.Args {
		solo := job
		solo.Args = []string{a}
		out := runMoq(solo, "")
		if out.Err != "" || out.Panic != "" {
			return "solo generation of " + a + " fails: " + out.Err + out.Panic, nil
		}
		c, diag := typeCheck(solo, out.Out, "")
		if diag != "" || c == nil || c.pkg == nil {
			own := map[string]string{"C01": "with the single argument " + a + ": " + diag}
			if c != nil {
				si := loadFull(job.Dir)
				for k, v := range classify(c, anyGeneric(solo, si.types)) {
					own[k] = "with the single argument " + a + ": " + v
				}
			}
			return "solo generation of " + a + " does not type-check: " + diag, own
		}
		_, mk := splitArg(a)
		v1, v2 := typeView(joint, mk), typeView(c, mk)
		if v1 != v2 {
			return fmt.Sprintf("mock %s differs between joint and solo generation:\n--- joint\n%s--- solo\n%s", mk, v1, v2), nil
		}
	}
	return "", nil
}

// classify attributes the type errors of the generated file to properties by where they are:
// inside a method or the mock struct (names: C12), on the self-check line (C02; C09 for generic
// interfaces; C10 when the source package is imported into itself), in the import block (C11).
func classify(c *Checked, generic bool) map[string]string {
	res := map[string]string{}
	add := func(k, v string) {
		if res[k] == "" {
			res[k] = v
		}
	}
	for i, msg := range c.errs {
		if strings.Contains(msg, "imports its own package") {
			add("C10", msg)
			continue
		}
		// generated into another package, a type of the source package written without qualifier
		if i := strings.Index(msg, "undefined: "); i >= 0 && !c.inPlace && c.src != nil {
			name := strings.Fields(msg[i+len("undefined: "):] + " ")[0]
			if k := strings.LastIndex(name, "."); k >= 0 {
				name = name[k+1:] // `q.Name`: a source-package type under a qualifier that is not its import
			}
			if c.src.Scope().Lookup(name) != nil {
				add("C10", msg)
			}
		}
		if i >= len(c.errPos) || !c.errPos[i].IsValid() {
			continue
		}
		pos := c.errPos[i]
		if pos < c.file.Pos() || pos > c.file.End() {
			continue // error reported in a source file (e.g. "other declaration of")
		}
		for _, d := range c.file.Decls {
			if pos < d.Pos() || pos > d.End() {
				continue
			}
			switch d := d.(type) {
			case *ast.FuncDecl:
				if nameClash.MatchString(msg) {
					add("C12", msg)
					// the clashing identifier is one of the mock's own type parameters: this method
					// does not use the parameter where the interface does (C09)
					if m := errSubject.FindStringSubmatch(msg); m != nil && d.Recv != nil && recvTypeParam(d, m[1]) {
						add("C09", msg)
					}
				}
				// a method signature naming a package or type that does not exist: the mock's
				// method cannot have the interface's parameter and result types
				if d.Recv != nil && pos >= d.Type.Pos() && pos <= d.Type.End() && strings.Contains(msg, "undefined: ") {
					add("C02", msg)
				}
			case *ast.GenDecl:
				switch d.Tok {
				case token.IMPORT:
					add("C11", msg)
				case token.VAR:
					if generic {
						add("C09", msg)
					} else {
						add("C02", msg)
					}
				case token.TYPE:
					if strings.Contains(msg, "redeclared") || strings.Contains(msg, "duplicate") {
						add("C12", msg)
					} else if generic {
						add("C09", msg)
					}
				}
			}
		}
	}
	return res
}

var nameClash = regexp.MustCompile(`redeclared|duplicate (argument|field)|is not a type|not a package|no new variables|declared and not used|mismatched types|cannot use .* as .* value`)

var errSubject = regexp.MustCompile(`^(?:\S+:\d+:\d+: )?([A-Za-z_][A-Za-z0-9_]*) `)

// recvTypeParam reports whether name is one of the type parameters in the receiver of d
// (`func (mock *M[K, V]) ...`).
func recvTypeParam(d *ast.FuncDecl, name string) bool {
	if d.Recv == nil || len(d.Recv.List) != 1 {
		return false
	}
	t := d.Recv.List[0].Type
	if st, ok := t.(*ast.StarExpr); ok {
		t = st.X
	}
	var args []ast.Expr
	switch x := t.(type) {
	case *ast.IndexExpr:
		args = []ast.Expr{x.Index}
	case *ast.IndexListExpr:
		args = x.Indices
	}
	for _, a := range args {
		if id, ok := a.(*ast.Ident); ok && id.Name == name {
			return true
		}
	}
	return false
}

var identRe = regexp.MustCompile(`^[A-Za-z_][A-Za-z0-9_]*$`)

// checkImportAliases looks at the import block of the unformatted output: an alias that is
// not an identifier makes the file unparsable (C11).
func checkImportAliases(noop string) string {
	i := strings.Index(noop, "import (")
	if i < 0 {
		return ""
	}
	j := strings.Index(noop[i:], "\n)")
	if j < 0 {
		return ""
	}
	for _, line := range strings.Split(noop[i+len("import ("):i+j], "\n") {
		line = strings.TrimSpace(line)
		if line == "" || strings.HasPrefix(line, `"`) {
			continue
		}
		alias := strings.Fields(line)[0]
		if !identRe.MatchString(alias) || token.IsKeyword(alias) {
			return "import alias " + alias + " is not a valid identifier"
		}
	}
	return ""
}

func anyGeneric(job JobCfg, src *types.Package) bool {
	if src == nil {
		return false
	}
	for _, a := range job.Args {
		in, _ := splitArg(a)
		if o := src.Scope().Lookup(in); o != nil {
			if n, ok := o.Type().(*types.Named); ok && n.TypeParams() != nil && n.TypeParams().Len() > 0 {
				return true
			}
		}
	}
	return false
}

// An independent copy of the documented field-name rule (C13): the parameter name with its first
// letter upper-cased, or entirely upper-cased when it is, ignoring case, a well-known initialism.
var commonInitialisms = map[string]bool{"ACL": true, "API": true, "ASCII": true, "CPU": true, "CSS": true, "DNS": true,
	"EOF": true, "GUID": true, "HTML": true, "HTTP": true, "HTTPS": true, "ID": true, "IP": true, "JSON": true,
	"LHS": true, "QPS": true, "RAM": true, "RHS": true, "RPC": true, "SLA": true, "SMTP": true, "SQL": true,
	"SSH": true, "TCP": true, "TLS": true, "TTL": true, "UDP": true, "UI": true, "UID": true, "UUID": true,
	"URI": true, "URL": true, "UTF8": true, "VM": true, "XML": true, "XMPP": true, "XSRF": true, "XSS": true}

func fieldNameRule(param string) string {
	if param == "" {
		return ""
	}
	if u := strings.ToUpper(param); commonInitialisms[u] {
		return u
	}
	return strings.ToUpper(param[:1]) + param[1:]
}

// checkFieldNames is the C13 oracle on the parsed output: per generated method, the fields of the
// call record follow the parameter names by the rule above; and a parameter name written in the
// interface is kept verbatim when it is not the name of an imported package of the file.
func checkFieldNames(c *Checked, job JobCfg) string {
	quals := map[string]bool{}
	for _, im := range c.file.Imports {
		if im.Name != nil {
			quals[im.Name.Name] = true
		}
	}
	for _, ip := range c.pkg.Imports() {
		quals[ip.Name()] = true
	}
	for _, d := range c.file.Decls {
		fd, ok := d.(*ast.FuncDecl)
		if !ok || fd.Recv == nil || fd.Body == nil {
			continue
		}
		// the method that records: its body starts (after the optional nil check) with callInfo := struct{…}{…}
		var rec *ast.StructType
		ast.Inspect(fd.Body, func(n ast.Node) bool {
			if as, ok := n.(*ast.AssignStmt); ok && len(as.Lhs) == 1 {
				if id, ok := as.Lhs[0].(*ast.Ident); ok && id.Name == "callInfo" {
					if cl, ok := as.Rhs[0].(*ast.CompositeLit); ok {
						rec, _ = cl.Type.(*ast.StructType)
					}
				}
			}
			return rec == nil
		})
		if rec == nil {
			continue
		}
		var params, fields []string
		for _, f := range fd.Type.Params.List {
			for _, n := range f.Names {
				params = append(params, n.Name)
			}
		}
		for _, f := range rec.Fields.List {
			for _, n := range f.Names {
				fields = append(fields, n.Name)
			}
		}
		if len(params) != len(fields) {
			return fmt.Sprintf("method %s: %d parameters but %d record fields", fd.Name.Name, len(params), len(fields))
		}
		for i := range params {
			if want := fieldNameRule(params[i]); fields[i] != want {
				return fmt.Sprintf("method %s: parameter %s is recorded in field %s, the rule gives %s", fd.Name.Name, params[i], fields[i], want)
			}
		}
		// user-written names kept verbatim
		for _, a := range job.Args {
			in, mk := splitArg(a)
			recvName := ""
			if len(fd.Recv.List) == 1 {
				t := fd.Recv.List[0].Type
				if st, ok := t.(*ast.StarExpr); ok {
					t = st.X
				}
				if ix, ok := t.(*ast.IndexExpr); ok {
					t = ix.X
				}
				if ix, ok := t.(*ast.IndexListExpr); ok {
					t = ix.X
				}
				if id, ok := t.(*ast.Ident); ok {
					recvName = id.Name
				}
			}
			if recvName != mk {
				continue
			}
			obj := c.src.Scope().Lookup(in)
			if obj == nil {
				continue
			}
			it, ok := obj.Type().Underlying().(*types.Interface)
			if !ok {
				continue
			}
			for k := 0; k < it.NumMethods(); k++ {
				m := it.Method(k)
				if m.Name() != fd.Name.Name {
					continue
				}
				sig := m.Type().(*types.Signature)
				if sig.Params().Len() != len(params) {
					continue
				}
				seen := map[string]int{}
				for i := 0; i < sig.Params().Len(); i++ {
					seen[sig.Params().At(i).Name()]++
				}
				for i := 0; i < sig.Params().Len(); i++ {
					un := sig.Params().At(i).Name()
					if un == "" || un == "_" || quals[un] || seen[un] > 1 {
						continue
					}
					// a name that can coincide with a generated one (result variables end in Out,
					// numbered and suffixed variants) may legitimately be renamed after a collision
					if strings.HasSuffix(un, "Out") || strings.HasSuffix(un, "MoqParam") || (un[len(un)-1] >= '0' && un[len(un)-1] <= '9') {
						continue
					}
					// "whenever it collides with nothing": another parameter whose generated name has
					// the same stem (a type-derived name equal to the written one) is a collision
					clash := false
					for j := range params {
						if j != i && strings.TrimRight(params[j], "0123456789") == un {
							clash = true
						}
					}
					if clash {
						continue
					}
					if params[i] != un && !quals[un] {
						return fmt.Sprintf("method %s: parameter written %s in the interface is generated as %s", fd.Name.Name, un, params[i])
					}
				}
			}
		}
	}
	return ""
}

// checkPanicMsgs is the text half of C07's default clause on every mock of the file: the
// nil-check panic of method M of mock X (requested for interface I) names X, the field MFunc and
// the interface method I.M - whatever other mocks of the same run share the method with it.
func checkPanicMsgs(c *Checked, job JobCfg) string {
	if job.StubImpl {
		return ""
	}
	ifaceOf := map[string]string{}
	for _, a := range job.Args {
		in, mk := splitArg(a)
		ifaceOf[mk] = in
	}
	for _, d := range c.file.Decls {
		fd, ok := d.(*ast.FuncDecl)
		if !ok || fd.Recv == nil || fd.Body == nil || len(fd.Recv.List) != 1 {
			continue
		}
		// receiver *X or *X[T, …]
		var recv string
		if st, ok := fd.Recv.List[0].Type.(*ast.StarExpr); ok {
			switch x := st.X.(type) {
			case *ast.Ident:
				recv = x.Name
			case *ast.IndexExpr:
				if id, ok := x.X.(*ast.Ident); ok {
					recv = id.Name
				}
			case *ast.IndexListExpr:
				if id, ok := x.X.(*ast.Ident); ok {
					recv = id.Name
				}
			}
		}
		in, ok := ifaceOf[recv]
		if !ok {
			continue
		}
		m := fd.Name.Name
		var bad string
		ast.Inspect(fd.Body, func(n ast.Node) bool {
			call, ok := n.(*ast.CallExpr)
			if !ok || len(call.Args) != 1 {
				return true
			}
			if id, ok := call.Fun.(*ast.Ident); !ok || id.Name != "panic" {
				return true
			}
			lit, ok := call.Args[0].(*ast.BasicLit)
			if !ok || lit.Kind != token.STRING {
				return true
			}
			s, err := strconv.Unquote(lit.Value)
			want := recv + "." + m + "Func: method is nil but " + in + "." + m + " was just called"
			if err == nil && s != want {
				bad = fmt.Sprintf("method %s of %s panics with %q, which does not name the mock, the field and the interface method (%q)", m, recv, s, want)
			}
			return true
		})
		if bad != "" {
			return bad
		}
	}
	return ""
}

// checkArgsRejected is C17/C19's argument clause, judged on the source package itself: when some
// argument names no interface type of the package, every run must fail (and name it).
func checkArgsRejected(job JobCfg, res *Result) {
	si := loadFull(job.Dir)
	if si.err != nil || si.types == nil {
		return
	}
	badArg := ""
	for _, a := range job.Args {
		in, _ := splitArg(a)
		obj := si.types.Scope().Lookup(in)
		_, isTN := obj.(*types.TypeName)
		if obj == nil || !isTN || !types.IsInterface(obj.Type()) {
			badArg = a
			break
		}
	}
	if badArg == "" {
		return
	}
	for f, r := range res.Runs {
		if r.Err == "" && r.Panic == "" {
			res.Checks["C17"] = fmt.Sprintf("argument %q names no interface of the package, but moq (-fmt %q) succeeded and wrote %d bytes", badArg, f, len(r.Out))
			return
		}
	}
}

// checkLocks is the static half of C05's last mechanism ("sync imported under a qualifier that
// cannot be shadowed"): every lock field of every mock is the standard library's sync.RWMutex.
func checkLocks(c *Checked) string {
	for _, d := range c.file.Decls {
		gd, ok := d.(*ast.GenDecl)
		if !ok || gd.Tok != token.TYPE {
			continue
		}
		for _, sp := range gd.Specs {
			ts := sp.(*ast.TypeSpec)
			st, ok := ts.Type.(*ast.StructType)
			if !ok {
				continue
			}
			for _, f := range st.Fields.List {
				for _, n := range f.Names {
					if !strings.HasPrefix(n.Name, "lock") {
						continue
					}
					sel, ok := f.Type.(*ast.SelectorExpr)
					if !ok || sel.Sel.Name != "RWMutex" {
						return fmt.Sprintf("%s.%s is not a sync.RWMutex", ts.Name.Name, n.Name)
					}
					x, ok := sel.X.(*ast.Ident)
					if !ok {
						return fmt.Sprintf("%s.%s: unexpected lock type", ts.Name.Name, n.Name)
					}
					if pn, ok := c.info.Uses[x].(*types.PkgName); ok {
						if pn.Imported().Path() != "sync" {
							return fmt.Sprintf("%s.%s is %s.RWMutex of package %q, not the standard library's sync.RWMutex", ts.Name.Name, n.Name, x.Name, pn.Imported().Path())
						}
					}
				}
			}
		}
	}
	return ""
}

// ---- C13, second sentence: an independent copy of the type-derived naming rule ----

func derivedNested(t types.Type) string {
	if b, ok := t.(*types.Basic); ok {
		s := b.String()
		if s == "" {
			return s
		}
		return strings.ToLower(s[:1]) + s[1:]
	}
	return derivedName(t)
}

func derivedName(t types.Type) string {
	switch t := t.(type) {
	case *types.Named:
		if t.Obj().Name() == "error" {
			return "err"
		}
		n := t.Obj().Name()
		d := strings.ToLower(n[:1]) + n[1:]
		if d == n {
			d += "MoqParam"
		}
		return d
	case *types.Basic:
		switch t.Info() {
		case types.IsBoolean:
			return "b"
		case types.IsInteger:
			return "n"
		case types.IsFloat:
			return "f"
		case types.IsString:
			return "s"
		}
		return "v"
	case *types.Array:
		return derivedNested(t.Elem()) + "s"
	case *types.Slice:
		return derivedNested(t.Elem()) + "s"
	case *types.Struct:
		return "val"
	case *types.Pointer:
		return derivedName(t.Elem())
	case *types.Signature:
		return "fn"
	case *types.Interface:
		return "ifaceVal"
	case *types.Map:
		e := derivedNested(t.Elem())
		if e == "" {
			return derivedNested(t.Key()) + "To"
		}
		return derivedNested(t.Key()) + "To" + strings.ToUpper(e[:1]) + e[1:]
	case *types.Chan:
		return derivedNested(t.Elem()) + "Ch"
	}
	return "v"
}

var derivedSuffix = regexp.MustCompile(`^(MoqParam|[0-9])*$`)

// checkDerivedNames: every unnamed (or blank) parameter of a mocked method is called by the name
// the fixed rule derives from its type, possibly followed by MoqParam / digits where a collision
// forced a rename.
func checkDerivedNames(c *Checked, job JobCfg) string {
	if c.src == nil {
		return ""
	}
	mockIface := map[string]*types.Interface{}
	for _, a := range job.Args {
		in, mk := splitArg(a)
		obj := c.src.Scope().Lookup(in)
		if obj == nil || !types.IsInterface(obj.Type()) {
			continue
		}
		if it, ok := obj.Type().Underlying().(*types.Interface); ok {
			mockIface[mk] = it.Complete()
		}
	}
	for _, d := range c.file.Decls {
		fd, ok := d.(*ast.FuncDecl)
		if !ok || fd.Recv == nil || len(fd.Recv.List) != 1 {
			continue
		}
		recv := ""
		if st, ok := fd.Recv.List[0].Type.(*ast.StarExpr); ok {
			switch x := st.X.(type) {
			case *ast.Ident:
				recv = x.Name
			case *ast.IndexExpr:
				if id, ok := x.X.(*ast.Ident); ok {
					recv = id.Name
				}
			case *ast.IndexListExpr:
				if id, ok := x.X.(*ast.Ident); ok {
					recv = id.Name
				}
			}
		}
		it := mockIface[recv]
		if it == nil {
			continue
		}
		var m *types.Func
		for i := 0; i < it.NumMethods(); i++ {
			if it.Method(i).Name() == fd.Name.Name {
				m = it.Method(i)
			}
		}
		if m == nil {
			continue
		}
		sig := m.Type().(*types.Signature)
		var names []string
		for _, f := range fd.Type.Params.List {
			for _, n := range f.Names {
				names = append(names, n.Name)
			}
		}
		if len(names) != sig.Params().Len() {
			continue
		}
		for i := 0; i < sig.Params().Len(); i++ {
			p := sig.Params().At(i)
			if p.Name() != "" && p.Name() != "_" {
				continue
			}
			want := derivedName(p.Type())
			got := names[i]
			if !strings.HasPrefix(got, want) || !derivedSuffix.MatchString(got[len(want):]) {
				return fmt.Sprintf("method %s: unnamed parameter %d of type %s is called %s; the rule derives %s (plus MoqParam/digits on a collision)",
					fd.Name.Name, i, types.TypeString(p.Type(), func(*types.Package) string { return "" }), got, want)
			}
		}
	}
	return ""
}
