//go:build verif

// Fast mode: the source package is parsed and type-checked in this process (no `go list`), and
// the real moq generates from it through the overlay hook moq.VerifMocker.  Everything after the
// load - LookupInterface, AddImport, AddVar, the template, the formatter - is the code of /repo.
package main

import (
	"bytes"
	"fmt"
	"go/ast"
	"go/parser"
	"go/types"
	"os"
	"path/filepath"
	"sort"
	"strings"

	"github.com/matryer/moq/pkg/moq"
	"golang.org/x/tools/go/packages"
)

var (
	fastRoot, fastMod string
	fastBase          *moq.Mocker
	fastBaseErr       error
	fastByPath        = map[string]*srcInfo{}
	fastLoading       = map[string]bool{}
)

type fastImporter struct{}

func (fastImporter) Import(path string) (*types.Package, error) {
	if path == fastMod || strings.HasPrefix(path, fastMod+"/") {
		si := fastLoadPath(path)
		if si.err != nil {
			return nil, si.err
		}
		return si.types, nil
	}
	loadExports()
	return sharedImp.Import(path)
}

func fastDirOf(path string) string {
	return filepath.Join(fastRoot, filepath.FromSlash(strings.TrimPrefix(strings.TrimPrefix(path, fastMod), "/")))
}

func fastPathOf(dir string) string {
	abs := dir
	if !filepath.IsAbs(abs) {
		abs = filepath.Join(fastRoot, dir)
	}
	rel, err := filepath.Rel(fastRoot, abs)
	if err != nil || rel == "." {
		return fastMod
	}
	return fastMod + "/" + filepath.ToSlash(rel)
}

func fastGoFiles(dir string) ([]string, error) {
	ents, err := os.ReadDir(dir)
	if err != nil {
		return nil, err
	}
	var names []string
	for _, e := range ents {
		n := e.Name()
		if e.IsDir() || !strings.HasSuffix(n, ".go") || strings.HasSuffix(n, "_test.go") || strings.HasPrefix(n, "_") || strings.HasPrefix(n, ".") {
			continue
		}
		names = append(names, filepath.Join(dir, n))
	}
	sort.Strings(names)
	return names, nil
}

func fastLoadPath(path string) *srcInfo {
	if si, ok := fastByPath[path]; ok {
		return si
	}
	loadExports()
	si := &srcInfo{fset: sharedFset, imp: fastImporter{}, pkgPath: path}
	if fastLoading[path] {
		si.err = fmt.Errorf("import cycle through %s", path)
		return si
	}
	fastLoading[path] = true
	defer delete(fastLoading, path)
	fastByPath[path] = si
	names, err := fastGoFiles(fastDirOf(path))
	if err != nil || len(names) == 0 {
		si.err = fmt.Errorf("no Go files for %s: %v", path, err)
		return si
	}
	for _, fn := range names {
		f, err := parser.ParseFile(si.fset, fn, nil, parser.AllErrors|parser.ParseComments)
		if err != nil {
			si.err = err
			return si
		}
		if si.pkgName == "" {
			si.pkgName = f.Name.Name
		} else if si.pkgName != f.Name.Name {
			si.err = fmt.Errorf("fast mode: two package clauses in %s", path)
			return si
		}
		si.files = append(si.files, f)
		si.names = append(si.names, fn)
	}
	var first error
	conf := types.Config{Importer: si.imp, Error: func(e error) {
		if first == nil {
			first = e
		}
	}}
	si.types, _ = conf.Check(path, si.fset, si.files, nil)
	si.err = first
	return si
}

// fastProbe is what registry.pkgInDir would observe for a directory (relative to the working
// directory): the name of the package whose files are there.
func fastProbe(dir string) (string, bool) {
	names, err := fastGoFiles(dir)
	if err != nil || len(names) == 0 {
		return "", false
	}
	name := ""
	for _, fn := range names {
		f, err := parser.ParseFile(sharedFset, fn, nil, parser.PackageClauseOnly)
		if err != nil {
			return "", false
		}
		if name != "" && name != f.Name.Name {
			return "", false
		}
		name = f.Name.Name
	}
	return name, true
}

// fastFindPkgPath mirrors registry.findPkgPath over fastProbe (validated against the real one on
// a sample of jobs, see doJob).
func fastFindPkgPath(pkgFlag, srcPath string) string {
	if pkgFlag == "" {
		return srcPath
	}
	name, ok := fastProbe(pkgFlag)
	inDir := func(want string) bool { return ok && (name == want || name+"_test" == want) }
	if inDir(srcPath) {
		return srcPath
	}
	sub := filepath.Join(srcPath, pkgFlag)
	if inDir(sub) {
		return sub
	}
	return ""
}

func fastSetup(root, mod, baseDir string) {
	if fastRoot == root && fastMod == mod && (fastBase != nil || fastBaseErr != nil) {
		return
	}
	fastRoot, fastMod = root, mod
	fastByPath = map[string]*srcInfo{}
	fastBase, fastBaseErr = moq.New(moq.Config{SrcDir: baseDir})
}

// fastFixedPoint is the library half of C15's first clause on every in-place job: the output,
// added to the source package as one more file (parsed and type-checked together with it, exactly
// what a second run of the same command loads), must reproduce itself byte for byte.
func fastFixedPoint(job JobCfg, res *Result) {
	defer func() {
		if r := recover(); r != nil {
			res.Checks["oracle-panic"] = fmt.Sprintf("fixed point: %v", r)
		}
	}()
	def, ok := res.Runs[""]
	if !ok || def.Err != "" || def.Panic != "" {
		return
	}
	si := fastLoadPath(fastPathOf(job.Dir))
	if si.err != nil || !inPlaceIntended(job, si.pkgName) {
		return
	}
	f, err := parser.ParseFile(sharedFset, filepath.Join(fastDirOf(si.pkgPath), "zz_verif_moq.go"), def.Out, parser.AllErrors|parser.ParseComments)
	if err != nil {
		return // not Go: C01's business
	}
	files := append(append([]*ast.File{}, si.files...), f)
	var first error
	conf := types.Config{Importer: si.imp, Error: func(e error) {
		if first == nil {
			first = e
		}
	}}
	pkg2, _ := conf.Check(si.pkgPath, sharedFset, files, nil)
	if first != nil || pkg2 == nil {
		return // does not compile in place: C01's business
	}
	cfg := moq.Config{SrcDir: job.Dir, PkgName: job.PkgName, StubImpl: job.StubImpl, SkipEnsure: job.SkipEnsure, WithResets: job.WithResets}
	m, err := moq.VerifMocker(fastBase, cfg, si.pkgName, pkg2, files, fastFindPkgPath(job.PkgName, si.pkgPath))
	if err != nil {
		return
	}
	var buf bytes.Buffer
	if err := m.Mock(&buf, job.Args...); err != nil {
		res.Checks["C15"] = "regeneration with moq's own output in the package fails: " + err.Error()
		return
	}
	if out2 := buf.String(); out2 != def.Out {
		a, b := strings.Split(def.Out, "\n"), strings.Split(out2, "\n")
		i := 0
		for i < len(a) && i < len(b) && a[i] == b[i] {
			i++
		}
		la, lb := "", ""
		if i < len(a) {
			la = a[i]
		}
		if i < len(b) {
			lb = b[i]
		}
		res.Checks["C15"] = fmt.Sprintf("moq's own output left in the package does not reproduce itself: line %d is %q, was %q", i+1, lb, la)
	}
}

func init() {
	fastFixedPointFn = fastFixedPoint
	fastSetupFn = fastSetup
	fastLoadDirFn = func(dir string) *srcInfo { return fastLoadPath(fastPathOf(dir)) }
	fastLoadSrcFn = func(dir string) (*packages.Package, error) {
		si := fastLoadPath(fastPathOf(dir))
		if si.err != nil {
			return nil, si.err
		}
		return &packages.Package{Name: si.pkgName, PkgPath: si.pkgPath, Syntax: si.files, Types: si.types}, nil
	}
	fastProbeFn = fastProbe
	fastNewMockerFn = func(job JobCfg, cfg moq.Config) (*moq.Mocker, error) {
		if fastBaseErr != nil {
			return nil, fmt.Errorf("hook-mismatch: base mocker: %v", fastBaseErr)
		}
		si := fastLoadPath(fastPathOf(job.Dir))
		if si.err != nil {
			return nil, fmt.Errorf("couldn't load source package: %s", si.err)
		}
		var syntax []*ast.File
		syntax = append(syntax, si.files...)
		return moq.VerifMocker(fastBase, cfg, si.pkgName, si.types, syntax, fastFindPkgPath(job.PkgName, si.pkgPath))
	}
	fastRealFindFn = moq.VerifFindPkgPath
	fastFindFn = fastFindPkgPath
}
