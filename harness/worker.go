package main

import (
	"bufio"
	"bytes"
	"encoding/json"
	"fmt"
	"os"
	"path"
	"path/filepath"
	"runtime/debug"
	"strconv"
	"strings"
	"unicode"

	"github.com/matryer/moq/pkg/moq"
	"golang.org/x/tools/go/packages"
)

// RunOut is what one real moq library call produced.
type RunOut struct {
	Out   string `json:"out"`
	Err   string `json:"err,omitempty"`
	Panic string `json:"panic,omitempty"`
	Stage string `json:"stage,omitempty"` // "new" or "mock" when Err != ""
}

// Result is the worker's answer for one job.
type Result struct {
	ID      string            `json:"id"`
	Case    string            `json:"case,omitempty"`
	LoadErr string            `json:"load_err,omitempty"`
	Runs    map[string]RunOut `json:"runs"`
	Checks  map[string]string `json:"checks,omitempty"` // oracle name -> "" (ok) or diagnostic
}

// Fast mode (fast.go, build tag verif, needs the overlay hooks): set per request.
var (
	fastOn           bool
	fastSetupFn      func(root, mod, baseDir string)
	fastLoadDirFn    func(dir string) *srcInfo
	fastLoadSrcFn    func(dir string) (*packages.Package, error)
	fastProbeFn      func(dir string) (string, bool)
	fastNewMockerFn  func(job JobCfg, cfg moq.Config) (*moq.Mocker, error)
	fastRealFindFn   func(pkgFlag, srcPath string) string
	fastFindFn       func(pkgFlag, srcPath string) string
	fastFixedPointFn func(job JobCfg, res *Result)
)

// newMocker is moq.New, or - in fast mode - the overlay hook over an in-memory load.
func newMocker(job JobCfg, formatter string) (*moq.Mocker, error) {
	cfg := moq.Config{
		SrcDir:     job.Dir,
		PkgName:    job.PkgName,
		Formatter:  formatter,
		StubImpl:   job.StubImpl,
		SkipEnsure: job.SkipEnsure,
		WithResets: job.WithResets,
	}
	if fastOn {
		return fastNewMockerFn(job, cfg)
	}
	return moq.New(cfg)
}

// runMoq calls the real library exactly as main.run does.
func runMoq(job JobCfg, formatter string) (res RunOut) {
	defer func() {
		if r := recover(); r != nil {
			res.Panic = fmt.Sprintf("%v\n%s", r, debug.Stack())
		}
	}()
	m, err := newMocker(job, formatter)
	if err != nil {
		return RunOut{Err: err.Error(), Stage: "new"}
	}
	var buf bytes.Buffer
	if err := m.Mock(&buf, job.Args...); err != nil {
		return RunOut{Out: buf.String(), Err: err.Error(), Stage: "mock"}
	}
	return RunOut{Out: buf.String()}
}

func doJob(job JobCfg, fmts []string, facts, oracle bool) Result {
	res := Result{ID: job.ID, Runs: map[string]RunOut{}, Checks: map[string]string{}}
	if facts {
		var src *packages.Package
		var err error
		if fastOn {
			src, err = fastLoadSrcFn(job.Dir)
		} else {
			src, err = loadSrc(job.Dir)
		}
		if err != nil {
			res.LoadErr = err.Error()
		} else {
			res.Case = caseSexp(job, src)
		}
	}
	for _, f := range fmts {
		res.Runs[f] = runMoq(job, f)
	}
	if oracle {
		runOracles(job, &res)
		checkWriter(job, &res)
		checkArgsRejected(job, &res)
		if fastOn && fastFixedPointFn != nil {
			fastFixedPointFn(job, &res)
		}
	}
	return res
}

// probeWriter records how the library uses the writer it was given.
type probeWriter struct {
	calls  int
	data   []byte
	failAt int // fail (short write) once this many bytes have been accepted; < 0: never
}

func (p *probeWriter) Write(b []byte) (int, error) {
	p.calls++
	if p.failAt >= 0 && len(p.data)+len(b) > p.failAt {
		n := p.failAt - len(p.data)
		if n < 0 {
			n = 0
		}
		p.data = append(p.data, b[:n]...)
		return n, fmt.Errorf("probe writer: full after %d bytes", p.failAt)
	}
	p.data = append(p.data, b...)
	return len(b), nil
}

// checkWriter is the library half of the C17 oracle: on success the complete file reaches the
// writer in exactly one Write; on failure nothing does; a writer that fails after b bytes makes
// Mock fail, having seen one Write of the complete text and nothing else.
func checkWriter(job JobCfg, res *Result) {
	defer func() {
		if r := recover(); r != nil {
			res.Checks["oracle-panic"] = fmt.Sprintf("%v\n%s", r, debug.Stack())
		}
	}()
	def, ok := res.Runs[""]
	if !ok || def.Panic != "" || def.Stage == "new" {
		return
	}
	mock := func(w *probeWriter) (err error, panicked bool) {
		defer func() {
			if r := recover(); r != nil {
				panicked = true
			}
		}()
		m, e := newMocker(job, "")
		if e != nil {
			return e, false
		}
		return m.Mock(w, job.Args...), false
	}
	w := &probeWriter{failAt: -1}
	err, pan := mock(w)
	if pan {
		return
	}
	if err != nil {
		if w.calls != 0 || len(w.data) != 0 {
			res.Checks["C17"] = fmt.Sprintf("Mock failed (%v) after writing %d bytes in %d Write calls", err, len(w.data), w.calls)
		}
		return
	}
	if w.calls != 1 {
		res.Checks["C17"] = fmt.Sprintf("Mock succeeded with %d Write calls, expected exactly one", w.calls)
		return
	}
	full := string(w.data)
	if def.Err == "" && full != def.Out {
		// a different generation: C14's business unless it repeats
		return
	}
	for _, b := range []int{0, len(full) / 2} {
		if b < 0 || b >= len(full) {
			continue
		}
		fw := &probeWriter{failAt: b}
		err, pan := mock(fw)
		if pan {
			return
		}
		if err == nil {
			res.Checks["C17"] = fmt.Sprintf("writer failed after %d bytes but Mock reported success", b)
			return
		}
		if fw.calls != 1 || !strings.HasPrefix(full, string(fw.data)) {
			res.Checks["C17"] = fmt.Sprintf("writer failing after %d bytes saw %d Write calls / bytes that are not a prefix of the file", b, fw.calls)
			return
		}
	}
	res.Checks["C17-writer-ok"] = ""
}

func workerMain() {
	// moq's legitimate recursion is shallow; make runaway recursion die quickly
	debug.SetMaxStack(64 << 20)
	in := bufio.NewReaderSize(os.Stdin, 1<<20)
	out := bufio.NewWriter(os.Stdout)
	enc := json.NewEncoder(out)
	dec := json.NewDecoder(in)
	for {
		var req struct {
			Job     JobCfg   `json:"job"`
			Fmts    []string `json:"fmts"`
			Facts   bool     `json:"facts"`
			Oracle  bool     `json:"oracle"`
			Reps    int      `json:"reps"`
			Outside string   `json:"outside"`
			Fast    *struct {
				Root, Mod, Base string
				CheckFind       bool
			} `json:"fast"`
		}
		if err := dec.Decode(&req); err != nil {
			return
		}
		fastOn = false
		if req.Fast != nil {
			if fastSetupFn == nil {
				enc.Encode(Result{ID: req.Job.ID, LoadErr: "fast mode not built in"})
				out.Flush()
				continue
			}
			fastSetupFn(req.Fast.Root, req.Fast.Mod, req.Fast.Base)
			fastOn = true
		}
		res := doJob(req.Job, req.Fmts, req.Facts, req.Oracle)
		if fastOn && req.Fast.CheckFind && req.Job.PkgName != "" {
			if si := fastLoadDirFn(req.Job.Dir); si.err == nil {
				if a, b := fastFindFn(req.Job.PkgName, si.pkgPath), fastRealFindFn(req.Job.PkgName, si.pkgPath); a != b {
					res.Checks["fast-findpkg"] = fmt.Sprintf("findPkgPath(%q, %q): harness mirror %q, real %q", req.Job.PkgName, si.pkgPath, a, b)
				}
			}
		}
		checkRepeat(req.Job, req.Reps, &res)
		if req.Outside != "" {
			checkOutside(req.Job, req.Outside, &res)
		}
		enc.Encode(res)
		out.Flush()
	}
}

// runOracles evaluates the Go-side property oracles on the real outputs of this job.
func runOracles(job JobCfg, res *Result) {
	defer func() {
		if r := recover(); r != nil {
			res.Checks["oracle-panic"] = fmt.Sprintf("%v\n%s", r, debug.Stack())
		}
	}()
	if noop, ok := res.Runs["noop"]; ok && noop.Err == "" && noop.Panic == "" {
		if d := checkImportAliases(noop.Out); d != "" {
			res.Checks["C11"] = d
		}
	}
	def, ok := res.Runs[""]
	if !ok || def.Err != "" || def.Panic != "" {
		if ok && strings.HasPrefix(def.Err, "go/format") {
			// moq refuses its own output: for a generic interface the self-check line is the usual culprit
			si := loadFull(job.Dir)
			if si.err == nil && anyGeneric(job, si.types) {
				res.Checks["C09"] = def.Err
			}
		}
		return
	}
	c, diag := typeCheck(job, def.Out, "")
	if c != nil && c.file != nil {
		// C10: the source package is imported by its own path or not at all - never by a mangled
		// (truncated) form of it
		if si := loadFull(job.Dir); si.err == nil {
			for _, im := range c.file.Imports {
				p := strings.Trim(im.Path.Value, `"`)
				if p != si.pkgPath && strings.HasSuffix(si.pkgPath, "/"+p) {
					if _, err := si.imp.Import(p); err != nil {
						res.Checks["C10"] = fmt.Sprintf("the output imports %q, a truncated form of the source package's own path %q", p, si.pkgPath)
					}
				}
			}
		}
	}
	if diag != "" {
		res.Checks["C01"] = diag
		if c != nil {
			si := loadFull(job.Dir)
			for k, v := range classify(c, anyGeneric(job, si.types)) {
				res.Checks[k] = v
			}
		}
	}
	if c != nil && c.pkg != nil && len(c.errs) == 0 {
		for k, v := range checkImplements(job, c) {
			res.Checks[k] = v
		}
		si := loadFull(job.Dir)
		for k, v := range checkImports(job, c, si.pkgPath) {
			res.Checks[k] = v
		}
		if d := checkFieldNames(c, job); d != "" {
			res.Checks["C13"] = d
		} else if d := checkDerivedNames(c, job); d != "" {
			res.Checks["C13"] = d
		}
		if d := checkPanicMsgs(c, job); d != "" {
			res.Checks["C07"] = d
		}
		if d := checkLocks(c); d != "" {
			res.Checks["C05"] = d
		}
		d, own := checkSolo(job, c)
		if d != "" && res.Checks["C20"] == "" {
			res.Checks["C20"] = d
		}
		for k, v := range own {
			if res.Checks[k] == "" {
				res.Checks[k] = v
			}
		}
	}
	if noop, ok := res.Runs["noop"]; ok && noop.Err == "" && noop.Panic == "" {
		gi, have := res.Runs["goimports"]
		haveGi := have && gi.Err == "" && gi.Panic == ""
		d := checkFormat(noop.Out, def.Out, gi.Out, haveGi)
		if d != "" && crossRun(d) {
			// The three outputs come from three separate generations.  If the generator itself is
			// not deterministic on this input (C14's subject, e.g. F-22) they can differ for that
			// reason alone: compare every pairing of a few more generations before blaming the
			// formatter.
			noops, defs, gis := []string{noop.Out}, []string{def.Out}, []string{gi.Out}
			for i := 0; i < 8; i++ {
				if r := runMoq(job, "noop"); r.Err == "" && r.Panic == "" {
					noops = append(noops, r.Out)
				}
				if r := runMoq(job, ""); r.Err == "" && r.Panic == "" {
					defs = append(defs, r.Out)
				}
				if haveGi {
					if r := runMoq(job, "goimports"); r.Err == "" && r.Panic == "" {
						gis = append(gis, r.Out)
					}
				}
			}
		search:
			for _, n := range uniq(noops) {
				for _, g := range uniq(defs) {
					for _, i := range uniq(gis) {
						if d2 := checkFormat(n, g, i, haveGi); d2 == "" {
							d = ""
							break search
						}
					}
				}
			}
		}
		if d != "" {
			res.Checks["C16"] = d
		}
	}
}

// checkRepeat is the C14 oracle: fresh generator instances must reproduce the bytes.
func checkRepeat(job JobCfg, reps int, res *Result) {
	first, ok := res.Runs["noop"]
	if !ok || reps <= 0 || first.Panic != "" {
		return
	}
	for i := 0; i < reps; i++ {
		again := runMoq(job, "noop")
		if again.Out != first.Out || again.Err != first.Err {
			res.Checks["C14"] = fmt.Sprintf("repetition %d differs from the first run (len %d vs %d, err %q vs %q)", i+1, len(again.Out), len(first.Out), again.Err, first.Err)
			res.Runs["noop-rep"] = again
			return
		}
	}
	res.Checks["C14-reps"] = ""
}

// crossRun: diagnostics of checkFormat that compare outputs of different generations
func crossRun(d string) bool {
	return strings.HasPrefix(d, "gofmt(noop output) differs") || strings.HasPrefix(d, "goimports output:")
}

func uniq(l []string) []string {
	seen := map[string]bool{}
	var out []string
	for _, s := range l {
		if !seen[s] {
			seen[s] = true
			out = append(out, s)
		}
	}
	return out
}

// checkOutside is the working-directory half of the C16 oracle.  goimports resolves package names
// relative to the process working directory; C16 says the goimports output has the same imported
// paths as the default output whatever moq's caller's directory is.  The job is generated again
// from a directory outside the module (absolute source directory).  Asserted only where moq has
// the information goimports needs without looking packages up: every imported package whose name
// is not the one goimports assumes from its path has an explicit name in the source file
// (otherwise: F-23, a recorded finding about unaliased imports of such packages).
func checkOutside(job JobCfg, outside string, res *Result) {
	defer func() {
		if r := recover(); r != nil {
			res.Checks["oracle-panic"] = fmt.Sprintf("%v\n%s", r, debug.Stack())
		}
	}()
	def, ok := res.Runs[""]
	if !ok || def.Err != "" || def.Panic != "" {
		return
	}
	wd, err := os.Getwd()
	if err != nil {
		return
	}
	abs := job
	abs.Dir = filepath.Join(wd, job.Dir)
	src, err := loadSrc(job.Dir)
	if err != nil {
		return
	}
	named := map[string]bool{}
	for _, f := range src.Syntax {
		for _, im := range f.Imports {
			if im.Name != nil {
				p, _ := strconv.Unquote(im.Path.Value)
				named[p] = true
			}
		}
	}
	c, _ := typeCheck(job, def.Out, "")
	if c == nil || c.pkg == nil {
		return
	}
	inDomain := true
	for _, ip := range c.pkg.Imports() {
		if ip.Name() != assumedName(ip.Path()) && !named[ip.Path()] {
			inDomain = false
		}
	}
	if err := os.Chdir(outside); err != nil {
		return
	}
	defer os.Chdir(wd)
	d2 := runMoq(abs, "")
	gi := runMoq(abs, "goimports")
	res.Runs["@outside"] = d2
	res.Runs["goimports@outside"] = gi
	if d2.Err != "" || d2.Panic != "" || gi.Err != "" || gi.Panic != "" {
		return
	}
	diag := ""
	if d2.Out != def.Out {
		diag = "default output depends on the working directory"
	} else if d := declDiff(d2.Out, gi.Out); d != "" {
		diag = "moq run from a directory outside the module, goimports output: " + d
	}
	if diag == "" {
		res.Checks["C16-outside-ok"] = ""
		return
	}
	if inDomain || strings.HasPrefix(job.ID, "corpus/") {
		res.Checks["C16"] = diag
	} else {
		res.Checks["C16-outside-F23"] = diag
	}
}

// assumedName is x/tools/internal/imports.ImportPathToAssumedName.
func assumedName(importPath string) string {
	notIdent := func(ch rune) bool {
		return !('a' <= ch && ch <= 'z' || 'A' <= ch && ch <= 'Z' || '0' <= ch && ch <= '9' || ch == '_' || ch >= 0x80 && unicode.IsLetter(ch))
	}
	base := path.Base(importPath)
	if strings.HasPrefix(base, "v") {
		if _, err := strconv.Atoi(base[1:]); err == nil {
			dir := path.Dir(importPath)
			if dir != "." {
				base = path.Base(dir)
			}
		}
	}
	base = strings.TrimPrefix(base, "go-")
	if i := strings.IndexFunc(base, notIdent); i >= 0 {
		base = base[:i]
	}
	return base
}
