package main

import (
	"bufio"
	"bytes"
	"encoding/json"
	"fmt"
	"os"
	"runtime/debug"
	"strings"

	"github.com/matryer/moq/pkg/moq"
)

// RunOut is what one real moq library call produced.
type RunOut struct {
	Out   string `json:"out"`
	Err   string `json:"err,omitempty"`
	Panic string `json:"panic,omitempty"`
	Stage string `json:"stage,omitempty"` // "new" or "mock" when Err != ""
}

// Result is the worker's answer for one job.
type Result struct {
	ID      string            `json:"id"`
	Case    string            `json:"case,omitempty"`
	LoadErr string            `json:"load_err,omitempty"`
	Runs    map[string]RunOut `json:"runs"`
	Checks  map[string]string `json:"checks,omitempty"` // oracle name -> "" (ok) or diagnostic
}

// runMoq calls the real library exactly as main.run does.
func runMoq(job JobCfg, formatter string) (res RunOut) {
	defer func() {
		if r := recover(); r != nil {
			res.Panic = fmt.Sprintf("%v\n%s", r, debug.Stack())
		}
	}()
	m, err := moq.New(moq.Config{
		SrcDir:     job.Dir,
		PkgName:    job.PkgName,
		Formatter:  formatter,
		StubImpl:   job.StubImpl,
		SkipEnsure: job.SkipEnsure,
		WithResets: job.WithResets,
	})
	if err != nil {
		return RunOut{Err: err.Error(), Stage: "new"}
	}
	var buf bytes.Buffer
	if err := m.Mock(&buf, job.Args...); err != nil {
		return RunOut{Out: buf.String(), Err: err.Error(), Stage: "mock"}
	}
	return RunOut{Out: buf.String()}
}

func doJob(job JobCfg, fmts []string, facts, oracle bool) Result {
	res := Result{ID: job.ID, Runs: map[string]RunOut{}, Checks: map[string]string{}}
	if facts {
		src, err := loadSrc(job.Dir)
		if err != nil {
			res.LoadErr = err.Error()
		} else {
			res.Case = caseSexp(job, src)
		}
	}
	for _, f := range fmts {
		res.Runs[f] = runMoq(job, f)
	}
	if oracle {
		runOracles(job, &res)
	}
	return res
}

func workerMain() {
	// moq's legitimate recursion is shallow; make runaway recursion die quickly
	debug.SetMaxStack(64 << 20)
	in := bufio.NewReaderSize(os.Stdin, 1<<20)
	out := bufio.NewWriter(os.Stdout)
	enc := json.NewEncoder(out)
	dec := json.NewDecoder(in)
	for {
		var req struct {
			Job   JobCfg   `json:"job"`
			Fmts  []string `json:"fmts"`
			Facts bool     `json:"facts"`
			Oracle bool    `json:"oracle"`
			Reps   int     `json:"reps"`
		}
		if err := dec.Decode(&req); err != nil {
			return
		}
		res := doJob(req.Job, req.Fmts, req.Facts, req.Oracle)
		checkRepeat(req.Job, req.Reps, &res)
		enc.Encode(res)
		out.Flush()
	}
}

// runOracles evaluates the Go-side property oracles on the real outputs of this job.
func runOracles(job JobCfg, res *Result) {
	defer func() {
		if r := recover(); r != nil {
			res.Checks["oracle-panic"] = fmt.Sprintf("%v\n%s", r, debug.Stack())
		}
	}()
	if noop, ok := res.Runs["noop"]; ok && noop.Err == "" && noop.Panic == "" {
		if d := checkImportAliases(noop.Out); d != "" {
			res.Checks["C11"] = d
		}
	}
	def, ok := res.Runs[""]
	if !ok || def.Err != "" || def.Panic != "" {
		if ok && strings.HasPrefix(def.Err, "go/format") {
			// moq refuses its own output: for a generic interface the self-check line is the usual culprit
			si := loadFull(job.Dir)
			if si.err == nil && anyGeneric(job, si.types) {
				res.Checks["C09"] = def.Err
			}
		}
		return
	}
	c, diag := typeCheck(job, def.Out, "")
	if diag != "" {
		res.Checks["C01"] = diag
		if c != nil {
			si := loadFull(job.Dir)
			for k, v := range classify(c, anyGeneric(job, si.types)) {
				res.Checks[k] = v
			}
		}
	}
	if c != nil && c.pkg != nil && len(c.errs) == 0 {
		for k, v := range checkImplements(job, c) {
			res.Checks[k] = v
		}
		si := loadFull(job.Dir)
		for k, v := range checkImports(job, c, si.pkgPath) {
			res.Checks[k] = v
		}
		if d := checkFieldNames(c, job); d != "" {
			res.Checks["C13"] = d
		}
		if d := checkSolo(job, c); d != "" && res.Checks["C20"] == "" {
			res.Checks["C20"] = d
		}
	}
	if noop, ok := res.Runs["noop"]; ok && noop.Err == "" && noop.Panic == "" {
		gi, have := res.Runs["goimports"]
		haveGi := have && gi.Err == "" && gi.Panic == ""
		d := checkFormat(noop.Out, def.Out, gi.Out, haveGi)
		if d != "" && crossRun(d) {
			// The three outputs come from three separate generations.  If the generator itself is
			// not deterministic on this input (C14's subject, e.g. F-22) they can differ for that
			// reason alone: compare every pairing of a few more generations before blaming the
			// formatter.
			noops, defs, gis := []string{noop.Out}, []string{def.Out}, []string{gi.Out}
			for i := 0; i < 8; i++ {
				if r := runMoq(job, "noop"); r.Err == "" && r.Panic == "" {
					noops = append(noops, r.Out)
				}
				if r := runMoq(job, ""); r.Err == "" && r.Panic == "" {
					defs = append(defs, r.Out)
				}
				if haveGi {
					if r := runMoq(job, "goimports"); r.Err == "" && r.Panic == "" {
						gis = append(gis, r.Out)
					}
				}
			}
		search:
			for _, n := range uniq(noops) {
				for _, g := range uniq(defs) {
					for _, i := range uniq(gis) {
						if d2 := checkFormat(n, g, i, haveGi); d2 == "" {
							d = ""
							break search
						}
					}
				}
			}
		}
		if d != "" {
			res.Checks["C16"] = d
		}
	}
}

// checkRepeat is the C14 oracle: fresh generator instances must reproduce the bytes.
func checkRepeat(job JobCfg, reps int, res *Result) {
	first, ok := res.Runs["noop"]
	if !ok || reps <= 0 || first.Panic != "" {
		return
	}
	for i := 0; i < reps; i++ {
		again := runMoq(job, "noop")
		if again.Out != first.Out || again.Err != first.Err {
			res.Checks["C14"] = fmt.Sprintf("repetition %d differs from the first run (len %d vs %d, err %q vs %q)", i+1, len(again.Out), len(first.Out), again.Err, first.Err)
			res.Runs["noop-rep"] = again
			return
		}
	}
	res.Checks["C14-reps"] = ""
}

// crossRun: diagnostics of checkFormat that compare outputs of different generations
func crossRun(d string) bool {
	return strings.HasPrefix(d, "gofmt(noop output) differs") || strings.HasPrefix(d, "goimports output:")
}

func uniq(l []string) []string {
	seen := map[string]bool{}
	var out []string
	for _, s := range l {
		if !seen[s] {
			seen[s] = true
			out = append(out, s)
		}
	}
	return out
}
