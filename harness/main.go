package main

import (
	"encoding/json"
	"flag"
	"fmt"
	"os"
)

func main() {
	if len(os.Args) < 2 {
		fmt.Fprintln(os.Stderr, "usage: harness <worker|one|...>")
		os.Exit(2)
	}
	switch os.Args[1] {
	case "worker":
		workerMain()
	case "one":
		fs := flag.NewFlagSet("one", flag.ExitOnError)
		var job JobCfg
		fs.StringVar(&job.PkgName, "pkg", "", "")
		fs.BoolVar(&job.StubImpl, "stub", false, "")
		fs.BoolVar(&job.SkipEnsure, "skip-ensure", false, "")
		fs.BoolVar(&job.WithResets, "with-resets", false, "")
		fs.Parse(os.Args[2:])
		job.Dir = fs.Arg(0)
		job.Args = fs.Args()[1:]
		job.ID = "one"
		res := doJob(job, []string{"noop", ""}, true, true)
		json.NewEncoder(os.Stdout).Encode(res)
	default:
		fmt.Fprintln(os.Stderr, "unknown command")
		os.Exit(2)
	}
}
