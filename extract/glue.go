package main

// Translation of moq's imperative glue (main.run, Mocker.Mock, Mocker.format, …) into the
// mini-IR of lean/MoqModel/Glue.lean, and whole-program facts (file-system / process call
// sites, reads of Config fields, calls on the io.Writer handed to Mock).

import (
	"fmt"
	"go/ast"
	"go/parser"
	"go/printer"
	"go/token"
	"os"
	"path/filepath"
	"sort"
	"strconv"
	"strings"
)

func src(fset *token.FileSet, n ast.Node) string {
	var b strings.Builder
	printer.Fprint(&b, fset, n)
	return b.String()
}

type glueGen struct {
	fset *token.FileSet
	bad  []string
}

func (g *glueGen) exprs(es []ast.Expr) string {
	parts := make([]string, len(es))
	for i, e := range es {
		parts[i] = g.expr(e)
	}
	return "[" + strings.Join(parts, ", ") + "]"
}

func (g *glueGen) expr(e ast.Expr) string {
	switch e := e.(type) {
	case *ast.Ident:
		return ".id " + leanStr(e.Name)
	case *ast.SelectorExpr:
		return fmt.Sprintf(".sel (%s) %s", g.expr(e.X), leanStr(e.Sel.Name))
	case *ast.CallExpr:
		ell := "false"
		if e.Ellipsis.IsValid() {
			ell = "true"
		}
		return fmt.Sprintf(".call (%s) %s %s", g.expr(e.Fun), g.exprs(e.Args), ell)
	case *ast.BasicLit:
		if e.Kind == token.STRING {
			if s, ok := strLit(e); ok {
				return ".str " + leanStr(s)
			}
		}
		if e.Kind == token.INT {
			if n, err := strconv.ParseUint(e.Value, 10, 32); err == nil {
				return fmt.Sprintf(".int %d", n)
			}
		}
		return ".lit " + leanStr(e.Value)
	case *ast.UnaryExpr:
		return fmt.Sprintf(".un %s (%s)", leanStr(e.Op.String()), g.expr(e.X))
	case *ast.BinaryExpr:
		return fmt.Sprintf(".bin %s (%s) (%s)", leanStr(e.Op.String()), g.expr(e.X), g.expr(e.Y))
	case *ast.ParenExpr:
		return g.expr(e.X)
	case *ast.StarExpr:
		return fmt.Sprintf(".un %s (%s)", leanStr("*"), g.expr(e.X))
	case *ast.IndexExpr:
		return fmt.Sprintf(".idx (%s) (%s)", g.expr(e.X), g.expr(e.Index))
	case *ast.SliceExpr:
		lo, hi := ".lit "+leanStr(""), ".lit "+leanStr("")
		if e.Low != nil {
			lo = g.expr(e.Low)
		}
		if e.High != nil {
			hi = g.expr(e.High)
		}
		return fmt.Sprintf(".slice (%s) (%s) (%s)", g.expr(e.X), lo, hi)
	case *ast.CompositeLit:
		// struct / slice literal: type text and the element expressions (keys kept as text)
		var elts []string
		for _, el := range e.Elts {
			if kv, ok := el.(*ast.KeyValueExpr); ok {
				elts = append(elts, fmt.Sprintf("(%s, %s)", leanStr(src(g.fset, kv.Key)), g.expr(kv.Value)))
			} else {
				elts = append(elts, fmt.Sprintf("(%s, %s)", leanStr(""), g.expr(el)))
			}
		}
		ty := ""
		if e.Type != nil {
			ty = src(g.fset, e.Type)
		}
		return fmt.Sprintf(".comp %s [%s]", leanStr(ty), strings.Join(elts, ", "))
	case *ast.TypeAssertExpr:
		return fmt.Sprintf(".assert (%s) %s", g.expr(e.X), leanStr(src(g.fset, e.Type)))
	case *ast.FuncLit:
		return ".lit " + leanStr("func-literal")
	case *ast.ArrayType, *ast.MapType, *ast.ChanType, *ast.FuncType, *ast.InterfaceType, *ast.StructType, *ast.Ellipsis:
		return ".lit " + leanStr("type "+src(g.fset, e))
	}
	g.bad = append(g.bad, fmt.Sprintf("unsupported expression %T: %s", e, src(g.fset, e)))
	return ".lit " + leanStr("<unsupported "+src(g.fset, e)+">")
}

func (g *glueGen) stmts(ss []ast.Stmt, indent string) string {
	if len(ss) == 0 {
		return "[]"
	}
	var parts []string
	for _, s := range ss {
		// `var ( a T; b U )` declares into the enclosing scope: one varDecl per name, in place
		// (not a block, whose declarations would end with it)
		if ds, ok := s.(*ast.DeclStmt); ok {
			if gd, ok := ds.Decl.(*ast.GenDecl); ok && gd.Tok == token.VAR {
				parts = append(parts, g.varDecls(gd)...)
				continue
			}
		}
		parts = append(parts, g.stmt(s, indent+"  "))
	}
	return "[\n" + indent + "  " + strings.Join(parts, ",\n"+indent+"  ") + "]"
}

// varDecls: one `.varDecl name type [value]` per declared name of a var declaration.
func (g *glueGen) varDecls(gd *ast.GenDecl) []string {
	var parts []string
	for _, sp := range gd.Specs {
		vs := sp.(*ast.ValueSpec)
		ty := ""
		if vs.Type != nil {
			ty = src(g.fset, vs.Type)
		}
		for i, n := range vs.Names {
			val := "[]"
			if i < len(vs.Values) {
				val = "[" + g.expr(vs.Values[i]) + "]"
			}
			parts = append(parts, fmt.Sprintf(".varDecl %s %s %s", leanStr(n.Name), leanStr(ty), val))
		}
	}
	return parts
}

func (g *glueGen) block(b *ast.BlockStmt, indent string) string {
	if b == nil {
		return "[]"
	}
	return g.stmts(b.List, indent)
}

func (g *glueGen) stmt(s ast.Stmt, indent string) string {
	switch s := s.(type) {
	case *ast.AssignStmt:
		def := "false"
		if s.Tok == token.DEFINE {
			def = "true"
		}
		if s.Tok != token.DEFINE && s.Tok != token.ASSIGN {
			return fmt.Sprintf(".opAssign %s %s %s", leanStr(s.Tok.String()), g.exprs(s.Lhs), g.exprs(s.Rhs))
		}
		return fmt.Sprintf(".assign %s %s %s", def, g.exprs(s.Lhs), g.exprs(s.Rhs))
	case *ast.ExprStmt:
		return ".expr (" + g.expr(s.X) + ")"
	case *ast.ReturnStmt:
		return ".ret " + g.exprs(s.Results)
	case *ast.IfStmt:
		init := "[]"
		if s.Init != nil {
			init = "[" + g.stmt(s.Init, indent) + "]"
		}
		els := "[]"
		switch e := s.Else.(type) {
		case *ast.BlockStmt:
			els = g.block(e, indent)
		case *ast.IfStmt:
			els = "[" + g.stmt(e, indent) + "]"
		}
		return fmt.Sprintf(".ifs %s (%s) %s %s", init, g.expr(s.Cond), g.block(s.Body, indent), els)
	case *ast.RangeStmt:
		k, v := "", ""
		if id, ok := s.Key.(*ast.Ident); ok {
			k = id.Name
		}
		if id, ok := s.Value.(*ast.Ident); ok {
			v = id.Name
		}
		return fmt.Sprintf(".forRange %s %s (%s) %s", leanStr(k), leanStr(v), g.expr(s.X), g.block(s.Body, indent))
	case *ast.ForStmt:
		init, post := "[]", "[]"
		if s.Init != nil {
			init = "[" + g.stmt(s.Init, indent) + "]"
		}
		if s.Post != nil {
			post = "[" + g.stmt(s.Post, indent) + "]"
		}
		cond := ".lit " + leanStr("true")
		if s.Cond != nil {
			cond = g.expr(s.Cond)
		}
		return fmt.Sprintf(".forLoop %s (%s) %s %s", init, cond, post, g.block(s.Body, indent))
	case *ast.IncDecStmt:
		return fmt.Sprintf(".opAssign %s [%s] []", leanStr(s.Tok.String()), g.expr(s.X))
	case *ast.DeclStmt:
		if gd, ok := s.Decl.(*ast.GenDecl); ok && gd.Tok == token.VAR {
			parts := g.varDecls(gd)
			if len(parts) == 1 {
				return parts[0]
			}
			return ".block [" + strings.Join(parts, ", ") + "]" // only reached outside a statement list
		}
	case *ast.SwitchStmt:
		tag := ".lit " + leanStr("true")
		if s.Tag != nil {
			tag = g.expr(s.Tag)
		}
		var cases []string
		for _, c := range s.Body.List {
			cc := c.(*ast.CaseClause)
			cases = append(cases, fmt.Sprintf("(%s, %s)", g.exprs(cc.List), g.stmts(cc.Body, indent)))
		}
		if s.Init != nil {
			g.bad = append(g.bad, "switch with init statement")
		}
		return fmt.Sprintf(".switch (%s) [%s]", tag, strings.Join(cases, ", "))
	case *ast.BlockStmt:
		return ".block " + g.block(s, indent)
	case *ast.DeferStmt:
		return ".deferS (" + g.expr(s.Call) + ")"
	case *ast.BranchStmt:
		return ".branch " + leanStr(s.Tok.String())
	case *ast.GoStmt:
		return ".goS (" + g.expr(s.Call) + ")"
	}
	g.bad = append(g.bad, fmt.Sprintf("unsupported statement %T: %s", s, src(g.fset, s)))
	return ".opaque " + leanStr(src(g.fset, s))
}

// funcDecl finds a top-level function or method (recv "" = plain function).
func funcDecl(f *ast.File, recv, name string) *ast.FuncDecl {
	if f == nil {
		return nil
	}
	for _, d := range f.Decls {
		fd, ok := d.(*ast.FuncDecl)
		if !ok || fd.Name.Name != name {
			continue
		}
		r := ""
		if fd.Recv != nil && len(fd.Recv.List) == 1 {
			t := fd.Recv.List[0].Type
			if st, ok := t.(*ast.StarExpr); ok {
				t = st.X
			}
			if id, ok := t.(*ast.Ident); ok {
				r = id.Name
			}
		}
		if r == recv {
			return fd
		}
	}
	return nil
}

func genGlue(fset *token.FileSet, repo, out string) {
	g := &glueGen{fset: fset}
	mainGo := parseFile(fset, filepath.Join(repo, "main.go"))
	moqGo := parseFile(fset, filepath.Join(repo, "pkg/moq/moq.go"))
	fmtGo := parseFile(fset, filepath.Join(repo, "pkg/moq/formatter.go"))
	regGo := parseFile(fset, filepath.Join(repo, "internal/registry/registry.go"))
	var b strings.Builder
	b.WriteString("import MoqModel.GlueIR\n/- REGENERATED from /repo by extract/ on every run – do not edit. -/\nnamespace Moq.Generated\nopen Moq.Glue\n\n")
	emit := func(leanName string, f *ast.File, recv, name string) {
		scope = "glue." + leanName
		nbad := len(g.bad)
		defer func() {
			for _, m := range g.bad[nbad:] {
				failf("glue: %s", m)
			}
		}()
		fd := funcDecl(f, recv, name)
		if fd == nil || fd.Body == nil {
			failf("function %s.%s not found", recv, name)
			fmt.Fprintf(&b, "def %s : List GS := []\n\n", leanName)
			return
		}
		var params []string
		for _, fl := range fd.Type.Params.List {
			for _, n := range fl.Names {
				params = append(params, n.Name)
			}
		}
		fmt.Fprintf(&b, "def %sParams : List Str := %s\n", leanName, leanStrList(params))
		fmt.Fprintf(&b, "def %s : List GS := %s\n\n", leanName, g.block(fd.Body, ""))
	}
	emit("runProg", mainGo, "", "run")
	emit("mainProg", mainGo, "", "main")
	emit("mockProg", moqGo, "Mocker", "Mock")
	emit("formatProg", moqGo, "Mocker", "format")
	emit("newProg", moqGo, "", "New")
	emit("gofmtProg", fmtGo, "", "gofmt")
	emit("goimportsProg", fmtGo, "", "goimports")
	emit("lookupProg", regGo, "Registry", "LookupInterface")
	emit("registryNewProg", regGo, "", "New")
	emit("parseNameProg", moqGo, "", "parseInterfaceName")
	scope = "facts"

	// whole-program facts over the non-test, non-example packages of moq itself
	type site struct{ file, fn, call string }
	var fsCalls, nondet []site
	cfgReads := map[string][]string{}
	dirs := []string{".", "pkg/moq", "internal/registry", "internal/template"}
	watchPkgs := map[string]bool{"os": true, "ioutil": true, "exec": true, "syscall": true, "fs": true, "filepath": false}
	nondetPkgs := map[string]bool{"time": true, "rand": true}
	for _, d := range dirs {
		ents, err := os.ReadDir(filepath.Join(repo, d))
		if err != nil {
			failf("readdir %s: %v", d, err)
			continue
		}
		for _, ent := range ents {
			if ent.IsDir() || !strings.HasSuffix(ent.Name(), ".go") || strings.HasSuffix(ent.Name(), "_test.go") {
				continue
			}
			rel := filepath.Join(d, ent.Name())
			f, err := parser.ParseFile(fset, filepath.Join(repo, rel), nil, 0)
			if err != nil {
				failf("parse %s: %v", rel, err)
				continue
			}
			// local names of imported packages
			imp := map[string]string{}
			for _, im := range f.Imports {
				p := strings.Trim(im.Path.Value, `"`)
				n := p[strings.LastIndex(p, "/")+1:]
				if im.Name != nil {
					n = im.Name.Name
				}
				imp[n] = p
			}
			for _, decl := range f.Decls {
				fd, ok := decl.(*ast.FuncDecl)
				if !ok || fd.Body == nil {
					continue
				}
				fname := fd.Name.Name
				ast.Inspect(fd.Body, func(n ast.Node) bool {
					sel, ok := n.(*ast.SelectorExpr)
					if !ok {
						return true
					}
					if id, ok := sel.X.(*ast.Ident); ok {
						if p, isPkg := imp[id.Name]; isPkg {
							base := p[strings.LastIndex(p, "/")+1:]
							if watchPkgs[base] || p == "io/ioutil" || p == "os/exec" {
								fsCalls = append(fsCalls, site{rel, fname, p + "." + sel.Sel.Name})
							}
							if nondetPkgs[base] || (p == "os" && (sel.Sel.Name == "Getenv" || sel.Sel.Name == "Getpid" || sel.Sel.Name == "Environ" || sel.Sel.Name == "Hostname")) {
								nondet = append(nondet, site{rel, fname, p + "." + sel.Sel.Name})
							}
						}
					}
					// reads of Config fields: anything.cfg.Field
					if inner, ok := sel.X.(*ast.SelectorExpr); ok && inner.Sel.Name == "cfg" {
						cfgReads[sel.Sel.Name] = append(cfgReads[sel.Sel.Name], rel+":"+fname)
					}
					return true
				})
			}
		}
	}
	fmt.Fprintf(&b, "/-- every reference into os, io/ioutil, os/exec, syscall, io/fs in moq's own non-test code: (file, function, symbol) -/\ndef fsCalls : List (Str × Str × Str) := [")
	for i, s := range fsCalls {
		if i > 0 {
			b.WriteString(",\n  ")
		}
		fmt.Fprintf(&b, "(%s, %s, %s)", leanStr(s.file), leanStr(s.fn), leanStr(s.call))
	}
	b.WriteString("]\n\n")
	fmt.Fprintf(&b, "/-- references to sources of nondeterminism (time, math/rand, environment) -/\ndef nondetCalls : List (Str × Str × Str) := [")
	for i, s := range nondet {
		if i > 0 {
			b.WriteString(", ")
		}
		fmt.Fprintf(&b, "(%s, %s, %s)", leanStr(s.file), leanStr(s.fn), leanStr(s.call))
	}
	b.WriteString("]\n\n")
	var fields []string
	for k := range cfgReads {
		fields = append(fields, k)
	}
	sort.Strings(fields)
	b.WriteString("/-- where each Config field is read (`x.cfg.Field`): field ↦ file:function list -/\ndef cfgReads : List (Str × List Str) := [")
	for i, k := range fields {
		if i > 0 {
			b.WriteString(",\n  ")
		}
		fmt.Fprintf(&b, "(%s, %s)", leanStr(k), leanStrList(cfgReads[k]))
	}
	b.WriteString("]\n\nend Moq.Generated\n")
	writeFile(filepath.Join(out, "Glue.lean"), b.String())
}
