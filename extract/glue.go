package main

import "go/token"

func genGlue(fset *token.FileSet, repo, out string) {}
