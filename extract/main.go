// Command extract regenerates the Lean facts in lean/MoqModel/Generated from the current
// working tree of matryer/moq.  Standard library only; it reads source files and imports
// nothing from moq.
package main

import (
	"fmt"
	"go/ast"
	"go/parser"
	"go/token"
	"os"
	"path/filepath"
	"sort"
	"strconv"
	"strings"
	"text/template/parse"
)

var failures []string

func failf(format string, a ...any) {
	failures = append(failures, fmt.Sprintf(format, a...))
}

func leanStr(s string) string {
	var b strings.Builder
	b.WriteString("(\"")
	for _, r := range s {
		switch r {
		case '"':
			b.WriteString("\\\"")
		case '\\':
			b.WriteString("\\\\")
		case '\n':
			b.WriteString("\\n")
		case '\t':
			b.WriteString("\\t")
		case '\r':
			b.WriteString("\\r")
		default:
			if r < 0x20 || r == 0x7f {
				fmt.Fprintf(&b, "\\x%02x", r)
			} else {
				b.WriteRune(r)
			}
		}
	}
	b.WriteString("\".toList)")
	return b.String()
}

func leanStrList(ss []string) string {
	parts := make([]string, len(ss))
	for i, s := range ss {
		parts[i] = leanStr(s)
	}
	return "[" + strings.Join(parts, ", ") + "]"
}

func parseFile(fset *token.FileSet, path string) *ast.File {
	f, err := parser.ParseFile(fset, path, nil, parser.ParseComments)
	if err != nil {
		failf("parse %s: %v", path, err)
		return nil
	}
	return f
}

func strLit(e ast.Expr) (string, bool) {
	bl, ok := e.(*ast.BasicLit)
	if !ok || bl.Kind != token.STRING {
		return "", false
	}
	s, err := strconv.Unquote(bl.Value)
	if err != nil {
		return "", false
	}
	return s, true
}

func findFunc(f *ast.File, name string) *ast.FuncDecl {
	if f == nil {
		return nil
	}
	for _, d := range f.Decls {
		if fd, ok := d.(*ast.FuncDecl); ok && fd.Name.Name == name {
			return fd
		}
	}
	return nil
}

func findVar(f *ast.File, name string) ast.Expr {
	if f == nil {
		return nil
	}
	for _, d := range f.Decls {
		gd, ok := d.(*ast.GenDecl)
		if !ok || gd.Tok != token.VAR {
			continue
		}
		for _, sp := range gd.Specs {
			vs := sp.(*ast.ValueSpec)
			for i, n := range vs.Names {
				if n.Name == name && i < len(vs.Values) {
					return vs.Values[i]
				}
			}
		}
	}
	return nil
}

func main() {
	if len(os.Args) != 3 {
		fmt.Fprintln(os.Stderr, "usage: extract <repo> <outdir>")
		os.Exit(2)
	}
	repo, out := os.Args[1], os.Args[2]
	if err := os.MkdirAll(out, 0o755); err != nil {
		panic(err)
	}
	fset := token.NewFileSet()
	genTables(fset, repo, out)
	genTemplate(fset, repo, out)
	genGlue(fset, repo, out)
	if len(failures) > 0 {
		for _, f := range failures {
			fmt.Println("EXTRACT-FAIL:", f)
		}
		os.Exit(1)
	}
}

// ---------------------------------------------------------------------------------------
// tables

func genTables(fset *token.FileSet, repo, out string) {
	varGo := parseFile(fset, filepath.Join(repo, "internal/registry/var.go"))
	pkgGo := parseFile(fset, filepath.Join(repo, "internal/registry/package.go"))
	tmplGo := parseFile(fset, filepath.Join(repo, "internal/template/template.go"))
	moqGo := parseFile(fset, filepath.Join(repo, "pkg/moq/moq.go"))
	scopeGo := parseFile(fset, filepath.Join(repo, "internal/registry/method_scope.go"))

	// reserved names: the string cases of `switch name` in varName, and the suffix appended
	var reserved []string
	suffix := ""
	if fd := findFunc(varGo, "varName"); fd != nil {
		ast.Inspect(fd, func(n ast.Node) bool {
			sw, ok := n.(*ast.SwitchStmt)
			if !ok {
				return true
			}
			if id, ok := sw.Tag.(*ast.Ident); !ok || id.Name != "name" {
				return true
			}
			for _, st := range sw.Body.List {
				cc := st.(*ast.CaseClause)
				for _, e := range cc.List {
					if s, ok := strLit(e); ok {
						reserved = append(reserved, s)
					} else {
						failf("varName: non-literal case")
					}
				}
				for _, b := range cc.Body {
					if as, ok := b.(*ast.AssignStmt); ok && as.Tok == token.ADD_ASSIGN {
						if s, ok := strLit(as.Rhs[0]); ok {
							suffix = s
						}
					}
				}
			}
			return false
		})
	}
	if len(reserved) == 0 {
		failf("varName: reserved-name switch not found")
	}
	if suffix == "" {
		failf("varName: suffix literal not found")
	}
	// the same suffix literal must be what AddVar / resolveImportVarConflicts / varNameForType use
	for _, fn := range []struct {
		f    *ast.File
		name string
	}{{scopeGo, "AddVar"}, {scopeGo, "resolveImportVarConflicts"}, {varGo, "varNameForType"}} {
		fd := findFunc(fn.f, fn.name)
		found := false
		if fd != nil {
			ast.Inspect(fd, func(n ast.Node) bool {
				if as, ok := n.(*ast.AssignStmt); ok && as.Tok == token.ADD_ASSIGN {
					if s, ok := strLit(as.Rhs[0]); ok && s == suffix {
						found = true
					}
				}
				return true
			})
		}
		if !found {
			failf("%s: does not append %q", fn.name, suffix)
		}
	}

	// initialisms
	var initialisms []string
	if cl, ok := findVar(tmplGo, "golintInitialisms").(*ast.CompositeLit); ok {
		for _, e := range cl.Elts {
			if s, ok := strLit(e); ok {
				initialisms = append(initialisms, s)
			} else {
				failf("golintInitialisms: non-literal element")
			}
		}
	} else {
		failf("golintInitialisms not found")
	}

	// replacer pairs
	var pairs []string
	if call, ok := findVar(pkgGo, "replacer").(*ast.CallExpr); ok {
		for _, a := range call.Args {
			if s, ok := strLit(a); ok {
				pairs = append(pairs, s)
			} else {
				failf("replacer: non-literal argument")
			}
		}
	} else {
		failf("replacer not found")
	}
	if len(pairs)%2 != 0 {
		failf("replacer: odd number of arguments")
		pairs = pairs[:len(pairs)-1]
	}

	// vendor separator
	vendorSep := ""
	if fd := findFunc(pkgGo, "stripVendorPath"); fd != nil {
		ast.Inspect(fd, func(n ast.Node) bool {
			if call, ok := n.(*ast.CallExpr); ok {
				if sel, ok := call.Fun.(*ast.SelectorExpr); ok && sel.Sel.Name == "Split" && len(call.Args) == 2 {
					if s, ok := strLit(call.Args[1]); ok {
						vendorSep = s
					}
				}
			}
			return true
		})
	}
	if vendorSep == "" {
		failf("stripVendorPath: separator not found")
	}

	// result suffix: second argument of the AddVar call on sig.Results() in methodData
	outSuffix := ""
	paramSuffix := "?"
	if fd := findFunc(moqGo, "methodData"); fd != nil {
		ast.Inspect(fd, func(n ast.Node) bool {
			call, ok := n.(*ast.CallExpr)
			if !ok {
				return true
			}
			sel, ok := call.Fun.(*ast.SelectorExpr)
			if !ok || sel.Sel.Name != "AddVar" || len(call.Args) != 2 {
				return true
			}
			src := exprString(fset, call.Args[0])
			s, ok := strLit(call.Args[1])
			if !ok {
				failf("methodData: AddVar suffix is not a literal")
				return true
			}
			if strings.Contains(src, "Results") {
				outSuffix = s
			} else if strings.Contains(src, "Params") {
				paramSuffix = s
			}
			return true
		})
	}
	if paramSuffix != "" {
		failf("methodData: parameter suffix is %q, the model assumes \"\"", paramSuffix)
	}

	var b strings.Builder
	b.WriteString("import MoqModel.Str\n/- REGENERATED from /repo by extract/ on every run – do not edit. -/\nnamespace Moq.Generated\n\n")
	fmt.Fprintf(&b, "def reservedNames : List Str := %s\n\n", leanStrList(reserved))
	fmt.Fprintf(&b, "def initialisms : List Str := %s\n\n", leanStrList(initialisms))
	b.WriteString("def replacerPairs : List (Str × Str) := [")
	for i := 0; i+1 < len(pairs); i += 2 {
		if i > 0 {
			b.WriteString(", ")
		}
		fmt.Fprintf(&b, "(%s, %s)", leanStr(pairs[i]), leanStr(pairs[i+1]))
	}
	b.WriteString("]\n\n")
	fmt.Fprintf(&b, "def moqParamSuffix : Str := %s\n", leanStr(suffix))
	fmt.Fprintf(&b, "def outSuffix : Str := %s\n", leanStr(outSuffix))
	fmt.Fprintf(&b, "def vendorSep : Str := %s\n", leanStr(vendorSep))
	b.WriteString("\nend Moq.Generated\n")
	writeFile(filepath.Join(out, "Tables.lean"), b.String())
}

func exprString(fset *token.FileSet, e ast.Expr) string {
	var b strings.Builder
	ast.Inspect(e, func(n ast.Node) bool {
		if id, ok := n.(*ast.Ident); ok {
			b.WriteString(id.Name)
			b.WriteString(" ")
		}
		return true
	})
	return b.String()
}

func writeFile(path, content string) {
	if err := os.WriteFile(path, []byte(content), 0o644); err != nil {
		panic(err)
	}
}

// ---------------------------------------------------------------------------------------
// template

type tmplGen struct {
	defs  []string
	count int
}

func genTemplate(fset *token.FileSet, repo, out string) {
	tmplGo := parseFile(fset, filepath.Join(repo, "internal/template/template.go"))
	text, ok := "", false
	if e := findVar(tmplGo, "moqTemplate"); e != nil {
		text, ok = strLit(e)
	}
	if !ok {
		failf("moqTemplate: string literal not found")
	}
	funcs := map[string]any{}
	if cl, ok := findVar(tmplGo, "templateFuncs").(*ast.CompositeLit); ok {
		for _, e := range cl.Elts {
			if kv, ok := e.(*ast.KeyValueExpr); ok {
				if s, ok := strLit(kv.Key); ok {
					funcs[s] = true
				}
			}
		}
	} else {
		failf("templateFuncs not found")
	}
	for _, b := range []string{"and", "call", "html", "index", "slice", "js", "len", "not", "or", "print", "printf", "println", "urlquery", "eq", "ge", "gt", "le", "lt", "ne"} {
		funcs[b] = true
	}
	trees, err := parse.Parse("moq", text, "", "", funcs)
	if err != nil {
		failf("moqTemplate does not parse: %v", err)
		trees = map[string]*parse.Tree{}
	}
	g := &tmplGen{}
	root := "[]"
	if t := trees["moq"]; t != nil && t.Root != nil {
		root = g.list(t.Root)
	}
	var fnames []string
	for k := range funcs {
		fnames = append(fnames, k)
	}
	sort.Strings(fnames)
	var b strings.Builder
	b.WriteString("import MoqModel.Tmpl\n/- REGENERATED from /repo by extract/ on every run – do not edit. -/\nnamespace Moq.Generated\nopen Moq.Tmpl\n\n")
	for _, d := range g.defs {
		b.WriteString(d)
		b.WriteString("\n")
	}
	fmt.Fprintf(&b, "def moqTemplate : List Node := %s\n\n", root)
	fmt.Fprintf(&b, "/-- the raw template text -/\ndef moqTemplateText : Str := %s\n", leanStr(text))
	b.WriteString("\nend Moq.Generated\n")
	writeFile(filepath.Join(out, "Template.lean"), b.String())
}

// list emits a definition for the node list and returns its name.
func (g *tmplGen) list(l *parse.ListNode) string {
	if l == nil {
		return "[]"
	}
	var items []string
	for _, n := range l.Nodes {
		items = append(items, g.node(n))
	}
	name := fmt.Sprintf("tl%d", g.count)
	g.count++
	g.defs = append(g.defs, fmt.Sprintf("def %s : List Node := [\n  %s]\n", name, strings.Join(items, ",\n  ")))
	return name
}

func (g *tmplGen) node(n parse.Node) string {
	switch n := n.(type) {
	case *parse.TextNode:
		return fmt.Sprintf(".text %s", leanStr(string(n.Text)))
	case *parse.ActionNode:
		return fmt.Sprintf(".action %s", g.pipe(n.Pipe))
	case *parse.IfNode:
		return fmt.Sprintf(".ite %s %s %s", g.pipe(n.Pipe), g.list(n.List), g.list(n.ElseList))
	case *parse.RangeNode:
		return fmt.Sprintf(".range %s %s %s", g.pipe(n.Pipe), g.list(n.List), g.list(n.ElseList))
	case *parse.CommentNode:
		return ".text []"
	}
	failf("template: unsupported node %T %q", n, n.String())
	return fmt.Sprintf(".action ⟨[], [⟨[.ident %s]⟩]⟩", leanStr("<unsupported "+n.String()+">"))
}

func (g *tmplGen) pipe(p *parse.PipeNode) string {
	var decl []string
	for _, d := range p.Decl {
		decl = append(decl, d.Ident[0])
	}
	if p.IsAssign {
		failf("template: assignment pipeline %q", p.String())
	}
	var cmds []string
	for _, c := range p.Cmds {
		var args []string
		for _, a := range c.Args {
			args = append(args, g.arg(a))
		}
		cmds = append(cmds, "⟨["+strings.Join(args, ", ")+"]⟩")
	}
	return fmt.Sprintf("⟨%s, [%s]⟩", leanStrList(decl), strings.Join(cmds, ", "))
}

func (g *tmplGen) arg(a parse.Node) string {
	switch a := a.(type) {
	case *parse.DotNode:
		return ".dot"
	case *parse.FieldNode:
		return ".field " + leanStrList(a.Ident)
	case *parse.VariableNode:
		return fmt.Sprintf(".var %s %s", leanStr(a.Ident[0]), leanStrList(a.Ident[1:]))
	case *parse.IdentifierNode:
		return ".ident " + leanStr(a.Ident)
	case *parse.StringNode:
		return ".strLit " + leanStr(a.Text)
	case *parse.BoolNode:
		if a.True {
			return ".boolLit true"
		}
		return ".boolLit false"
	case *parse.NumberNode:
		if a.IsInt && a.Int64 >= 0 {
			return fmt.Sprintf(".numLit %d", a.Int64)
		}
	}
	failf("template: unsupported argument %T %q", a, a.String())
	return ".ident " + leanStr("<unsupported "+a.String()+">")
}

// ---------------------------------------------------------------------------------------
// imperative glue (filled in by glue.go)
