// Command extract regenerates the Lean facts in lean/MoqModel/Generated from the current
// working tree of matryer/moq.  Standard library only; it reads source files and imports
// nothing from moq.
package main

import (
	"fmt"
	"go/ast"
	"go/parser"
	"go/token"
	"os"
	"path/filepath"
	"sort"
	"strconv"
	"strings"
	"text/template/parse"
)

var failures []string

// scope names the group of facts being extracted; every failure is tagged with it so that a
// check only counts the failures of facts its property reads.
var scope = "?"

func failf(format string, a ...any) {
	failures = append(failures, "["+scope+"] "+fmt.Sprintf(format, a...))
}

// pkgConsts: package-level string constants and string-typed variables with a literal value,
// package-level string sets (map[string]bool / map[string]struct{} literals: the keys; []string
// literals: the elements) of the files of one directory.
type pkgDecls struct {
	strs map[string]string
	sets map[string][]string
}

func collectDecls(files ...*ast.File) *pkgDecls {
	d := &pkgDecls{strs: map[string]string{}, sets: map[string][]string{}}
	for _, f := range files {
		if f == nil {
			continue
		}
		for _, decl := range f.Decls {
			gd, ok := decl.(*ast.GenDecl)
			if !ok || (gd.Tok != token.CONST && gd.Tok != token.VAR) {
				continue
			}
			for _, sp := range gd.Specs {
				vs := sp.(*ast.ValueSpec)
				for i, n := range vs.Names {
					if i >= len(vs.Values) {
						continue
					}
					if s, ok := strLit(vs.Values[i]); ok {
						d.strs[n.Name] = s
					}
					if cl, ok := vs.Values[i].(*ast.CompositeLit); ok {
						var elems []string
						good := len(cl.Elts) > 0
						for _, e := range cl.Elts {
							if kv, ok := e.(*ast.KeyValueExpr); ok {
								e = kv.Key
							}
							if s, ok := strLit(e); ok {
								elems = append(elems, s)
							} else {
								good = false
							}
						}
						if good {
							d.sets[n.Name] = elems
						}
					}
				}
			}
		}
	}
	return d
}

// strVal: a string literal, or an identifier naming a package-level string constant.
func (d *pkgDecls) strVal(e ast.Expr) (string, bool) {
	if s, ok := strLit(e); ok {
		return s, true
	}
	if id, ok := e.(*ast.Ident); ok && d != nil {
		s, ok := d.strs[id.Name]
		return s, ok
	}
	return "", false
}

func leanStr(s string) string {
	var b strings.Builder
	b.WriteString("(\"")
	for _, r := range s {
		switch r {
		case '"':
			b.WriteString("\\\"")
		case '\\':
			b.WriteString("\\\\")
		case '\n':
			b.WriteString("\\n")
		case '\t':
			b.WriteString("\\t")
		case '\r':
			b.WriteString("\\r")
		default:
			if r < 0x20 || r == 0x7f {
				fmt.Fprintf(&b, "\\x%02x", r)
			} else {
				b.WriteRune(r)
			}
		}
	}
	b.WriteString("\".toList)")
	return b.String()
}

func leanStrList(ss []string) string {
	parts := make([]string, len(ss))
	for i, s := range ss {
		parts[i] = leanStr(s)
	}
	return "[" + strings.Join(parts, ", ") + "]"
}

func parseFile(fset *token.FileSet, path string) *ast.File {
	f, err := parser.ParseFile(fset, path, nil, parser.ParseComments)
	if err != nil {
		failf("parse %s: %v", path, err)
		return nil
	}
	return f
}

func strLit(e ast.Expr) (string, bool) {
	bl, ok := e.(*ast.BasicLit)
	if !ok || bl.Kind != token.STRING {
		return "", false
	}
	s, err := strconv.Unquote(bl.Value)
	if err != nil {
		return "", false
	}
	return s, true
}

func findFunc(f *ast.File, name string) *ast.FuncDecl {
	if f == nil {
		return nil
	}
	for _, d := range f.Decls {
		if fd, ok := d.(*ast.FuncDecl); ok && fd.Name.Name == name {
			return fd
		}
	}
	return nil
}

func findVar(f *ast.File, name string) ast.Expr {
	if f == nil {
		return nil
	}
	for _, d := range f.Decls {
		gd, ok := d.(*ast.GenDecl)
		if !ok || gd.Tok != token.VAR {
			continue
		}
		for _, sp := range gd.Specs {
			vs := sp.(*ast.ValueSpec)
			for i, n := range vs.Names {
				if n.Name == name && i < len(vs.Values) {
					return vs.Values[i]
				}
			}
		}
	}
	return nil
}

func main() {
	if len(os.Args) != 3 {
		fmt.Fprintln(os.Stderr, "usage: extract <repo> <outdir>")
		os.Exit(2)
	}
	repo, out := os.Args[1], os.Args[2]
	if err := os.MkdirAll(out, 0o755); err != nil {
		panic(err)
	}
	fset := token.NewFileSet()
	genTables(fset, repo, out)
	scope = "template"
	genTemplate(fset, repo, out)
	genGlue(fset, repo, out)
	if len(failures) > 0 {
		for _, f := range failures {
			fmt.Println("EXTRACT-FAIL:", f)
		}
		os.Exit(1)
	}
}

// ---------------------------------------------------------------------------------------
// tables

func genTables(fset *token.FileSet, repo, out string) {
	varGo := parseFile(fset, filepath.Join(repo, "internal/registry/var.go"))
	pkgGo := parseFile(fset, filepath.Join(repo, "internal/registry/package.go"))
	tmplGo := parseFile(fset, filepath.Join(repo, "internal/template/template.go"))
	moqGo := parseFile(fset, filepath.Join(repo, "pkg/moq/moq.go"))
	scopeGo := parseFile(fset, filepath.Join(repo, "internal/registry/method_scope.go"))

	regDecls := collectDecls(varGo, pkgGo, scopeGo, parseFile(fset, filepath.Join(repo, "internal/registry/registry.go")))
	tmplDecls := collectDecls(tmplGo)

	// reserved names: the string cases of `switch name` in varName (or a package-level string set
	// varName consults), and the suffix appended
	scope = "tables.reserved"
	var reserved []string
	suffix := ""
	if fd := findFunc(varGo, "varName"); fd != nil {
		ast.Inspect(fd, func(n ast.Node) bool {
			switch n := n.(type) {
			case *ast.SwitchStmt:
				if id, ok := n.Tag.(*ast.Ident); !ok || id.Name != "name" {
					return true
				}
				for _, st := range n.Body.List {
					cc := st.(*ast.CaseClause)
					for _, e := range cc.List {
						if s, ok := regDecls.strVal(e); ok {
							reserved = append(reserved, s)
						} else {
							failf("varName: non-literal case")
						}
					}
				}
			case *ast.Ident:
				if set, ok := regDecls.sets[n.Name]; ok && len(reserved) == 0 {
					reserved = append(reserved, set...)
				}
			case *ast.AssignStmt:
				if n.Tok == token.ADD_ASSIGN && len(n.Lhs) == 1 {
					if id, ok := n.Lhs[0].(*ast.Ident); ok && id.Name == "name" {
						if s, ok := regDecls.strVal(n.Rhs[0]); ok {
							suffix = s
						}
					}
				}
			}
			return true
		})
	}
	if len(reserved) == 0 {
		failf("varName: reserved-name switch or set not found; falling back to the table of the pinned commit")
		reserved = strings.Fields(defaultReserved)
	}
	scope = "tables.suffix"
	if suffix == "" {
		failf("varName: suffix not found; falling back to MoqParam")
		suffix = "MoqParam"
	}
	// the same suffix must be what AddVar / resolveImportVarConflicts / varNameForType append
	for _, fn := range []struct {
		f    *ast.File
		name string
	}{{scopeGo, "AddVar"}, {scopeGo, "resolveImportVarConflicts"}, {varGo, "varNameForType"}} {
		fd := findFunc(fn.f, fn.name)
		found := false
		if fd != nil {
			ast.Inspect(fd, func(n ast.Node) bool {
				if as, ok := n.(*ast.AssignStmt); ok && as.Tok == token.ADD_ASSIGN {
					if s, ok := regDecls.strVal(as.Rhs[0]); ok && s == suffix {
						found = true
					}
				}
				return true
			})
		}
		if !found {
			failf("%s: does not append %q", fn.name, suffix)
		}
	}

	// initialisms
	scope = "tables.initialisms"
	var initialisms []string
	if set, ok := tmplDecls.sets["golintInitialisms"]; ok {
		initialisms = set
	} else {
		failf("golintInitialisms not found or not a literal string set; falling back to golint's table")
		initialisms = strings.Fields(defaultInitialisms)
	}

	// replacer pairs
	scope = "tables.replacer"
	var pairs []string
	if call, ok := findVar(pkgGo, "replacer").(*ast.CallExpr); ok {
		for _, a := range call.Args {
			if s, ok := regDecls.strVal(a); ok {
				pairs = append(pairs, s)
			} else {
				failf("replacer: non-literal argument")
			}
		}
	} else {
		failf("replacer not found; falling back to the pairs of the pinned commit")
		pairs = []string{"go-", "", "-go", "", "-", "", "_", "", ".", "", "@", "", "+", "", "~", ""}
	}
	if len(pairs)%2 != 0 {
		failf("replacer: odd number of arguments")
		pairs = pairs[:len(pairs)-1]
	}

	// vendor separator
	scope = "tables.vendor"
	vendorSep := ""
	if fd := findFunc(pkgGo, "stripVendorPath"); fd != nil {
		ast.Inspect(fd, func(n ast.Node) bool {
			if call, ok := n.(*ast.CallExpr); ok {
				if sel, ok := call.Fun.(*ast.SelectorExpr); ok && sel.Sel.Name == "Split" && len(call.Args) == 2 {
					if s, ok := regDecls.strVal(call.Args[1]); ok {
						vendorSep = s
					}
				}
			}
			return true
		})
	}
	if vendorSep == "" {
		failf("stripVendorPath: separator not found; falling back to /vendor/")
		vendorSep = "/vendor/"
	}

	// result suffix: second argument of the AddVar call on sig.Results() in methodData
	scope = "tables.outSuffix"
	moqDecls := collectDecls(moqGo)
	outSuffix := ""
	paramSuffix := "?"
	if fd := findFunc(moqGo, "methodData"); fd != nil {
		ast.Inspect(fd, func(n ast.Node) bool {
			call, ok := n.(*ast.CallExpr)
			if !ok {
				return true
			}
			sel, ok := call.Fun.(*ast.SelectorExpr)
			if !ok || sel.Sel.Name != "AddVar" || len(call.Args) != 2 {
				return true
			}
			src := exprString(fset, call.Args[0])
			s, ok := moqDecls.strVal(call.Args[1])
			if !ok {
				failf("methodData: AddVar suffix is not a literal")
				return true
			}
			if strings.Contains(src, "Results") {
				outSuffix = s
			} else if strings.Contains(src, "Params") {
				paramSuffix = s
			}
			return true
		})
	}
	if paramSuffix != "" {
		failf("methodData: parameter suffix is %q, the model assumes \"\"", paramSuffix)
	}

	var b strings.Builder
	b.WriteString("import MoqModel.Str\n/- REGENERATED from /repo by extract/ on every run – do not edit. -/\nnamespace Moq.Generated\n\n")
	fmt.Fprintf(&b, "def reservedNames : List Str := %s\n\n", leanStrList(reserved))
	fmt.Fprintf(&b, "def initialisms : List Str := %s\n\n", leanStrList(initialisms))
	b.WriteString("def replacerPairs : List (Str × Str) := [")
	for i := 0; i+1 < len(pairs); i += 2 {
		if i > 0 {
			b.WriteString(", ")
		}
		fmt.Fprintf(&b, "(%s, %s)", leanStr(pairs[i]), leanStr(pairs[i+1]))
	}
	b.WriteString("]\n\n")
	fmt.Fprintf(&b, "def moqParamSuffix : Str := %s\n", leanStr(suffix))
	fmt.Fprintf(&b, "def outSuffix : Str := %s\n", leanStr(outSuffix))
	fmt.Fprintf(&b, "def vendorSep : Str := %s\n", leanStr(vendorSep))
	b.WriteString("\nend Moq.Generated\n")
	writeFile(filepath.Join(out, "Tables.lean"), b.String())
}

// tables of the pinned commit (after the fix: commits), used only when the source no longer has
// a shape the extractor understands; the failure is still reported for the properties that
// read the table, and the byte-level correspondence decides whether the fallback is right.
const defaultReserved = `mock callInfo break default func interface select case defer go map struct
chan else goto package switch const fallthrough if range type continue for import return var
string bool byte rune uintptr int int8 int16 int32 int64 uint uint8 uint16 uint32 uint64
float32 float64 complex64 complex128 error any nil append panic`

const defaultInitialisms = `ACL API ASCII CPU CSS DNS EOF GUID HTML HTTP HTTPS ID IP JSON LHS QPS RAM RHS RPC SLA
SMTP SQL SSH TCP TLS TTL UDP UI UID UUID URI URL UTF8 VM XML XMPP XSRF XSS`

func exprString(fset *token.FileSet, e ast.Expr) string {
	var b strings.Builder
	ast.Inspect(e, func(n ast.Node) bool {
		if id, ok := n.(*ast.Ident); ok {
			b.WriteString(id.Name)
			b.WriteString(" ")
		}
		return true
	})
	return b.String()
}

func writeFile(path, content string) {
	if err := os.WriteFile(path, []byte(content), 0o644); err != nil {
		panic(err)
	}
}

// ---------------------------------------------------------------------------------------
// template

type tmplGen struct {
	defs  []string
	count int
}

func genTemplate(fset *token.FileSet, repo, out string) {
	tmplGo := parseFile(fset, filepath.Join(repo, "internal/template/template.go"))
	text, ok := "", false
	if e := findVar(tmplGo, "moqTemplate"); e != nil {
		text, ok = strLit(e)
	}
	if !ok {
		failf("moqTemplate: string literal not found")
	}
	funcs := map[string]any{}
	if cl, ok := findVar(tmplGo, "templateFuncs").(*ast.CompositeLit); ok {
		for _, e := range cl.Elts {
			if kv, ok := e.(*ast.KeyValueExpr); ok {
				if s, ok := strLit(kv.Key); ok {
					funcs[s] = true
				}
			}
		}
	} else {
		failf("templateFuncs not found")
	}
	for _, b := range []string{"and", "call", "html", "index", "slice", "js", "len", "not", "or", "print", "printf", "println", "urlquery", "eq", "ge", "gt", "le", "lt", "ne"} {
		funcs[b] = true
	}
	trees, err := parse.Parse("moq", text, "", "", funcs)
	if err != nil {
		failf("moqTemplate does not parse: %v", err)
		trees = map[string]*parse.Tree{}
	}
	g := &tmplGen{}
	root := "[]"
	if t := trees["moq"]; t != nil && t.Root != nil {
		root = g.list(t.Root)
	}
	var fnames []string
	for k := range funcs {
		fnames = append(fnames, k)
	}
	sort.Strings(fnames)
	var b strings.Builder
	b.WriteString("import MoqModel.Tmpl\n/- REGENERATED from /repo by extract/ on every run – do not edit. -/\nnamespace Moq.Generated\nopen Moq.Tmpl\n\n")
	for _, d := range g.defs {
		b.WriteString(d)
		b.WriteString("\n")
	}
	fmt.Fprintf(&b, "def moqTemplate : List Node := %s\n\n", root)
	fmt.Fprintf(&b, "/-- the raw template text -/\ndef moqTemplateText : Str := %s\n", leanStr(text))
	b.WriteString("\nend Moq.Generated\n")
	writeFile(filepath.Join(out, "Template.lean"), b.String())
}

// list emits a definition for the node list and returns its name.
func (g *tmplGen) list(l *parse.ListNode) string {
	if l == nil {
		return "[]"
	}
	var items []string
	for _, n := range l.Nodes {
		items = append(items, g.node(n))
	}
	name := fmt.Sprintf("tl%d", g.count)
	g.count++
	g.defs = append(g.defs, fmt.Sprintf("def %s : List Node := [\n  %s]\n", name, strings.Join(items, ",\n  ")))
	return name
}

func (g *tmplGen) node(n parse.Node) string {
	switch n := n.(type) {
	case *parse.TextNode:
		return fmt.Sprintf(".text %s", leanStr(string(n.Text)))
	case *parse.ActionNode:
		return fmt.Sprintf(".action %s", g.pipe(n.Pipe))
	case *parse.IfNode:
		return fmt.Sprintf(".ite %s %s %s", g.pipe(n.Pipe), g.list(n.List), g.list(n.ElseList))
	case *parse.RangeNode:
		return fmt.Sprintf(".range %s %s %s", g.pipe(n.Pipe), g.list(n.List), g.list(n.ElseList))
	case *parse.CommentNode:
		return ".text []"
	}
	failf("template: unsupported node %T %q", n, n.String())
	return fmt.Sprintf(".action ⟨[], [⟨[.ident %s]⟩]⟩", leanStr("<unsupported "+n.String()+">"))
}

func (g *tmplGen) pipe(p *parse.PipeNode) string {
	var decl []string
	for _, d := range p.Decl {
		decl = append(decl, d.Ident[0])
	}
	if p.IsAssign {
		failf("template: assignment pipeline %q", p.String())
	}
	var cmds []string
	for _, c := range p.Cmds {
		var args []string
		for _, a := range c.Args {
			args = append(args, g.arg(a))
		}
		cmds = append(cmds, "⟨["+strings.Join(args, ", ")+"]⟩")
	}
	return fmt.Sprintf("⟨%s, [%s]⟩", leanStrList(decl), strings.Join(cmds, ", "))
}

func (g *tmplGen) arg(a parse.Node) string {
	switch a := a.(type) {
	case *parse.DotNode:
		return ".dot"
	case *parse.FieldNode:
		return ".field " + leanStrList(a.Ident)
	case *parse.VariableNode:
		return fmt.Sprintf(".var %s %s", leanStr(a.Ident[0]), leanStrList(a.Ident[1:]))
	case *parse.IdentifierNode:
		return ".ident " + leanStr(a.Ident)
	case *parse.StringNode:
		return ".strLit " + leanStr(a.Text)
	case *parse.BoolNode:
		if a.True {
			return ".boolLit true"
		}
		return ".boolLit false"
	case *parse.NumberNode:
		if a.IsInt && a.Int64 >= 0 {
			return fmt.Sprintf(".numLit %d", a.Int64)
		}
	}
	failf("template: unsupported argument %T %q", a, a.String())
	return ".ident " + leanStr("<unsupported "+a.String()+">")
}

// ---------------------------------------------------------------------------------------
// imperative glue (filled in by glue.go)
